"""C06 - a checkpointed solver resumes exactly as if it had never been interrupted; restored solvers and deep
copies are independent of the original and keep counting their own evaluations.

Monitor (the property itself, on the real code): for EVERY generation boundary k of a run, for the four restore
paths {SaveSolver+LoadSolver, periodic SetSaveFrequency dump, dill.dumps/loads, copy.deepcopy}: restore with the
saved random state (python `random` and `numpy.random`), continue, and compare the full snapshot with the
uninterrupted run after every further Step; advance one of (original, copy) and require the other unchanged;
real cost calls made while a copy advances == growth of its `evaluations` (and of its evaluation monitor).

Correspondence (Lean model): (a) the solver model S restarted from the snapshot READ OFF THE RESTORED REAL SOLVER
(`de-resume`, `nm-resume`, `ctl-resume`, `pw-resume`) must reproduce the real continuation bit for bit - if the real
code read any state outside the snapshot records of Model/Checkpoint.lean / Model/PowellResume.lean this diverges;
Powell's direction-set solver is `PowellS.stepAt` (the real `_Step` with Brent as a recorded oracle) restarted from
the `PwSnap` read off the solver restored by SaveSolver+LoadSolver, dill, copy.deepcopy and from every periodic
dump; `pw-dump`: the state found in a periodic restart file is the model's mid-iteration state `midDump`;
`pw-share`: solver objects with a pointer to their direction-set array (`stepObj` / `deepCopyObj`);
(b) the aliasing model of the shared counter / monitor cells (`alias`) against real solver objects under
decorate / call / pickle / deepcopy.

Independence monitors: every copy ever taken (SaveSolver+LoadSolver, dill, deepcopy; at every boundary) stays alive
to the end of the original's run and must still show the state it had; per boundary one copy is never advanced
("idle"), must not move while its siblings / the original run, and must still resume exactly after the original
has finished; per boundary one copy is itself copied again through a second path (copy of a copy) and the
second-generation copy is checked like a first-generation one, with its parent as its original.

The run as ONE Solve() call (stages W / X): the uninterrupted run is a single `Solve(cost, termination, ExtraArgs,
**keywords)` - solver-private settings (DE strategy / CrossProbability / ScalingFactor, Nelder-Mead radius / adaptive,
Powell xtol / imax / direc), optionally penalty / constraints / monitors, given as KEYWORDS of that call and to nothing
else.  At the end of EVERY generation a checkpoint is taken from inside the call (SaveSolver / dill / copy.deepcopy
called from the callback, the periodic dump); each is restored and continued to termination by a BARE Solve() /
Solve(callback) / loop over Step() under the saved random state and must reproduce the uninterrupted call generation
by generation and in its final state.  X: the call is killed at one boundary (exception out of the callback) and the
dead solver is saved / pickled / deep-copied / SHALLOW-copied afterwards.  Stages K: the shallow copy protocol
(copy.copy / __copy__) in the Step()-driven run - the solver object is replaced by its shallow copy at every boundary
(and before the first Step) / at one boundary; the continued copy must be the uninterrupted run and count what it
evaluates.  Correspondence `sticky`: the REAL `_process_inputs` of the four solvers, called the way Step(**kw) and
Solve(**kw) call it, interleaved with attribute assignments and pickle / copy round trips, against `deStepKw` /
`deSolveKw` / `step2Kw` / `solve2Kw`; `alias` now also takes shallow copies (`shallowCopy`).

Stream `reconf` (harness/c06_reconf.py): runs whose evaluation / step monitor, limits, penalty are changed BETWEEN the Steps (the
evaluation monitor then holds fewer / more records than the counter says), checkpointed at every boundary and continued with the
objective handed over again (Step(cost) / Solve(cost), ExtraArgs): the restored solver re-decorates, the uninterrupted one does not.
`alias` takes `(setmon i new k)` = SetEvaluationMonitor in the middle of the run (Model/CheckpointMon.lean, Props/C06Mon.lean)."""
import os, sys, io, time, json, copy, random as _random, tempfile, shutil, hashlib, contextlib, collections
import numpy as np
import common
from common import case_rng, fl, fll, f2b, b2f, parse_reply, same_vec, same_float
import dsl, framework, leandrv, solvergen, solvermodel, trace
from framework import Finding

PID = "C06"
MODULE = "MysticVerif.Props.C06All"
THEOREMS = ["MysticVerif.C06." + t for t in [
    "resume_equals_uninterrupted", "resume_equals_uninterrupted_de", "resume_twice_de", "de_step_congr",
    "de_snapshot_must_carry_best",
    "resume_equals_uninterrupted_nm", "nm_step_congr",
    "resume_equals_uninterrupted_ctl", "ctl_step_congr",
    "powell_boundary_resume", "powell_midstep_dump_diverges",
    "powellS_step_congr", "powellS_steps_congr", "powellS_resume", "powellS_resume_twice", "powellS_reach_eq_steps",
    "resume_equals_uninterrupted_powell", "powellS_restart_index", "powellS_dump_completion",
    "powellS_snapshot_must_carry_internals", "powellS_snapshot_must_carry_direc", "powellS_midstep_dump_diverges",
    "powellS_step_frame", "powellS_deepcopy_independent", "powellS_shared_direc_not_independent",
    "linked_counts", "copies_independent", "pickle_preserves_links", "pickle_copy_disjoint", "restored_counts_own",
    "deepcopy_as_implemented_unlinks", "deepcopy_copy_stops_counting", "deepcopy_stops_counting_witness",
    "deepcopy_disjoint", "redecorate_relinks",
    "counts_iff_ctr_linked", "shallowcopy_keeps_counting", "shallowcopy_shares_the_counter",
    "shallow_copy_private_counter_stops_counting", "shallow_copy_witness",
    "solve_kwds_resume_de", "solve_kwds_resume_2", "de_writeback_must_be_the_setting_in_force",
    "solve_kwds_custom_strategy_not_resumed", "solve_kwds_resume_de_repassed",
    "steps_resume", "solve_resume", "solve_stable",
    "setmon_keeps_count", "setmon_redecorate_counts", "resume_redecorated_equals_uninterrupted", "resume_after_monitor_change",
    "decorate_from_monitor_agrees_when_complete", "decorate_from_monitor_length_does_not_resume"]]

PATHS = ("saveload", "dill", "deepcopy", "periodic")

# known-finding class keys (known_findings.d/C06.json)
KEY_F5 = "deepcopy/evaluations-and-evalmon-unlinked/live-solver-continued-without-redecoration"
KEY_PW_RAISE = "periodic/PowellDirectionalSolver/dump-taken-mid-iteration/resume-raises"
KEY_PW_DIVERGE = "periodic/PowellDirectionalSolver/dump-taken-mid-iteration/resume-diverges"

# ---------------------------------------------------------------- picklable user functions
# every call is attributed to the solver that is being advanced right now (ACTOR), whichever python object it is
ACTOR = ["-"]
CALLS = collections.Counter()
FORM_HIST = collections.Counter()


def _vec(x):
    return [float(v) for v in np.asarray(x, dtype=float).ravel()]


class Runaway(BaseException):
    """a continued solver that no longer stops where the uninterrupted run stopped (a lost limit) is cut off here"""


CALL_LIMIT = [None]


class CostFn(object):
    def __init__(self, cost_expr):
        self.kind = cost_expr[0]; self.e = cost_expr[1]

    def __call__(self, x, *args):
        CALLS[(ACTOR[0], "cost")] += 1
        if CALL_LIMIT[0] is not None and CALLS[(ACTOR[0], "cost")] > CALL_LIMIT[0]:
            raise Runaway()
        xv = _vec(x)
        shift = float(sum(args)) if args else 0.0      # ExtraArgs of the run: cost(x, *ExtraArgs) = cost(x) + sum(ExtraArgs)
        if self.kind == "scalar":
            return dsl.ev(self.e, xv) + shift if args else dsl.ev(self.e, xv)
        v = np.array([dsl.ev(t, xv) for t in self.e])
        return v + shift if args else v


REF_COST = [None]


def ref_cost(x, *args):
    """a module-level function: dill pickles it BY REFERENCE, so `cost is solver._cost[1]` survives a restore"""
    return REF_COST[0](x, *args)


def own_strategy_a(inst, candidate):
    """a user's OWN mutation strategy (no attribute of mystic.strategy): Rand1Exp under another name"""
    import mystic.strategy as S
    return S.Rand1Exp(inst, candidate)


def own_strategy_b(inst, candidate):
    import mystic.strategy as S
    return S.Best1Bin(inst, candidate)


OWN_STRATEGIES = {"own:Rand1Exp": own_strategy_a, "own:Best1Bin": own_strategy_b}
W_STRATEGIES = ["Best1Bin", "Best1Exp", "Rand1Bin", "Rand1Exp", "RandToBest1Exp", "RandToBest1Bin", "Best2Exp", "Best2Bin", "Rand2Bin", "Rand2Exp"]


class PenFn(object):
    def __init__(self, expr):
        self.e = expr

    def __call__(self, x):
        CALLS[(ACTOR[0], "pen")] += 1
        return dsl.ev(self.e, _vec(x))


class CondFn(object):
    """condition for a mystic.penalty decorator: x_i - c <= 0"""

    def __init__(self, i, c):
        self.i = i; self.c = c

    def __call__(self, x):
        return float(x[self.i]) - self.c


def zero_pen(x):
    return 0.0


class ConFn(object):
    def __init__(self, term, inplace):
        self.term = term; self.inplace = inplace

    def __call__(self, x):
        CALLS[(ACTOR[0], "con")] += 1
        y = dsl.con_apply(self.term, _vec(x))
        if self.inplace:
            try:
                for i in range(len(y)):
                    x[i] = y[i]
                return x
            except TypeError:
                pass
        return y


def red_sum(a, b):
    return a + b


def red_max(a, b):
    return a if a >= b else b


def callback(x):
    CALLS[(ACTOR[0], "cb")] += 1


class Rec(object):
    """what trace.patched records (DE trial vectors, Powell line searches)"""

    def __init__(self):
        self.trials = []; self.linesearch = []


# ---------------------------------------------------------------- specs
def gen_case(rng, tier):
    solver = rng.choice(["DE", "DE2", "NM", "Powell", "DE", "NM", "Powell"])
    nmax = 12 if tier == "quick" else 60
    if tier == "quick":
        n = rng.randint(4, nmax) if solver != "Powell" else rng.randint(4, 8)
    else:
        n = rng.choice([rng.randint(4, 14), rng.randint(15, nmax)]) if solver != "Powell" else rng.randint(4, 14)
    spec = solvergen.gen_spec(rng, solver=solver, maxdim=4 if solver != "Powell" else 3, nsteps=(n, n), flavour="steps")
    spec["n"] = n
    # limits: keep the interesting ones (a stop in the middle of the run) but not the degenerate majority
    if spec.get("limits") is not None and rng.random() < 0.6:
        g = rng.choice([None, n // 2, n - 2, 2 * n]); e = rng.choice([None, None, 5 * n, 40 * n])
        spec["limits"] = (g, e)
    if spec.get("termination") is not None and spec["termination"][0] in ("VTR", "COG", "NCOG", "Or", "CRT") and rng.random() < 0.5:
        spec["termination"] = ("never",)        # long runs: every boundary up to n is a real iteration
    if spec.get("ranges") and spec["ranges"][3] is False:
        lo, hi, tight, clip = spec["ranges"]
        spec["ranges"] = (lo, hi, tight, None)  # clip=False randomises through numpy.random inside the objective: kept out
    spec["evalmon"] = rng.choice(["Monitor", "Monitor", "Null", "VerboseMonitor", "LoggingMonitor"])
    spec["stepmon"] = rng.choice(["default", "default", "Monitor", "VerboseMonitor", "LoggingMonitor", "VerboseLoggingMonitor"])
    if rng.random() < 0.25:
        spec["stepmon"] = rng.choice(["Monitor", "VerboseMonitor", "LoggingMonitor", "LoggingMonitor", "VerboseLoggingMonitor"]) + ":" + rng.choice(["2.0", "0.5", "4.0", "-2.0"])

    spec["savefreq"] = rng.choice([1, 1, 2, 3])
    spec["mode"] = rng.choice(["none", "none", "own", "ref", "fresh"])
    if spec["mode"] == "fresh" and spec.get("ranges"):
        # under strict ranges a re-decoration is not neutral (Nelder-Mead rebuilds its simplex - F20 -, DE draws from
        # `random` for every member): Step(new cost object) is then a reconfiguration, not a continuation
        spec["mode"] = rng.choice(["none", "own"])
    spec["callback"] = rng.random() < 0.5
    spec["kw_first"] = rng.random() < 0.5       # solver-private settings given once, to the first Step only (sticky)
    if spec.get("penalty") is not None and rng.random() < 0.4:
        spec["penalty_mystic"] = (rng.choice(["quadratic_inequality", "linear_inequality", "quadratic_equality"]),
                                  rng.randrange(spec["dim"]), common.dyadic(rng, -2, 2, 2), rng.choice([1, 10, 100]))
    if solver == "NM" and spec["kw_first"]:
        spec["radius"] = rng.choice([0.05, 0.1, 0.25]); spec["adaptive"] = rng.random() < 0.3
    if solver == "Powell" and spec["kw_first"]:
        spec["xtol"] = rng.choice([1e-4, 1e-3])
    spec["seed"] = rng.randrange(2 ** 31)
    spec["solve_cut"] = rng.randrange(64); spec["solve_extra"] = rng.choice([1, 3, 6])
    # ---------- appended draws (everything above is drawn as before: older replay coordinates regenerate the same run)
    # stage W: the run is ONE Solve(cost, termination, ExtraArgs, **keywords) call, interrupted from inside
    w = {"periodic": rng.random() < 0.35, "mode": rng.randrange(3), "via_kwds": rng.random() < 0.35,
         "term_arg": rng.random() < 0.5, "extra": rng.choice([None, None, (0.5,), (1.0, -0.25)]), "rot": rng.randrange(6)}
    kw = {}
    if solver in ("DE", "DE2"):
        names = [t for t in W_STRATEGIES if spec["npop"] >= 6 or "2" not in t]
        r = rng.random()
        if r < 0.12:
            kw["strategy"] = rng.choice(sorted(OWN_STRATEGIES))
        elif r < 0.94:
            kw["strategy"] = rng.choice(names)
        if rng.random() < 0.6:
            kw["CrossProbability"] = rng.choice([0.9, 0.5, 1.0, 0.1, 0.45])
        if rng.random() < 0.6:
            kw["ScalingFactor"] = rng.choice([0.8, 0.5, 1.0, 0.6])
    elif solver == "NM":
        if rng.random() < 0.7:
            kw["radius"] = rng.choice([0.05, 0.1, 0.25, 0.5])
        if rng.random() < 0.5:
            kw["adaptive"] = rng.random() < 0.6
    else:
        if rng.random() < 0.7:
            kw["xtol"] = rng.choice([1e-4, 1e-3, 1e-2])
        if rng.random() < 0.4:
            kw["imax"] = rng.choice([500, 20, 6])
        if rng.random() < 0.3:
            d = spec["dim"]; kind = rng.choice(["scaled", "reversed", "upper"])
            if kind == "scaled":
                kw["direc"] = [[2.0 if i == j else 0.0 for j in range(d)] for i in range(d)]
            elif kind == "reversed":
                kw["direc"] = [[1.0 if i + j == d - 1 else 0.0 for j in range(d)] for i in range(d)]
            else:
                kw["direc"] = [[1.0 if j >= i else 0.0 for j in range(d)] for i in range(d)]
    w["kw"] = kw
    spec["w"] = w
    # stages K: the shallow copy protocol (copy.copy) in a Step()-driven run
    spec["copy_cut"] = rng.randrange(64); spec["copy_pre"] = rng.random() < 0.3
    return spec


def first_kwds(spec):
    """solver-private, sticky settings: given to the FIRST Step only; they must travel inside the restart file"""
    kw = {}
    if not spec.get("kw_first"):
        return kw
    if spec["solver"] in ("DE", "DE2"):
        import mystic.strategy as S
        kw["strategy"] = getattr(S, spec.get("strategy", "Best1Bin"))
        kw["CrossProbability"] = spec.get("CR", 0.9); kw["ScalingFactor"] = spec.get("F", 0.8)
    elif spec["solver"] == "NM":
        kw["radius"] = spec.get("radius", 0.05); kw["adaptive"] = spec.get("adaptive", False)
    else:
        kw["xtol"] = spec.get("xtol", 1e-4)
    return kw


def make_monitor(kind, tmp, tag):
    from mystic.monitors import Monitor, Null, VerboseMonitor, LoggingMonitor, VerboseLoggingMonitor
    if ":" in kind:
        # a monitor with a cost multiplier k (a power of two: (k*y)/k is exact, so the trajectory is the one without k)
        base, k = kind.split(":"); k = float(k)
        if base == "Monitor":
            return Monitor(k=k)
        if base == "VerboseMonitor":
            return VerboseMonitor(3, k=k)
        if base == "LoggingMonitor":
            return LoggingMonitor(1, filename=os.path.join(tmp, "log_%s.txt" % tag), k=k)
        if base == "VerboseLoggingMonitor":
            return VerboseLoggingMonitor(1, 5, filename=os.path.join(tmp, "vlog_%s.txt" % tag), k=k)
        raise ValueError(kind)
    if kind in ("Monitor",):
        return Monitor()
    if kind == "Null":
        return Null()
    if kind == "VerboseMonitor":
        return VerboseMonitor(3)
    if kind == "LoggingMonitor":
        return LoggingMonitor(1, filename=os.path.join(tmp, "log_%s.txt" % tag))
    if kind == "VerboseLoggingMonitor":
        return VerboseLoggingMonitor(1, 5, filename=os.path.join(tmp, "vlog_%s.txt" % tag))
    raise ValueError(kind)


def build(spec, tmp, tag, savefile=None, defer=(), out=None):
    """a configured, never-stepped solver + the cost object the run is started with.
    defer: settings NOT installed by their Set* method but returned in `out` under the keyword `Solve` / `Step` accept
    for them (penalty, constraints, EvaluationMonitor, StepMonitor) or left out (termination -> out['termination'])"""
    out = {} if out is None else out
    from mystic.solvers import (DifferentialEvolutionSolver, DifferentialEvolutionSolver2,
                                NelderMeadSimplexSolver, PowellDirectionalSolver)
    _random.seed(spec["seed"]); np.random.seed(spec["seed"] % (2 ** 31))
    kind = spec["solver"]; dim = spec["dim"]
    if kind == "DE":
        s = DifferentialEvolutionSolver(dim, spec["npop"])
    elif kind == "DE2":
        s = DifferentialEvolutionSolver2(dim, spec["npop"])
    elif kind == "NM":
        s = NelderMeadSimplexSolver(dim)
    else:
        s = PowellDirectionalSolver(dim)
    if kind in ("DE", "DE2"):
        if not spec.get("kw_first"):
            s.strategy = spec.get("strategy", "Best1Bin"); s.scale = spec.get("F", 0.8); s.probability = spec.get("CR", 0.9)
        lo, hi = spec["init_box"]
        s.SetRandomInitialPoints(list(lo), list(hi))
    else:
        s.SetInitialPoints(list(spec["x0"]))
    if spec.get("ranges"):
        lo, hi, tight, clip = spec["ranges"]
        kw = {}
        if tight is not None:
            kw["tight"] = tight
        if clip is not None:
            kw["clip"] = clip
        s.SetStrictRanges(list(lo), list(hi), **kw)
    if spec.get("constraints") is not None:
        con = ConFn(spec["constraints"], bool(spec.get("inplace")))
        if "constraints" in defer:
            out["constraints"] = con
        else:
            s.SetConstraints(con)
    pen = None
    if spec.get("penalty_mystic"):
        import mystic.penalty as P
        name, i, c, k = spec["penalty_mystic"]
        pen = getattr(P, name)(CondFn(i, c), k=k)(zero_pen)
    elif spec.get("penalty") is not None:
        pen = PenFn(spec["penalty"])
    if pen is not None:
        if "penalty" in defer:
            out["penalty"] = pen
        else:
            s.SetPenalty(pen)
    if spec.get("limits") is not None:
        s.SetEvaluationLimits(spec["limits"][0], spec["limits"][1])
    if spec.get("termination") is not None:
        if "termination" in defer:
            out["termination"] = trace.make_termination(spec["termination"])
        else:
            s.SetTermination(trace.make_termination(spec["termination"]))
    if spec.get("reducer"):
        s.SetReducer(red_sum if spec["reducer"] == "sum" else red_max)
    if spec["evalmon"] != "Null":
        if "monitors" in defer:
            out["EvaluationMonitor"] = make_monitor(spec["evalmon"], tmp, tag + "_e")
        else:
            s.SetEvaluationMonitor(make_monitor(spec["evalmon"], tmp, tag + "_e"))
    if spec["stepmon"] != "default":
        if "monitors" in defer:
            out["StepMonitor"] = make_monitor(spec["stepmon"], tmp, tag + "_s")
        else:
            s.SetGenerationMonitor(make_monitor(spec["stepmon"], tmp, tag + "_s"))
    if savefile is not None:
        s.SetSaveFrequency(spec["savefreq"], savefile)
    cost = CostFn(spec["cost"])
    if spec["mode"] == "ref":
        REF_COST[0] = cost
        cost = ref_cost
    return s, cost


# ---------------------------------------------------------------- snapshots (bit-exact, cheap to compare)
def arr(v):
    try:
        a = np.asarray(v, dtype=float)
        return (a.shape, a.tobytes())
    except (ValueError, TypeError):
        return ("repr", repr(v))


def unarr(t):
    if t is None or t[0] == "repr":
        return t
    return np.frombuffer(t[1], dtype=float).reshape(t[0]).tolist()


INCIDENTAL_INFO = ("DUMPED(", "LOADED(")


def snap(s):
    from mystic.monitors import Null
    d = {"type": type(s).__name__}
    d["population"] = arr([_vec(p) for p in s.population])
    d["popEnergy"] = arr(s.popEnergy)
    d["bestSolution"] = arr(s.bestSolution)
    d["bestEnergy"] = arr(s.bestEnergy)
    d["evaluations"] = int(s.evaluations); d["generations"] = int(s.generations)
    sm = s._stepmon
    # `.y` is the view the solver reads (energy_history): the stored costs divided by the monitor's multiplier k
    d["stepmon_x"] = arr(sm._x); d["stepmon_y"] = arr(list(sm.y)); d["stepmon_id"] = list(sm._id)
    d["stepmon_yraw"] = arr(sm._y); d["stepmon_k"] = getattr(sm, "k", None)
    d["stepmon_info"] = [m for m in sm._info if not m.startswith(INCIDENTAL_INFO)]
    em = s._evalmon
    if isinstance(em, Null):
        d["evalmon_x"] = None; d["evalmon_y"] = None
    else:
        d["evalmon_x"] = arr(em._x); d["evalmon_y"] = arr(em._y)
    d["energy_history"] = arr(list(s.energy_history))
    d["live"] = bool(s._live); d["maxiter"] = s._maxiter; d["maxfun"] = s._maxfun; d["earlyexit"] = bool(s._EARLYEXIT)
    d["saveiter"] = s._saveiter
    if hasattr(s, "genealogy"):
        d["genealogy"] = [arr(g) for g in s.genealogy]
        d["strategy"] = s.strategy; d["scale"] = s.scale; d["probability"] = s.probability
    if hasattr(s, "radius"):
        d["radius"] = s.radius; d["adaptive"] = s.adaptive
    if hasattr(s, "_direc"):
        d["direc"] = None if s._direc is None else arr(s._direc)
        it = s._PowellDirectionalSolver__internals
        d["internals"] = (arr(it[0]), arr(it[1]), int(it[2]), arr(it[3]))
        d["xtol"] = s.xtol; d["imax"] = s.imax
    return d


COUNT_FIELDS = ("evaluations", "evalmon_x", "evalmon_y")
LIMIT_FIELDS = ("maxiter", "maxfun", "live")


def diff(a, b, skip=()):
    return [k for k in a if k not in skip and a[k] != b.get(k)]


def excerpt(a, b, fields):
    out = {}
    for k in fields[:4]:
        va, vb = a.get(k), b.get(k)
        if isinstance(va, tuple) and len(va) == 2 and isinstance(va[1], bytes):
            va = unarr(va); vb = unarr(vb) if isinstance(vb, tuple) else vb
            if isinstance(va, list) and len(repr(va)) > 400:
                va = ["...", va[-2:]]; vb = ["...", vb[-2:]] if isinstance(vb, list) else vb
        out[k] = {"uninterrupted": common.jsonable(va), "restored": common.jsonable(vb)}
    return out


# ---------------------------------------------------------------- actors
class Actor(object):
    def __init__(self, name, solver, rs, cost_args):
        self.name = name; self.s = solver; self.rs = rs; self.cost_args = cost_args
        self.error = None; self.trials = []; self.ls = 0


def rng_state():
    return (_random.getstate(), np.random.get_state())


_SINK = io.StringIO()


def advance(a, rec, kw):
    """one Step of actor `a` under its own random state; returns (msg, real cost calls, d evaluations, d len(evalmon), trials)"""
    _random.setstate(a.rs[0]); np.random.set_state(a.rs[1])
    ACTOR[0] = a.name
    s = a.s
    c0 = CALLS[(a.name, "cost")]; e0 = int(s.evaluations); m0 = len(s._evalmon); t0 = len(rec.trials); n0 = len(s._stepmon)
    l0 = len(rec.linesearch)
    _SINK.seek(0); _SINK.truncate()
    with contextlib.redirect_stdout(_SINK):
        msg = s.Step(*a.cost_args, **kw)
    a.rs = rng_state()
    ACTOR[0] = "-"
    return {"msg": msg, "real": CALLS[(a.name, "cost")] - c0, "devals": int(s.evaluations) - e0,
            "dmon": len(s._evalmon) - m0, "trials": [t for _, _, t in rec.trials[t0:]], "dstep": len(s._stepmon) - n0,
            "ls": rec.linesearch[l0:]}


def linked_bits(s):
    """identity walk over the closure cells of the decorated objective: does it reach the very objects the
    solver reads (`_fcalls`, `_evalmon`)?  name-independent; (None, None) when there is nothing to walk"""
    f0 = s._cost[0]
    if f0 is None:
        return None
    seen = set(); stack = [(f0, 0)]; ctr = False; mon = False
    while stack:
        f, d = stack.pop()
        if id(f) in seen or d > 12:
            continue
        seen.add(id(f))
        if f is s._fcalls:
            ctr = True
        if f is s._evalmon:
            mon = True
        for c in (getattr(f, "__closure__", None) or ()):
            try:
                stack.append((c.cell_contents, d + 1))
            except ValueError:
                pass
        if isinstance(f, (list, tuple)) and len(f) <= 4:
            for v in f:
                if callable(v):
                    stack.append((v, d + 1))
        w = getattr(f, "__wrapped__", None)
        if w is not None:
            stack.append((w, d + 1))
    return ctr and mon


# ---------------------------------------------------------------- one case
def make_copy(path, B, tmp, i, spec):
    with contextlib.redirect_stdout(_SINK):
        return _make_copy(path, B, tmp, i, spec)


def _make_copy(path, B, tmp, i, spec):
    import dill
    from mystic.solvers import LoadSolver
    form = (spec["seed"] + i) % 3
    if path == "saveload":
        # the three spellings of "save to a restart file, load it": SaveSolver(fn) + LoadSolver(fn); LoadSolver(_state=fn);
        # SaveSolver() with no argument (writes to the file registered by the previous SaveSolver(fn))
        fn = os.path.join(tmp, "sl_%d.pkl" % i)
        B.SaveSolver(fn)
        FORM_HIST["restore-form:saveload:%s" % ("SaveSolver(fn)+LoadSolver(fn)", "LoadSolver(_state=fn)", "SaveSolver()+LoadSolver(fn)")[form]] += 1
        if form == 1:
            return LoadSolver(_state=fn)
        if form == 2:
            os.remove(fn)
            B.SaveSolver()
        return LoadSolver(fn)
    if path == "dill":
        FORM_HIST["restore-form:dill:%s" % ("dumps+loads", "dill.copy")[form % 2]] += 1
        if form % 2:
            return dill.copy(B)
        return dill.loads(dill.dumps(B))
    if path == "deepcopy":
        return copy.deepcopy(B)
    raise ValueError(path)


def copy_cost_args(spec, c):
    mode = spec["mode"]
    if mode == "none":
        return ()
    if mode == "own":
        return (c._cost[1],)
    if mode == "ref":
        return (ref_cost,)
    return (CostFn(spec["cost"]),)       # 'fresh': an equal cost object that "is not" the stored one -> re-decoration


def view(spec):
    v = {k: spec[k] for k in spec if k != "ops"}
    if v.get("cost"):
        v["cost"] = (spec["cost"][0], dsl.expr_sexp(spec["cost"][1]) if spec["cost"][0] == "scalar" else [dsl.expr_sexp(t) for t in spec["cost"][1]])
    if v.get("penalty") is not None:
        v["penalty"] = dsl.expr_sexp(spec["penalty"])
    if v.get("constraints") is not None:
        v["constraints"] = dsl.con_sexp(spec["constraints"])
    return common.jsonable(v)


def modelable(spec):
    if spec.get("penalty_mystic") or spec.get("adaptive"):
        return False
    if spec.get("ranges") and spec["ranges"][3] is False:
        return False
    if spec["cost"][0] == "vector" and not spec.get("reducer"):
        return False
    if spec["solver"] == "NM" and spec["dim"] > 15:
        return False
    return spec["solver"] in ("DE", "DE2", "NM", "Powell")


def run_case(spec, gen, hist, tier):
    """returns (findings, model requests [(line, compare, meta)], nontrivial, sample)"""
    findings = []; requests = []
    H = lambda k: hist.__setitem__(k, hist.get(k, 0) + 1)
    tmp = tempfile.mkdtemp(prefix="c06_")
    rec = Rec()
    n = spec["n"]; solver = spec["solver"]
    kwall = {"callback": callback} if spec.get("callback") else {}
    case0 = {"spec": view(spec), "gen": gen}
    emitted = collections.Counter()
    state = {"continued": 0}

    def F(kind, key, what, **extra):
        emitted[key] += 1
        if emitted[key] > 2:         # a class is reported with its first inputs, not with every cut of the run
            return
        c = dict(case0); c.update(extra)
        findings.append(Finding(kind, key, what, c))

    def term_now(s):
        try:
            return bool(s._termination(s))
        except Exception:
            return False

    def check_copy(path, C, i, SA, MA, first_stop, orig_actor, max_steps=None, lineage=None, inherit_f5=False, nest=None):
        """C was just produced at cut i (the state SA[i]) from `orig_actor`; runs it to the end of the run (or `max_steps`).
        lineage: the restore paths that led to C (a copy of a copy has two); nest=(k, path2): after its k-th Step C is
        itself copied through path2 and that second-generation copy is checked the same way, with C as its original."""
        lineage = lineage or (path,)
        label = "-of-".join(reversed(lineage))
        tag = "%s/%s" % (label, type(C.s).__name__)
        f5_possible = "deepcopy" in lineage
        s0 = snap(C.s)
        C.start_snap = s0; C.history = []; C.term = [term_now(C.s)]; C.in_f5 = inherit_f5; C.child = None
        base_skip = ("saveiter",) if path == "periodic" else ()
        if inherit_f5:
            # a copy of a deep copy that had stopped counting: the frozen counter / evaluation monitor travel with it (F5)
            base_skip = base_skip + COUNT_FIELDS + ("maxfun",)
        pw_periodic = (path == "periodic" and solver == "Powell")
        d0 = diff(SA[i], s0, base_skip + (LIMIT_FIELDS if path == "periodic" else ()))
        if d0:
            if pw_periodic:
                F("monitor", KEY_PW_DIVERGE, "the periodic restart file written during Step %d does not hold the state after that Step: %s differ" % (i + 1, d0),
                  path=path, cut=i, fields=d0, detail=excerpt(SA[i], s0, d0))
                # inside the known class, what IS true of the mid-iteration dump: its monitors are prefixes of the run's
                if i >= 2 and s0["stepmon_x"] != SA[i]["stepmon_x"]:
                    F("monitor", "periodic/PowellDirectionalSolver/dump/step-monitor-not-that-of-the-run", "cut %d: step monitor inside the periodic dump differs from the run's" % i, path=path, cut=i)
                if s0["evalmon_x"] is not None and SA[i]["evalmon_x"] is not None:
                    if s0["evalmon_x"][1] != SA[i]["evalmon_x"][1][:len(s0["evalmon_x"][1])] or s0["evaluations"] != s0["evalmon_x"][0][0]:
                        F("monitor", "periodic/PowellDirectionalSolver/dump/evaluation-monitor-not-a-prefix", "cut %d: evaluation monitor / counter inside the periodic dump is not a prefix of the run's" % i, path=path, cut=i)
            else:
                F("monitor", tag + "/restored-state-differs", "cut %d: restored solver differs from the original in %s" % (i, d0),
                  path=label, cut=i, fields=d0, detail=excerpt(SA[i], s0, d0))
                return
        orig_before = snap(orig_actor.s)
        in_f5 = inherit_f5
        cont_real = 0

        def original_unmoved(when):
            now = snap(orig_actor.s)
            dd = diff(orig_before, now)
            if dd:
                F("monitor", tag + "/not-independent/original-changed-by-copy", "cut %d: advancing the copy (%s) changed the %s's %s" % (i, when, "original" if len(lineage) == 1 else "parent copy", dd),
                  path=label, cut=i, fields=dd, detail=excerpt(orig_before, now, dd))
            return not dd
        last = n - i if max_steps is None else min(n - i, max_steps + 1)
        for j in range(1, last):
            try:
                r = advance(C, rec, dict(kwall))
            except Exception as exc:
                C.error = exc
                key = KEY_PW_RAISE if pw_periodic else tag + "/resume-raises/%s" % type(exc).__name__
                F("monitor", key, "cut %d: Step %d of the restored solver raised %r" % (i, j, exc), path=label, cut=i, step=j)
                return
            sc = snap(C.s)
            C.history.append((r, sc)); C.term.append(term_now(C.s))
            cont_real += 1 if (r["dstep"] > 0 or r["real"] > 0) else 0
            if j == 1:
                # independence: the copy advanced, the original must not have moved
                if not original_unmoved("first Step"):
                    return
            # each copy counts its own evaluations
            if path == "deepcopy" and j == 1 and len(lineage) == 1 and max_steps is None:
                H("deepcopy:first-step:%s" % ("counts" if r["devals"] == r["real"] else "does-not-count") + (":redecorated" if spec["mode"] == "fresh" else ""))
            counted_ok = (r["devals"] == r["real"])
            mon_ok = (sc["evalmon_x"] is None) or (r["dmon"] == r["real"])
            if not (counted_ok and mon_ok):
                if f5_possible and r["devals"] in (0, r["real"]) and r["dmon"] in (0, r["real"]):
                    in_f5 = True; C.in_f5 = True
                    F("monitor", KEY_F5, "cut %d, Step %d of the deep copy%s: %d real cost calls, evaluations grew by %d, evaluation monitor by %d"
                      % (i, j, "" if len(lineage) == 1 else " (%s)" % label, r["real"], r["devals"], r["dmon"]), path=label, cut=i, step=j)
                else:
                    F("monitor", tag + "/copy-does-not-count-its-own-evaluations", "cut %d, Step %d: %d real cost calls, evaluations grew by %d, evaluation monitor by %d"
                      % (i, j, r["real"], r["devals"], r["dmon"]), path=label, cut=i, step=j)
            # resume == uninterrupted
            skip = base_skip
            if in_f5:
                # strongest true variant inside the class: the trajectory stays exact as long as no stop depends on the counter
                skip = skip + COUNT_FIELDS + ("maxfun",)
                if first_stop is not None and i + j >= first_stop:
                    H("deepcopy-unlinked:compared-until-first-stop")
                    break
            if r["msg"] != MA[i + j] and not pw_periodic:
                F("monitor", tag + "/resume-diverges", "cut %d, Step %d: restored solver returned %r, the uninterrupted run %r" % (i, j, r["msg"], MA[i + j]),
                  path=label, cut=i, step=j)
                return
            dj = diff(SA[i + j], sc, skip)
            if dj:
                if pw_periodic:
                    F("monitor", KEY_PW_DIVERGE, "cut %d: %d Step(s) after restoring the periodic dump the solver differs from the uninterrupted run in %s" % (i, j, dj),
                      path=path, cut=i, step=j, fields=dj)
                else:
                    F("monitor", tag + "/resume-diverges", "cut %d: %d Step(s) after the restore, %s differ from the uninterrupted run" % (i, j, dj),
                      path=label, cut=i, step=j, fields=dj, detail=excerpt(SA[i + j], sc, dj))
                return
            if nest is not None and j == nest[0] and i + j < n - 1 and not pw_periodic:
                # ---------- a copy of the copy: restored again through another path, with C as ITS original
                _random.setstate(C.rs[0]); np.random.set_state(C.rs[1])
                D = None
                try:
                    ds = make_copy(nest[1], C.s, tmp, 5000 + 100 * i + j, spec)
                    D = Actor("%s<%s@%d+%d" % (nest[1], C.name, i, j), ds, None, None)
                except Exception as exc:
                    F("monitor", "%s-of-%s/%s/copy-raises/%s" % (nest[1], label, type(C.s).__name__, type(exc).__name__), "cut %d+%d: %r" % (i, j, exc), path=label, cut=i)
                finally:
                    C.rs = rng_state()
                after_copy = snap(C.s)
                dd = diff(sc, after_copy)
                if dd:
                    F("monitor", "copying-changes-the-original/%s" % type(C.s).__name__, "cut %d+%d (copy of a copy): %s" % (i, j, dd), cut=i, fields=dd)
                if D is not None:
                    D.rs = C.rs; D.cost_args = copy_cost_args(spec, D.s)
                    check_copy(nest[1], D, i + j, SA, MA, first_stop, C, lineage=lineage + (nest[1],), inherit_f5=in_f5)
                    D.final = snap(D.s); C.child = D
                    H("copy-of-copy:%s-of-%s" % (nest[1], label))
                    if not in_f5 and all(p_ in ("saveload", "dill") or solver == "Powell" for p_ in lineage):
                        # the model restarted from the SECOND-generation copy (resume_twice_de / powellS_resume_twice)
                        maybe_model(spec, requests, nest[1], D, i + j, generation=2)
        # the original must not have moved while the copy ran to the end (in-place updates - Powell's direction set,
        # DE's population rows - happen in some Steps only)
        original_unmoved("all its Steps")
        if C.child is not None:
            # ... and the second-generation copy must not have moved while its parent finished the run
            dd = diff(C.child.final, snap(C.child.s))
            if dd:
                F("monitor", "%s/%s/not-independent/copy-changed-by-original" % (C.child.name.split("<")[0] + "-of-" + label, type(C.s).__name__),
                  "cut %d: advancing the parent copy changed the second-generation copy's %s" % (i, dd), path=label, cut=i, fields=dd)
        if cont_real >= 2:
            state["continued"] += 1
        if max_steps is None:
            H("resumed:%s" % label if len(lineage) > 1 else "resumed:%s" % path)

    performed = 0; first_stop = None; SA = []; MA = []
    try:
        with trace.patched(rec):
            # ---------- A: the uninterrupted reference run
            try:
                sA, costA = build(spec, tmp, "A")
                A = Actor("A", sA, rng_state(), (costA,))
                RA = []
                for i in range(n):
                    kw = dict(kwall)
                    if i == 0:
                        kw.update(first_kwds(spec))
                    r = advance(A, rec, kw)
                    SA.append(snap(sA)); MA.append(r["msg"]); RA.append(r)
            except Exception as exc:
                H("reference-run-raised:%s" % type(exc).__name__)
                return findings, requests, 0, None
            performed = sum(1 for r in RA if r["dstep"] > 0 or r["real"] > 0)
            first_stop = next((i for i, m in enumerate(MA) if m), None)
            H("solver:%s" % solver); H("mode:%s" % spec["mode"]); H("evalmon:%s" % spec["evalmon"]); H("stepmon:%s" % spec["stepmon"])
            H("config:%s%s%s" % ("box" if spec.get("ranges") else "nobox", "+cons" if spec.get("constraints") is not None else "",
                                 "+pen" if (spec.get("penalty") is not None) else ""))
            H("cuts:%d" % (n - 1))
            if first_stop is not None:
                H("stop-inside-run:%s" % MA[first_stop].split(" ")[0])
            if any(np.isnan(np.frombuffer(sn["popEnergy"][1], dtype=float)).any() for sn in SA):
                H("nan-run-skipped")
                return findings, requests, 0, None

            # ---------- B: the same run, copied at every boundary through SaveSolver+LoadSolver, dill, deepcopy
            sB, costB = build(spec, tmp, "B")
            B = Actor("B", sB, rng_state(), (costB,))
            introspect_ok = None
            prev = []
            watch = []          # (label, actor, snapshot it must still show, cut): every copy ever made stays alive to the end
            idle = []           # copies that are never advanced while the original finishes its run
            P3 = ("saveload", "dill", "deepcopy")
            rot = spec["seed"] % 9
            for i in range(n):
                kw = dict(kwall)
                if i == 0:
                    kw.update(first_kwds(spec))
                r = advance(B, rec, kw)
                sb = snap(sB)
                dB = diff(SA[i], sb)
                if dB or r["msg"] != MA[i]:
                    if i == 0:
                        H("nondeterministic-run-skipped")
                        return findings, requests, 0, None
                    F("monitor", "saving-perturbs-the-original/%s" % type(sB).__name__, "Step %d of the run that was saved/copied at every boundary differs from the untouched run in %s" % (i + 1, dB),
                      cut=i, fields=dB, detail=excerpt(SA[i], sb, dB))
                    break
                # independence: the original advanced, the copies of the previous cut (finished ones and the idle one)
                # must not have moved
                for path, C, want in prev:
                    dd = diff(want, snap(C.s))
                    if dd:
                        F("monitor", "%s/%s/not-independent/copy-changed-by-original" % (path, type(C.s).__name__), "cut %d: advancing the original changed the copy's %s" % (i - 1, dd),
                          path=path, cut=i - 1, fields=dd)
                prev = []
                if introspect_ok is None:
                    introspect_ok = bool(linked_bits(sB))
                if i == n - 1:
                    break
                made = []; idle_now = None
                ipath = P3[(rot + i) % 3]
                for path in P3 + ("idle:" + ipath,):
                    # saving / copying happens in the original's own random context: a save that drew random numbers
                    # would move the original (and is then seen as a perturbation of the run)
                    _random.setstate(B.rs[0]); np.random.set_state(B.rs[1])
                    try:
                        cs = make_copy(path.split(":")[-1], sB, tmp, i if ":" not in path else 3000 + i, spec)
                    except Exception as exc:
                        F("monitor", "%s/%s/copy-raises/%s" % (path.split(":")[-1], type(sB).__name__, type(exc).__name__), "cut %d: %r" % (i, exc), path=path, cut=i)
                        continue
                    finally:
                        B.rs = rng_state()
                    C = Actor("%s@%d" % (path, i), cs, B.rs, None)
                    C.cost_args = copy_cost_args(spec, cs)
                    if ":" in path:
                        C.cut = i; C.path = ipath; C.start = snap(cs)
                        d0 = diff(sb, C.start)
                        if d0:
                            C = None        # reported by its advanced sibling (restored-state-differs)
                        idle_now = C
                        continue
                    if introspect_ok:
                        H("linked-at-restore:%s:%s" % (path, linked_bits(cs)))
                    made.append((path, C))
                dd = diff(sb, snap(sB))
                if dd:
                    F("monitor", "copying-changes-the-original/%s" % type(sB).__name__, "cut %d: %s" % (i, dd), cut=i, fields=dd)
                # one of the three copies is itself copied once more (a copy of a copy), through a rotating second path
                npath = P3[(rot // 3 + i) % 3]; n2path = P3[(rot + 2 * i + 1) % 3]
                for path, C in made:
                    nest = (1 + (rot + i) % 2, n2path) if path == npath else None
                    check_copy(path, C, i, SA, MA, first_stop, B, nest=nest)
                    C.final = snap(C.s)
                    maybe_model(spec, requests, path, C, i)
                prev = [(path, C, C.final) for path, C in made]
                if idle_now is not None:
                    # the idle copy of this boundary: its siblings ran to the end, it must not have moved
                    dd = diff(idle_now.start, snap(idle_now.s))
                    if dd:
                        F("monitor", "%s/%s/not-independent/idle-copy-changed-by-sibling-copies" % (ipath, type(sB).__name__), "cut %d: advancing other copies of the same solver changed a copy that was never advanced: %s" % (i, dd),
                          path=ipath, cut=i, fields=dd)
                    else:
                        prev.append((ipath, idle_now, idle_now.start)); idle.append(idle_now)
                watch += prev
            # the original has finished its run: every copy ever taken (advanced to the end, or never advanced) must still
            # show the state it had when we last looked
            for path, C, want in watch:
                dd = diff(want, snap(C.s))
                if dd:
                    F("monitor", "%s/%s/not-independent/copy-changed-by-original" % (path, type(C.s).__name__), "copy taken at cut %s: the original's later Steps changed the copy's %s" % (getattr(C, "cut", C.name), dd),
                      path=path, fields=dd)
            H("copies-alive-to-the-end:%d" % min(len(watch), 40))
            # ... and a copy that was never advanced while the original ran to the end still resumes exactly
            for I in idle:
                check_copy(I.path, I, I.cut, SA, MA, first_stop, B, max_steps=1)
                H("idle-copy-resumed-after-the-original-finished:%s" % I.path)

            # ---------- P: the same run with SetSaveFrequency; every dump it writes is restored
            from mystic.solvers import LoadSolver
            fnP = os.path.join(tmp, "periodic.pkl")
            sP, costP = build(spec, tmp, "P", savefile=fnP)
            P = Actor("P", sP, rng_state(), (costP,))
            last = None
            H("savefreq:%d" % spec["savefreq"])
            for i in range(n):
                kw = dict(kwall)
                if i == 0:
                    kw.update(first_kwds(spec))
                r = advance(P, rec, kw)
                sp = snap(sP)
                dP = diff(SA[i], sp, ("saveiter",))
                if dP or r["msg"] != MA[i]:
                    F("monitor", "saving-perturbs-the-original/%s/SetSaveFrequency" % type(sP).__name__, "Step %d of the run with SetSaveFrequency(%d) differs from the untouched run in %s" % (i + 1, spec["savefreq"], dP),
                      cut=i, fields=dP, detail=excerpt(SA[i], sp, dP))
                    break
                if i == n - 1 or not os.path.exists(fnP):
                    continue
                data = open(fnP, "rb").read()
                h = hashlib.sha1(data).digest()
                if h == last:
                    continue
                last = h
                H("periodic-dump-restored")
                mine = os.path.join(tmp, "periodic_%d.pkl" % i)      # the copy gets its own restart file
                with open(mine, "wb") as f:
                    f.write(data)
                try:
                    with contextlib.redirect_stdout(_SINK):
                        cs = LoadSolver(mine)
                except Exception as exc:
                    F("monitor", "periodic/%s/copy-raises/%s" % (type(sP).__name__, type(exc).__name__), "cut %d: %r" % (i, exc), path="periodic", cut=i)
                    continue
                C = Actor("periodic@%d" % i, cs, P.rs, None)
                C.cost_args = copy_cost_args(spec, cs)
                check_copy("periodic", C, i, SA, MA, first_stop, P)
                maybe_model(spec, requests, "periodic", C, i)
                if (solver == "Powell" and i >= 2 and not r["msg"] and modelable(spec) and getattr(C, "start_snap", None)
                        and diff(SA[i], C.start_snap, ("saveiter",) + LIMIT_FIELDS)):
                    # the dump itself: what `__save_state()` pickled in the MIDDLE of this Step must be the model's `midDump`
                    # of the state the Step started from (F32 tied to the code, not only witnessed in the model)
                    line, cmp = pw_dump_request(spec, SA[i - 1], r, C.start_snap)
                    if line:
                        requests.append((line, cmp, {"spec": view(spec), "path": "periodic", "cut": i, "which": "pw-dump"}))

            # ---------- S: original and copies are both run to termination with Solve() after the same new limit
            m = spec.get("solve_cut", 0) % max(n - 1, 1)
            extra_g = spec.get("solve_extra", 3)
            sS, costS = build(spec, tmp, "S")
            S = Actor("S", sS, rng_state(), (costS,))
            okS = True
            for i in range(m + 1):
                kw = dict(kwall)
                if i == 0:
                    kw.update(first_kwds(spec))
                r = advance(S, rec, kw)
                if diff(SA[i], snap(sS)) or r["msg"] != MA[i]:
                    okS = False
                    break
            if okS:
                group = []
                for path in ("saveload", "dill", "deepcopy"):
                    _random.setstate(S.rs[0]); np.random.set_state(S.rs[1])
                    try:
                        cs = make_copy(path, sS, tmp, 1000 + m, spec)
                    except Exception as exc:
                        continue          # reported by stage B
                    finally:
                        S.rs = rng_state()
                    C = Actor("solve:%s@%d" % (path, m), cs, S.rs, None)
                    C.cost_args = copy_cost_args(spec, cs)
                    group.append((path, C))

                def solve(a):
                    _random.setstate(a.rs[0]); np.random.set_state(a.rs[1])
                    ACTOR[0] = a.name
                    c0 = CALLS[(a.name, "cost")]; e0 = int(a.s.evaluations); m0 = len(a.s._evalmon)
                    a.s.SetEvaluationLimits(generations=int(a.s.generations) + extra_g)
                    with contextlib.redirect_stdout(_SINK):
                        a.s.Solve(*a.cost_args, **kwall)
                    a.rs = rng_state(); ACTOR[0] = "-"
                    return CALLS[(a.name, "cost")] - c0, int(a.s.evaluations) - e0, len(a.s._evalmon) - m0
                try:
                    solve(S)
                    ref = snap(sS)
                except Exception as exc:
                    H("solve-stage:reference-raised:%s" % type(exc).__name__)
                    group = []
                for path, C in group:
                    tag = "%s/%s" % (path, type(C.s).__name__)
                    try:
                        real, dev, dmon = solve(C)
                    except Exception as exc:
                        F("monitor", tag + "/solve-after-restore-raises/%s" % type(exc).__name__, "cut %d: Solve() of the restored solver raised %r" % (m, exc), path=path, cut=m)
                        continue
                    sc = snap(C.s)
                    skip = ()
                    if not (dev == real and (sc["evalmon_x"] is None or dmon == real)):
                        if path == "deepcopy" and dev in (0, real) and dmon in (0, real):
                            skip = COUNT_FIELDS + ("maxfun",)
                            F("monitor", KEY_F5, "cut %d, Solve() of the deep copy: %d real cost calls, evaluations grew by %d, evaluation monitor by %d" % (m, real, dev, dmon), path=path, cut=m)
                        else:
                            F("monitor", tag + "/copy-does-not-count-its-own-evaluations", "cut %d, Solve(): %d real cost calls, evaluations grew by %d, evaluation monitor by %d" % (m, real, dev, dmon), path=path, cut=m)
                    if skip and isinstance(ref["maxfun"], int) and ref["evaluations"] >= ref["maxfun"]:
                        H("deepcopy-unlinked:solve-stopped-by-the-counter:not-compared")
                        continue
                    dj = diff(ref, sc, skip)
                    if dj:
                        F("monitor", tag + "/solve-after-restore-diverges", "cut %d: after SetEvaluationLimits(generations=+%d) and Solve() on both, %s differ" % (m, extra_g, dj),
                          path=path, cut=m, fields=dj, detail=excerpt(ref, sc, dj))
                    H("solved:%s" % path)

            # ---------- D: Powell's direction set is an array updated IN PLACE: objects that share it / own it
            if solver == "Powell" and modelable(spec):
                rq = pw_share_stage(spec, tmp, rec, kwall, SA, MA, H)
                if rq:
                    requests.append(rq)

            # ---------- K: the shallow copy protocol in the Step()-driven run
            shallow_stage(spec, tmp, rec, kwall, SA, MA, F, H, chain=1)
            shallow_stage(spec, tmp, rec, kwall, SA, MA, F, H, chain=0)

            # ---------- W / X: the run as ONE Solve(cost, termination, ExtraArgs, **keywords) call, interrupted from inside
            solve_stage(spec, tmp, tier, F, H)
    finally:
        shutil.rmtree(tmp, ignore_errors=True)
    for key, cnt in emitted.items():
        H("finding:%s" % key)
    nontrivial = 1 if (performed >= 3 and state["continued"] >= 1) else 0
    sample = {"spec": view(spec), "n_steps": n, "iterations_performed": performed, "first_stop": MA[first_stop] if first_stop is not None else None,
              "copies_that_performed_2+_iterations": state["continued"], "final_bestEnergy": unarr(SA[-1]["bestEnergy"])}
    return findings, requests, nontrivial, sample


# ---------------------------------------------------------------- stages W / X: the run is ONE Solve() call
KEY_OWN = "solve-run/%s/own-strategy-function/name-not-in-mystic.strategy/bare-resume-falls-back-to-Best1Bin"     # % solver type (F56)


class Crash(Exception):
    """raised by the harness callback: the process 'dies' at the end of a generation"""


class WRec(object):
    """the callback handed to Solve(): called at the end of every `_Step` (after the step record and the periodic dump,
    before `Step` looks at the stop conditions); records the random state and the solver's state, lets `hook` take
    checkpoints, and may kill the run"""

    def __init__(self, s, hook=None, crash_at=None):
        self.s = s; self.snaps = []; self.rs = []; self.hook = hook; self.crash_at = crash_at

    def __call__(self, xk):
        g = len(self.snaps)
        self.rs.append(rng_state()); self.snaps.append(snap(self.s))
        if self.hook is not None:
            self.hook(g, self.s)
        if self.crash_at is not None and g == self.crash_at:
            raise Crash()


def w_keywords(spec, only=None):
    import mystic.strategy as S
    kw = {}
    for k, v in spec["w"]["kw"].items():
        if only is not None and k not in only:
            continue
        if k == "strategy":
            kw[k] = OWN_STRATEGIES[v] if v in OWN_STRATEGIES else getattr(S, v)
        elif k == "direc":
            kw[k] = [list(r) for r in v]
        else:
            kw[k] = v
    return kw


def w_start(spec, tmp, tag, periodic=False):
    """a configured solver and the arguments of the ONE Solve() call that is its whole run: cost, termination, ExtraArgs
    and keywords (solver-private settings; optionally penalty / constraints / monitors instead of their Set* methods)"""
    w = spec["w"]; n = spec["n"]
    defer = (("penalty", "constraints", "monitors") if w["via_kwds"] else ()) + (("termination",) if w["term_arg"] else ())
    out = {}
    s, cost = build(dict(spec, mode="none"), tmp, tag, savefile=os.path.join(tmp, "w_%s.pkl" % tag) if periodic else None,
                    defer=defer, out=out)
    g, e = spec["limits"] if spec.get("limits") is not None else (None, None)
    s.SetEvaluationLimits(n if g is None else min(g, n), e)       # the run ends after at most n generations
    term = out.pop("termination", None)
    kw = w_keywords(spec); kw.update(out)
    return s, cost, term, (tuple(w["extra"]) if w["extra"] else None), kw


def w_drive(name, s, rs, fn):
    """fn() as actor `name` under the random state rs -> (how it ended, real cost calls, d evaluations, d len(evalmon))"""
    _random.setstate(rs[0]); np.random.set_state(rs[1])
    ACTOR[0] = name
    c0 = CALLS[(name, "cost")]; e0 = int(s.evaluations); m0 = len(s._evalmon)
    end = None
    _SINK.seek(0); _SINK.truncate()
    try:
        with contextlib.redirect_stdout(_SINK):
            fn()
    except Crash:
        end = "crash"
    except Runaway:
        end = "runaway"
    finally:
        ACTOR[0] = "-"; CALL_LIMIT[0] = None
    return end, CALLS[(name, "cost")] - c0, int(s.evaluations) - e0, len(s._evalmon) - m0


def unrecorded(spec, s):
    """which of the solver-private keywords given to Solve() the solver `s` does not show in its fields"""
    out = []
    for k, v in spec["w"]["kw"].items():
        if k == "strategy":
            name = OWN_STRATEGIES[v].__name__ if v in OWN_STRATEGIES else v
            if getattr(s, "strategy", None) != name:
                out.append(k)
        elif k == "CrossProbability":
            if s.probability != v:
                out.append(k)
        elif k == "ScalingFactor":
            if s.scale != v:
                out.append(k)
        elif k in ("radius", "adaptive", "xtol", "imax"):
            if getattr(s, k, None) != v:
                out.append(k)
    return out


def w_check(spec, label, c, g, U, finalU, realU, rs, mode, F, H, kws=None, known_key=None, pskip=()):
    """c was restored from a checkpoint taken at the end of generation g of the Solve()-driven run U; it is continued to
    termination under the saved random state - mode 0: Solve(), 1: Solve(callback=recorder), 2: a loop over Step() - with
    NO settings given again (kws: the one keyword re-passed inside a known-finding class) and must reproduce U"""
    tag = "solve-run/%s/%s" % (label, type(c).__name__)
    s0 = snap(c)
    d0 = diff(U.snaps[g], s0, pskip)
    if d0:
        F("monitor", tag + "/restored-state-differs", "generation %d of a Solve()-driven run: the restored solver differs from the interrupted one in %s" % (g, d0),
          path=label, cut=g, fields=d0, detail=excerpt(U.snaps[g], s0, d0))
        return False
    missing = unrecorded(spec, c)
    name = "W:%s@%d" % (label, g)
    kws = kws or {}
    steps = []
    cb = WRec(c)
    if mode == 0:
        fn = lambda: c.Solve(**kws)
    elif mode == 1:
        fn = lambda: c.Solve(callback=cb, **kws)
    else:
        def fn():
            for _ in range(len(U.snaps) + 4):
                msg = c.Step(**kws)
                steps.append((snap(c), msg))
                if msg:
                    break
    CALL_LIMIT[0] = CALLS[(name, "cost")] + 20 * realU + 2000
    try:
        end, real, dev, dmon = w_drive(name, c, rs, fn)
    except Exception as exc:
        F("monitor", tag + "/resume-raises/%s" % type(exc).__name__, "generation %d: continuing the restored solver raised %r" % (g, exc), path=label, cut=g, mode=mode)
        return False
    sc = snap(c)
    skip = pskip
    how = ("Solve()", "Solve(callback=..)", "a loop over Step()")[mode]
    if not (dev == real and (sc["evalmon_x"] is None or dmon == real)):
        if "deepcopy" in label and dev in (0, real) and dmon in (0, real):
            F("monitor", KEY_F5, "generation %d of a Solve()-driven run, %s of the deep copy: %d real cost calls, evaluations grew by %d, evaluation monitor by %d" % (g, how, real, dev, dmon), path=label, cut=g)
            skip = pskip + COUNT_FIELDS + ("maxfun",)
            if isinstance(finalU["maxfun"], int) and finalU["evaluations"] >= finalU["maxfun"]:
                H("deepcopy-unlinked:solve-run-stopped-by-the-counter:not-compared")
                return True
        else:
            F("monitor", tag + "/copy-does-not-count-its-own-evaluations", "generation %d, %s: %d real cost calls, evaluations grew by %d, evaluation monitor by %d"
              % (g, how, real, dev, dmon), path=label, cut=g, mode=mode)
    suffix = "/keywords-of-Solve-not-in-the-restart-file:" + "+".join(missing) if missing else ""
    key = known_key or (tag + "/resumed-run-diverges" + suffix)
    given = {k: v for k, v in spec["w"]["kw"].items() if k != "direc"}
    if end == "runaway" or (mode == 2 and not (steps and steps[-1][1])):
        F("monitor", known_key or (tag + "/resumed-run-does-not-stop" + suffix), "generation %d: the restored solver continued by %s is still running after %d cost calls (the uninterrupted run made %d in all)"
          % (g, how, real, realU), path=label, cut=g, mode=mode, keywords=given)
        return False
    seq = cb.snaps if mode == 1 else [sn for sn, msg in steps if not msg]
    for j, sn in enumerate(seq):
        t = g + 1 + j
        if t >= len(U.snaps):
            F("monitor", key, "checkpoint of generation %d, continued by %s: the restored solver performs generation %d, the uninterrupted run ended after generation %d"
              % (g, how, t, len(U.snaps) - 1), path=label, cut=g, mode=mode, keywords=given)
            return False
        dj = diff(U.snaps[t], sn, skip)
        if dj:
            F("monitor", key, "checkpoint of generation %d of Solve(cost%s), continued by %s: at generation %d %s differ from the uninterrupted run"
              % (g, "".join(", %s=.." % k for k in spec["w"]["kw"]), how, t, dj), path=label, cut=g, mode=mode, fields=dj, keywords=given,
              detail=excerpt(U.snaps[t], sn, dj))
            return False
    dj = diff(finalU, sc, skip)
    if dj:
        F("monitor", key, "checkpoint of generation %d of Solve(cost%s), continued by %s to termination: %s differ from the final state of the uninterrupted run"
          % (g, "".join(", %s=.." % k for k in spec["w"]["kw"]), how, dj), path=label, cut=g, mode=mode, fields=dj, keywords=given,
          detail=excerpt(finalU, sc, dj))
        return False
    H("solve-run:resumed:%s:%s" % (label, ("Solve", "Solve+callback", "Step-loop")[mode]))
    return True


def solve_stage(spec, tmp, tier, F, H):
    """W: the uninterrupted run is ONE call Solve(cost, termination, ExtraArgs, **keywords); at the end of EVERY generation
    checkpoints are taken from inside (SaveSolver / dill / copy.deepcopy called by the callback, the periodic dump); each
    boundary's checkpoint is restored and continued to termination WITHOUT giving any setting again.
    X: the Solve() call is killed at one boundary (exception out of the callback); the dead solver object is saved /
    pickled / deep-copied / shallow-copied afterwards and each copy is continued the same way."""
    import dill
    from mystic.solvers import LoadSolver
    w = spec["w"]; solver = spec["solver"]
    own = w["kw"].get("strategy") in OWN_STRATEGIES
    try:
        sU, cost, term, extra, kw = w_start(spec, tmp, "U")
        U = WRec(sU)
        end, realU, _, _ = w_drive("U", sU, rng_state(), lambda: sU.Solve(cost, term, ExtraArgs=extra, callback=U, **kw))
    except Exception as exc:
        H("solve-run:reference-raised:%s" % type(exc).__name__)
        return
    if end:
        H("solve-run:reference-%s" % end)
        return
    finalU = snap(sU); NU = len(U.snaps)
    if any(np.isnan(np.frombuffer(sn["popEnergy"][1], dtype=float)).any() for sn in U.snaps):
        H("solve-run:nan-run-skipped")
        return
    H("solve-run:generations:%s" % (NU if NU < 4 else "4+"))
    for k in sorted(w["kw"]):
        H("solve-run:keyword:%s%s" % (k, (":" + str(w["kw"][k])) if k == "strategy" else ""))
    H("solve-run:ExtraArgs:%s" % (len(extra) if extra else 0)); H("solve-run:settings-via-keywords:%s" % bool(w["via_kwds"]))
    H("solve-run:termination-as-argument:%s" % bool(w["term_arg"] and term is not None)); H("solve-run:periodic:%s" % bool(w["periodic"]))
    if NU < 2:
        return
    # ----- V: the same call, checkpointed from inside at the end of every generation
    ck = {}; last = [None]
    pfile = os.path.join(tmp, "w_V.pkl")

    order_all = ("saveload", "periodic", "dill", "deepcopy")
    mine3 = ("periodic" if w["periodic"] else "saveload", "dill", "deepcopy")
    # every boundary of the call is an interruption point (runs of up to 24 generations; longer ones - thorough tier only -
    # every 2nd / 3rd boundary: the continuations cost O(generations^2)); every checkpoint kind at every boundary in the
    # thorough tier for runs of up to 14 generations, one rotating kind otherwise
    stride = 1 if NU <= 24 else (2 if NU <= 40 else 3)
    every_kind = tier != "quick" and NU <= 14
    H("solve-run:boundaries:%s" % ("every" if stride == 1 else "every-%d" % stride))

    def hook(g, s):
        # quick tier: ONE checkpoint per generation, its kind rotating (a periodic dump exists only at multiples of the save
        # frequency: dill takes its turn otherwise); thorough: every kind at every generation
        d = {}
        fresh_dump = None
        if w["periodic"] and os.path.exists(pfile):       # did THIS generation write the periodic file? (looked at every generation)
            data = open(pfile, "rb").read(); h = hashlib.sha1(data).digest()
            if h != last[0]:
                last[0] = h; fresh_dump = data
        if g % stride:
            ck[g] = d
            return
        todo = list(mine3) if every_kind else [mine3[(w["rot"] + g) % 3]]
        for path in todo:
            try:
                if path == "dill":
                    d[path] = dill.dumps(s)
                elif path == "deepcopy":
                    d[path] = copy.deepcopy(s)
                elif path == "saveload":
                    fn = os.path.join(tmp, "w_sl.pkl")
                    s.SaveSolver(fn)
                    d[path] = open(fn, "rb").read()    # (the solver writes to its registered file again when it stops)
                else:
                    if solver != "Powell" and fresh_dump is not None:   # (Powell's periodic file is a mid-iteration state: F32, stage P)
                        d[path] = fresh_dump
                    elif "dill" not in todo:
                        d["dill"] = dill.dumps(s)
            except Exception as exc:
                F("monitor", "%s/%s/copy-raises/%s" % (path, type(s).__name__, type(exc).__name__), "generation %d, from the callback of Solve(): %r" % (g, exc), path=path, cut=g)
        ck[g] = d
    pskip = ("saveiter",) if w["periodic"] else ()      # (only the checkpointed run V has the periodic dump switched on)
    try:
        sV, cost, term, extra, kw = w_start(spec, tmp, "V", periodic=w["periodic"])
        V = WRec(sV, hook)
        end, _, _, _ = w_drive("V", sV, rng_state(), lambda: sV.Solve(cost, term, ExtraArgs=extra, callback=V, **kw))
    except Exception as exc:
        F("monitor", "saving-perturbs-the-original/%s/inside-Solve/raises-%s" % (type(sU).__name__, type(exc).__name__), "the run checkpointed from its callback raised %r" % (exc,))
        return
    finalV = snap(sV)
    bad = next((g for g in range(min(NU, len(V.snaps))) if diff(U.snaps[g], V.snaps[g], pskip)), None)
    if end or len(V.snaps) != NU or bad is not None or diff(finalU, finalV, pskip):
        dd = diff(U.snaps[bad], V.snaps[bad], pskip) if bad is not None else diff(finalU, finalV, pskip)
        F("monitor", "saving-perturbs-the-original/%s/inside-Solve" % type(sU).__name__, "a Solve() run that is saved / pickled / deep-copied from its callback at every generation differs from the untouched run: %s generations vs %s, first difference at generation %s in %s"
          % (len(V.snaps), NU, bad, dd), fields=dd)
        return
    bare_own_done = False
    for g in range(NU - 1):
        picks = [p_ for p_ in order_all if p_ in ck.get(g, {})]
        for k, path in enumerate(picks):
            payload = ck[g][path]
            try:
                with contextlib.redirect_stdout(_SINK):
                    if path == "dill":
                        c = dill.loads(payload)
                    elif path == "deepcopy":
                        c = payload
                    else:
                        mine = os.path.join(tmp, "w_%s_%d.pkl" % (path, g))
                        with open(mine, "wb") as f:
                            f.write(payload)
                        c = LoadSolver(mine)
            except Exception as exc:
                F("monitor", "%s/%s/copy-raises/%s" % (path, type(sU).__name__, type(exc).__name__), "generation %d of a Solve()-driven run: restoring raised %r" % (g, exc), path=path, cut=g)
                continue
            mode = (w["mode"] + g + k) % 3
            if own:
                # inside the known class F56 the strongest true statement: with the SAME function handed over again the
                # resumed run is exact; the bare continuation is tried once per case and reported under the known key
                if not bare_own_done and path != "deepcopy" and c.strategy == OWN_STRATEGIES[w["kw"]["strategy"]].__name__:
                    bare_own_done = True
                    ok = w_check(spec, path, dill.loads(dill.dumps(c)), g, U, finalU, realU, V.rs[g], mode, F, H, known_key=KEY_OWN % type(c).__name__, pskip=pskip)
                    H("solve-run:own-strategy:bare-resume-%s" % ("agrees" if ok else "differs"))
                w_check(spec, path + ":strategy-given-again", c, g, U, finalU, realU, V.rs[g], mode, F, H, kws=w_keywords(spec, only=("strategy",)), pskip=pskip)
            else:
                w_check(spec, path, c, g, U, finalU, realU, V.rs[g], mode, F, H, pskip=pskip)
    # ----- X: the call is killed at one boundary; the dead solver object is copied afterwards
    m = spec["solve_cut"] % (NU - 1)
    try:
        sX, cost, term, extra, kw = w_start(spec, tmp, "X")
        X = WRec(sX, crash_at=m)
        end, _, _, _ = w_drive("X", sX, rng_state(), lambda: sX.Solve(cost, term, ExtraArgs=extra, callback=X, **kw))
    except Exception as exc:
        H("solve-run:crash-run-raised:%s" % type(exc).__name__)
        return
    at_crash = snap(sX)
    if end != "crash" or diff(U.snaps[m], at_crash):
        H("solve-run:crash-run-differs-from-the-reference")
        return
    rsX = X.rs[m]
    again = w_keywords(spec, only=("strategy",)) if own else None
    sfx = ":strategy-given-again" if own else ""
    for k, path in enumerate(("saveload", "dill", "deepcopy")):
        _random.setstate(rsX[0]); np.random.set_state(rsX[1])
        try:
            c = make_copy(path, sX, tmp, 7000 + m, spec)
        except Exception as exc:
            F("monitor", "%s/%s/copy-raises/%s" % (path, type(sX).__name__, type(exc).__name__), "after a Solve() call died at generation %d: %r" % (m, exc), path=path, cut=m)
            continue
        w_check(spec, "crash+" + path + sfx, c, m, U, finalU, realU, rsX, (w["mode"] + k) % 3, F, H, kws=again)
    dd = diff(at_crash, snap(sX))
    if dd:
        F("monitor", "solve-run/%s/not-independent/original-changed-by-copy" % type(sX).__name__, "continuing the copies of a solver whose Solve() call died at generation %d changed the dead solver's %s" % (m, dd), cut=m, fields=dd)
        return
    # the shallow copy protocol: the copy is continued IN PLACE of the original (which is dropped)
    _random.setstate(rsX[0]); np.random.set_state(rsX[1])
    try:
        c = copy.copy(sX) if spec["seed"] % 2 else sX.__copy__()
    except Exception as exc:
        F("monitor", "copy/%s/copy-raises/%s" % (type(sX).__name__, type(exc).__name__), "after a Solve() call died at generation %d: %r" % (m, exc), path="copy", cut=m)
        return
    X.s = None; del sX
    w_check(spec, "crash+copy" + sfx, c, m, U, finalU, realU, rsX, (w["mode"] + 3) % 3, F, H, kws=again)


# ---------------------------------------------------------------- stages K: copy.copy in a Step()-driven run
def shallow_stage(spec, tmp, rec, kwall, SA, MA, F, H, chain):
    """the run of stage A, but the solver object is replaced by its SHALLOW copy (copy.copy / __copy__; the original is
    dropped) - chain: at every generation boundary (and, for some runs, before the first Step); else: at one boundary.
    The continued copy must be the uninterrupted run, and must count the evaluations it performs."""
    n = spec["n"]
    s, cost = build(spec, tmp, "K%d" % chain)
    K = Actor("K%d" % chain, s, rng_state(), (cost,))
    tag = "copy/%s" % type(s).__name__
    m = spec["copy_cut"] % max(n - 1, 1)
    copied = False

    def take(i):
        _random.setstate(K.rs[0]); np.random.set_state(K.rs[1])
        before = snap(K.s)
        try:
            c = copy.copy(K.s) if (spec["seed"] + i) % 2 else K.s.__copy__()
        except Exception as exc:
            F("monitor", tag + "/copy-raises/%s" % type(exc).__name__, "cut %d: %r" % (i, exc), path="copy", cut=i)
            return False
        finally:
            K.rs = rng_state()
        dd = diff(before, snap(c))
        if dd:
            F("monitor", tag + "/restored-state-differs", "cut %d: the shallow copy differs from the original in %s" % (i, dd), path="copy", cut=i, fields=dd, detail=excerpt(before, snap(c), dd))
            return False
        K.s = c
        if i >= 0:
            K.cost_args = copy_cost_args(spec, c)
        return True
    if chain and spec.get("copy_pre"):
        if not take(-1):
            return
        copied = True; H("shallow-copy:before-the-first-Step")
    for i in range(n):
        kw = dict(kwall)
        if i == 0:
            kw.update(first_kwds(spec))
        try:
            r = advance(K, rec, kw)
        except Exception as exc:
            F("monitor", tag + "/resume-raises/%s" % type(exc).__name__, "Step %d of a run continued through copy.copy raised %r" % (i + 1, exc), path="copy", cut=i)
            return
        sk = snap(K.s)
        if copied and not (r["devals"] == r["real"] and (sk["evalmon_x"] is None or r["dmon"] == r["real"])):
            F("monitor", tag + "/copy-does-not-count-its-own-evaluations", "Step %d, made by a shallow copy of the solver: %d real cost calls, evaluations grew by %d, evaluation monitor by %d"
              % (i + 1, r["real"], r["devals"], r["dmon"]), path="copy", cut=i, chain=bool(chain))
        dj = diff(SA[i], sk)
        if dj or r["msg"] != MA[i]:
            if not copied:
                H("shallow-copy:run-differs-before-any-copy")
                return
            F("monitor", tag + "/resume-diverges", "Step %d of the run continued through copy.copy (%s): %s differ from the uninterrupted run%s"
              % (i + 1, "a copy at every boundary" if chain else "one copy, after Step %d" % (m + 1), dj, "" if r["msg"] == MA[i] else "; returned %r, uninterrupted %r" % (r["msg"], MA[i])),
              path="copy", cut=i, fields=dj, detail=excerpt(SA[i], sk, dj), chain=bool(chain))
            return
        if i == n - 1:
            break
        if chain or i == m:
            if not take(i):
                return
            copied = True
    H("shallow-copy:%s" % ("copied-at-every-boundary" if chain else "copied-at-one-boundary"))


# ---------------------------------------------------------------- Lean correspondence: the model restarted from the restored solver's snapshot
def maybe_model(spec, requests, path, C, i, generation=1):
    """model S restarted from the snapshot read off the restored real solver must reproduce its continuation"""
    if not getattr(C, "history", None) or C.error:
        return
    solver = spec["solver"]
    if path not in ("saveload", "periodic", "dill") and not (path == "deepcopy" and solver == "Powell"):
        return
    hist = C.history
    # only iterations that really ran, up to and including the first stop
    steps = []
    for r, sc in hist:
        if r["dstep"] <= 0 and not (solver == "Powell" and r["real"] > 0):
            break               # (Powell's generation 1 writes no step record)
        steps.append((r, sc))
        if r["msg"]:
            break
    if not steps:
        return
    steps = steps[:12]          # the request carries every trial vector of the continuation: bounded per request
    start = C.start_snap if hasattr(C, "start_snap") else None
    if start is None:
        return
    if not start["live"] and spec.get("ranges"):
        # a restart file written after a stop: the next Step re-decorates the objective first, which under strict
        # ranges is not neutral (F20: Nelder-Mead rebuilds its simplex; DE re-clips). Original and copy do the same
        # (the monitor compares them); the model has no re-decoration and is not asked
        return
    meta = {"spec": view(spec), "path": path, "cut": i}
    if generation > 1:
        meta["copy_generation"] = generation
    # --- control loop
    line, cmp = ctl_request(spec, start, C, hist)
    if line:
        requests.append((line, cmp, dict(meta, which="ctl-resume")))
    if not modelable(spec) or spec["mode"] == "fresh":
        return
    setup = solvermodel.setup_sexp(spec)
    if solver in ("DE", "DE2"):
        npop = len(unarr(start["population"]))
        if any(len(r["trials"]) != npop for r, _ in steps):
            return
        line = "C06 de-resume %s (pop %s) (popE %s) (best %s) (bestE %s) (nlog 0) (nstep %d) (trials (%s)) (two %s)" % (
            setup, fll(unarr(start["population"])), fl(unarr(start["popEnergy"])), fl(unarr(start["bestSolution"])),
            f2b(unarr(start["bestEnergy"])), len(unarr(start["stepmon_y"])), " ".join(fll(r["trials"]) for r, _ in steps),
            "true" if solver == "DE2" else "false")

        def compare(reply, steps=steps):
            st, rr = solvermodel.parse_steps(reply)
            if st is None or len(st) != len(steps):
                return [("%s/de-resume/model-reply" % solver, "model replied %r" % (reply[:200],))]
            calls = 0
            for k, (m, (r, sc)) in enumerate(zip(st, steps)):
                calls += r["real"]
                dd = []
                mp = [solvermodel.fvec(p) for p in m["pop"]]; ip = unarr(sc["population"])
                if len(mp) != len(ip) or not all(same_vec(a, b) for a, b in zip(mp, ip)):
                    dd.append("population")
                if not same_vec(solvermodel.fvec(m["popE"]), unarr(sc["popEnergy"])):
                    dd.append("popEnergy")
                if not same_vec(solvermodel.fvec(m["best"]), unarr(sc["bestSolution"])):
                    dd.append("bestSolution")
                if not same_float(b2f(m["bestE"]), unarr(sc["bestEnergy"])):
                    dd.append("bestEnergy")
                if int(m["nlog"]) != calls:
                    dd.append("cost calls model=%s impl=%d" % (m["nlog"], calls))
                if dd:
                    return [("%s/de-resume/diverges" % solver, "model restarted from the restored solver's snapshot differs from the real continuation at step %d: %s" % (k + 1, "; ".join(dd)))]
            return []
        requests.append((line, compare, dict(meta, which="de-resume")))
    elif solver == "NM":
        mut = bool(spec.get("inplace")) and spec.get("constraints") is not None and not spec.get("ranges")
        line = "C06 nm-resume %s (sim %s) (fsim %s) (nlog 0) (nstep %d) (steps %d) (radius %s) (inplace %s)" % (
            setup, fll(unarr(start["population"])), fl(unarr(start["popEnergy"])), len(unarr(start["stepmon_y"])), len(steps),
            f2b(spec.get("radius", 0.05) if spec.get("kw_first") else 0.05), "true" if mut else "false")

        def compare(reply, steps=steps):
            st, rr = solvermodel.parse_steps(reply)
            if st is None or len(st) != len(steps):
                return [("NM/nm-resume/model-reply", "model replied %r" % (reply[:200],))]
            calls = 0
            for k, (m, (r, sc)) in enumerate(zip(st, steps)):
                calls += r["real"]
                fs = unarr(sc["popEnergy"])
                if len(set(fs)) < len(fs):
                    return []          # equal energies: numpy.argsort's tie order is unspecified
                dd = []
                msim = [solvermodel.fvec(p) for p in m["sim"]]
                if not (len(msim) == len(unarr(sc["population"])) and all(same_vec(a, b) for a, b in zip(msim, unarr(sc["population"])))):
                    dd.append("simplex")
                if not same_vec(solvermodel.fvec(m["fsim"]), fs):
                    dd.append("energies")
                if int(m["nlog"]) != calls:
                    dd.append("cost calls model=%s impl=%d" % (m["nlog"], calls))
                if dd:
                    return [("NM/nm-resume/diverges", "model restarted from the restored solver's snapshot differs from the real continuation at step %d (model branch %s): %s" % (k + 1, m.get("branch"), "; ".join(dd)))]
            return []
        requests.append((line, compare, dict(meta, which="nm-resume")))
    elif solver == "Powell":
        # (a deep copy that has stopped counting - F5 - does not log into its evaluation monitor either: the records
        # the model appends are then compared by their number only)
        counted = all(r["dmon"] == r["real"] for r, _ in steps)
        line, compare = pw_resume_request(spec, setup, start, steps, check_log=counted)
        if line:
            requests.append((line, compare, dict(meta, which="pw-resume" + (":from-mid-iteration-dump" if path == "periodic" else ":after-deepcopy" if path == "deepcopy" else ""))))


# ---------------------------------------------------------------- Powell-in-S restarted from the restored solver's PwSnap
def ls_sexp(lsrec):
    """one recorded `_linesearch_powell` call -> the oracle record of Model/PowellS.lean (None: the returned point is
    none of the evaluated ones)"""
    p, xi, fret, xn, xin, pts = lsrec
    idx = next((j for j, (z, v) in enumerate(pts) if same_vec(z, xn)), None)
    if idx is None:
        return None
    return "((pre (%s)) (y %s) (post (%s)) (xi %s))" % (" ".join(fl(z) for z, _ in pts[:idx]), fl(xn),
                                                        " ".join(fl(z) for z, _ in pts[idx + 1:]), fl(xin))


def pw_state_sexp(sn):
    """the PwSnap (Model/PowellResume.lean) read off a real PowellDirectionalSolver's snapshot `sn` (None: not a state
    `_Step` can start from, e.g. `_direc is None`)"""
    if sn.get("direc") is None or sn["direc"][0] == "repr":
        return None
    pop = unarr(sn["population"]); popE = unarr(sn["popEnergy"])
    it = sn["internals"]
    x1 = unarr(it[0]); fx = unarr(it[1]); delta = unarr(it[3])
    sx = unarr(sn["stepmon_x"]); sy = unarr(sn["stepmon_y"]); eh = unarr(sn["energy_history"])
    if not isinstance(fx, float) or not isinstance(delta, float) or not sx or len(eh) not in (len(sy), len(sy) + 1):
        return None
    if any(not isinstance(y, float) for y in sy):
        return None
    nlog = 0 if sn["evalmon_x"] is None else sn["evalmon_x"][0][0]
    return "(x %s) (fval %s) (x1 %s) (fx %s) (bigind %d) (delta %s) (direc %s) (nlog %d) (steplog (%s)) (pending %s)" % (
        fl(pop[0]), f2b(popE[0]), fl(x1), f2b(fx), it[2], f2b(delta), fll(unarr(sn["direc"])), nlog,
        " ".join("(%s %s)" % (fl(x), f2b(y)) for x, y in zip(sx, sy)), "true" if len(eh) == len(sy) + 1 else "false")


def pw_fields(tokens):
    toks = list(tokens)
    return {toks[i]: toks[i + 1] for i in range(0, len(toks) - 1, 2)}


def pw_state_diffs(m, sc, compare_internals=True):
    """model state `m` (showPwFull) against the real solver's snapshot `sc`: the fields `_Step` itself writes"""
    dd = []
    if not same_vec(solvermodel.fvec(m["x"]), unarr(sc["population"])[0]):
        dd.append("population[0] model=%r impl=%r" % (solvermodel.fvec(m["x"]), unarr(sc["population"])[0]))
    if not same_float(b2f(m["fval"]), unarr(sc["popEnergy"])[0]):
        dd.append("popEnergy[0] model=%r impl=%r" % (b2f(m["fval"]), unarr(sc["popEnergy"])[0]))
    it = sc["internals"]
    if compare_internals:
        if not same_vec(solvermodel.fvec(m["x1"]), unarr(it[0])):
            dd.append("__internals x1 model=%r impl=%r" % (solvermodel.fvec(m["x1"]), unarr(it[0])))
        if not same_float(b2f(m["fx"]), unarr(it[1])):
            dd.append("__internals fx model=%r impl=%r" % (b2f(m["fx"]), unarr(it[1])))
        if int(m["bigind"]) != it[2]:
            dd.append("__internals bigind model=%s impl=%d" % (m["bigind"], it[2]))
        if not same_float(b2f(m["delta"]), unarr(it[3])):
            dd.append("__internals delta model=%r impl=%r" % (b2f(m["delta"]), unarr(it[3])))
    md = [solvermodel.fvec(r) for r in m["direc"]]; idr = unarr(sc["direc"]) if sc.get("direc") is not None else None
    if idr is None or len(md) != len(idr) or not all(same_vec(a, b) for a, b in zip(md, idr)):
        dd.append("_direc model=%r impl=%r" % (md, idr))
    return dd


def evalmon_checksum(sc, n0, scalar):
    """checksum of the evaluation-monitor records after the first n0 (None: not comparable)"""
    if not scalar or sc["evalmon_x"] is None or sc["evalmon_x"][0] == "repr" or sc["evalmon_y"][0] == "repr":
        return None
    xs = unarr(sc["evalmon_x"]); ys = unarr(sc["evalmon_y"])
    if len(xs) != len(ys) or any(not isinstance(y, float) for y in ys):
        return None
    return solvermodel.log_checksum(list(zip(xs, ys))[n0:])


def pw_resume_request(spec, setup, start, steps, check_log=True):
    """`PowellS.stepAt` iterated from the PwSnap read off the RESTORED real PowellDirectionalSolver, against the
    recording of the line searches the restored solver itself made: everything `_Step` computes besides Brent -
    the generation dispatch, constraints, box test, cost, penalty, delta / bigind bookkeeping, extrapolation test,
    in-place direction replacement, __internals, step records, deferred energy, evaluation log - is recomputed from
    the snapshot alone and compared bit for bit after every Step"""
    st = pw_state_sexp(start)
    if st is None:
        return None, None
    recs = []; lss = []
    for r, _ in steps:
        for l in r["ls"]:
            sx = ls_sexp(l)
            if sx is None:
                return None, None       # C01's line-search contract check reports this
            recs.append(sx); lss.append(l)
    line = "C06 pw-resume %s %s (steps %d) (ls (%s))" % (setup, st, len(steps), " ".join(recs))
    scalar = spec["cost"][0] == "scalar"
    n0 = 0 if start["evalmon_x"] is None else start["evalmon_x"][0][0]

    def compare(reply, steps=steps):
        r = parse_reply(reply)
        if r[0] != "ok" or len(r[1]["steps"]) != len(steps):
            return [("Powell/pw-resume/model-reply", "model replied %r" % (reply[:200],))]
        calls = 0; nls = 0
        for k, (mt, (rr, sc)) in enumerate(zip(r[1]["steps"], steps)):
            m = pw_fields(mt)
            calls += rr["real"]; nls += len(rr["ls"])
            dd = pw_state_diffs(m, sc)
            if int(m["nlog"]) - n0 != calls:
                dd.append("cost calls model=%d impl=%d" % (int(m["nlog"]) - n0, calls))
            if int(m["nls"]) != nls:
                dd.append("line searches model=%s impl=%d" % (m["nls"], nls))
            if not rr["msg"]:
                # (a Step that detects the stop ends in Finalize, which appends a record of its own: control loop, C05)
                ns = len(unarr(sc["stepmon_y"])); pend = len(unarr(sc["energy_history"])) == ns + 1
                if int(m["nstep"]) != ns:
                    dd.append("step records model=%s impl=%d" % (m["nstep"], ns))
                if (m["pending"] == "true") != pend:
                    dd.append("deferred energy model=%s impl=%s" % (m["pending"], pend))
                if int(m["gens"]) != sc["generations"]:
                    dd.append("generations model=%s impl=%d" % (m["gens"], sc["generations"]))
            want = evalmon_checksum(sc, n0, scalar) if check_log else None
            if want is not None and int(m["logsum"]) != want:
                dd.append("the (x, cost x) records the model appends to the evaluation monitor differ from the real ones")
            if dd:
                return [("Powell/pw-resume/diverges", "Powell model restarted from the restored solver's snapshot differs from the real continuation at Step %d: %s" % (k + 1, "; ".join(dd)[:900]))]
        reqs = r[1]["reqs"]
        if len(reqs) != len(lss) or not all(same_vec(solvermodel.fvec(q[0]), l[0]) and same_vec(solvermodel.fvec(q[1]), l[1]) for q, l in zip(reqs, lss)):
            bad = next((j for j, (q, l) in enumerate(zip(reqs, lss)) if not (same_vec(solvermodel.fvec(q[0]), l[0]) and same_vec(solvermodel.fvec(q[1]), l[1]))), min(len(reqs), len(lss)))
            return [("Powell/pw-resume/linesearch-requests-diverge", "model requested %d searches, the restored solver %d; first difference at #%d" % (len(reqs), len(lss), bad))]
        last_r, last = steps[-1]
        sl = r[1]["steplog"]; ix = unarr(last["stepmon_x"]); iy = unarr(last["stepmon_y"])
        nrec = len(iy)
        if last_r["msg"] and nrec == len(sl) + 1:
            nrec = len(sl)              # Finalize's record
        if len(sl) != nrec or not all(same_vec(solvermodel.fvec(a[0]), x) and same_float(b2f(a[1]), y) for a, x, y in zip(sl, ix, iy)):
            return [("Powell/pw-resume/step-monitor-diverges", "model step log %r != restored solver's %r" % ([(solvermodel.fvec(a[0]), b2f(a[1])) for a in sl][-3:], list(zip(ix, iy))[-3:]))]
        if not last_r["msg"] and not same_vec(solvermodel.fvec(r[1]["hist"]), unarr(last["energy_history"])):
            return [("Powell/pw-resume/energy-history-diverges", "model %r != restored solver's %r" % (solvermodel.fvec(r[1]["hist"])[-4:], unarr(last["energy_history"])[-4:]))]
        return []
    return line, compare


def pw_share_stage(spec, tmp, rec, kwall, SA, MA, H):
    """three real PowellDirectionalSolver objects - the run R (object 0), a pickled copy that is GIVEN R's `_direc` array
    (object 1: what a copy protocol that forgot the array would produce) and a deep copy that owns its array (object 2)
    - are stepped in a generated order; after every op the state each object shows is compared with the pointer model
    `PowellS.stepObj` / `deepCopyObj`.  VERDICT: objects 0 and 2 only (observable behaviour of legitimate copies).
    Object 1 exists only through harness-made aliasing; whether the array is updated in place or replaced is an
    internal of `_Step`, so its agreement with `shallowCopyObj` is COUNTED in the histogram and never reported."""
    import dill
    n = spec["n"]
    m = 1 + spec["solve_cut"] % max(n - 2, 1)
    if m >= n - 1:
        return None
    sR, costR = build(spec, tmp, "R")
    R = Actor("R", sR, rng_state(), (costR,))
    for i in range(m + 1):
        kw = dict(kwall)
        if i == 0:
            kw.update(first_kwds(spec))
        r = advance(R, rec, kw)
        if diff(SA[i], snap(sR)) or r["msg"] != MA[i]:
            return None
        if r["msg"]:
            return None
    start = snap(sR)
    st = pw_state_sexp(start)
    if st is None or (not start["live"]):
        return None
    with contextlib.redirect_stdout(_SINK):
        c = dill.loads(dill.dumps(sR))
        d = copy.deepcopy(sR) if spec["seed"] % 2 else dill.loads(dill.dumps(sR))
    c._direc = sR._direc
    objs = [R, Actor("R:shares-direc", c, R.rs, ()), Actor("R:owns-direc", d, R.rs, ())]
    ops = ["(shallow 0)", "(deep 0)"]
    obs = [None, [snap(a.s) for a in objs]]
    stopped = set()
    order = _random.Random(spec["seed"] ^ 0x5eed)
    for _ in range(order.randint(3, 6)):
        q = order.randrange(3)
        if q in stopped:
            continue
        try:
            r = advance(objs[q], rec, dict(kwall))
        except Exception:
            return None
        if r["real"] == 0 and r["dstep"] <= 0:
            break
        recs = [ls_sexp(l) for l in r["ls"]]
        if any(x is None for x in recs):
            return None
        if r["msg"]:
            stopped.add(q)
        ops.append("(step %d (%s))" % (q, " ".join(recs)))
        obs.append([snap(a.s) for a in objs])
    if len(ops) < 3:
        return None
    line = "C06 pw-share %s %s (ops (%s))" % (solvermodel.setup_sexp(spec), st, " ".join(ops))
    meta = {"spec": view(spec), "which": "pw-share", "cut": m}

    def compare(reply):
        rr = parse_reply(reply)
        if rr[0] != "ok" or len(rr[1]["states"]) != len(obs):
            return [("Powell/pw-share/model-reply", "model replied %r" % (reply[:200],))]
        done = set()
        meta["shared_object_follows_pointer_model"] = True
        for j, (ms, ob) in enumerate(zip(rr[1]["states"], obs)):
            if ob is None:
                continue
            for q, (mt, sc) in enumerate(zip(ms, ob)):
                m_ = pw_fields(mt)
                dd = pw_state_diffs(m_, sc)
                if q == 1:
                    if dd:
                        meta["shared_object_follows_pointer_model"] = False
                    continue
                if not sc["live"]:
                    done.add(q)          # stopped: Finalize has appended its own record (control loop, C05)
                if q not in done:
                    ns = len(unarr(sc["stepmon_y"]))
                    if int(m_["nstep"]) != ns or (m_["pending"] == "true") != (len(unarr(sc["energy_history"])) == ns + 1):
                        dd.append("step records / deferred energy model=(%s, %s) impl=(%d, %s)" % (m_["nstep"], m_["pending"], ns, len(unarr(sc["energy_history"])) == ns + 1))
                if dd:
                    return [("Powell/pw-share/diverges", "after op %d %s, object %d (0 = the run, 2 = deep copy owning its direction set): %s" % (j, ops[j][:40], q, "; ".join(dd)[:800]))]
        return []
    return line, compare, meta


def pw_share_stats(rep):
    """did a Step of one object change the direction set another object sees (they share the array) / leave it (own array)"""
    out = []
    r = parse_reply(rep)
    if r[0] != "ok":
        return out
    prev = None
    for ms in r[1]["states"]:
        cur = [pw_fields(mt)["direc"] for mt in ms]
        if prev is not None and len(prev) == len(cur) == 3:
            moved = [a != b for a, b in zip(prev, cur)]
            if moved[0] and moved[1] and not moved[2]:
                out.append("pw-share:in-place-replacement-seen-through-the-shared-array")
            elif moved[2] and not moved[0] and not moved[1]:
                out.append("pw-share:replacement-in-the-owned-array-only")
            elif not any(moved):
                out.append("pw-share:step-without-replacement")
            else:
                out.append("pw-share:other")
        prev = cur
    return out


def pw_dump_request(spec, before, r, dump):
    """`PowellS.midDump` of the boundary state `before` (with the line searches of the Step that wrote the file)
    against the state found in the periodic restart file"""
    st = pw_state_sexp(before)
    if st is None or dump.get("direc") is None:
        return None, None
    recs = [ls_sexp(l) for l in r["ls"]]
    if any(x is None for x in recs):
        return None, None
    line = "C06 pw-dump %s %s (ls (%s))" % (solvermodel.setup_sexp(spec), st, " ".join(recs))
    scalar = spec["cost"][0] == "scalar"
    n0 = 0 if before["evalmon_x"] is None else before["evalmon_x"][0][0]

    def compare(reply):
        rr = parse_reply(reply)
        if rr[0] != "ok":
            return [("Powell/pw-dump/model-reply", "model replied %r" % (reply[:200],))]
        m = pw_fields(rr[1]["dump"])
        dd = pw_state_diffs(m, dump)
        ix = unarr(dump["stepmon_x"]); iy = unarr(dump["stepmon_y"]); sl = rr[1]["steplog"]
        if len(sl) != len(iy) or not all(same_vec(solvermodel.fvec(a[0]), x) and same_float(b2f(a[1]), y) for a, x, y in zip(sl, ix, iy)):
            dd.append("step monitor model=%r file=%r" % ([(solvermodel.fvec(a[0]), b2f(a[1])) for a in sl][-2:], list(zip(ix, iy))[-2:]))
        if (m["pending"] == "true") != (len(unarr(dump["energy_history"])) == len(iy) + 1):
            dd.append("deferred energy model=%s" % m["pending"])
        if dump["evalmon_x"] is not None and dump["evalmon_x"][0] != "repr" and int(m["nlog"]) != dump["evalmon_x"][0][0]:
            dd.append("evaluation records model=%s file=%d" % (m["nlog"], dump["evalmon_x"][0][0]))
        want = evalmon_checksum(dump, n0, scalar)
        if want is not None and int(m["logsum"]) != want:
            dd.append("evaluation monitor contents")
        if dd:
            return [("Powell/pw-dump/diverges", "the state in the periodic restart file is not the model's mid-iteration state of the Step that wrote it: %s" % "; ".join(dd)[:900])]
        return []
    return line, compare


def ctl_request(spec, start, C, hist):
    """the control loop of model S restarted from the restored solver's counters / limits / flags"""
    solver = spec["solver"]
    powell = solver == "Powell"
    npop = max(spec["npop"], spec["dim"], 4) if solver in ("DE", "DE2") else 1
    si, se = solvermodel.SCALE[solver]
    N = spec["dim"]
    if not hasattr(C, "term"):
        return None, None
    ops = []; expect = []
    g0 = start["generations"]; e0 = start["evaluations"]; n0 = len(unarr(start["stepmon_y"]))
    pg, pe, pn = g0, e0, n0
    tprev = C.term[0]
    for k, (r, sc) in enumerate(hist):
        if k > 0 and hist[k - 1][0]["msg"]:
            # after a stop the next Step first re-decorates the objective (which, under strict ranges, moves the
            # simplex - F20) BEFORE it tests the stop conditions: the verdict sampled here is not the one Step sees
            break
        tpost = C.term[k + 1]
        ran = r["dstep"] > 0 or r["real"] > 0
        ns = len(unarr(sc["stepmon_y"]))
        dS = max(ns - pn, 0)
        if powell:
            # the records `_Step` itself writes (generation 0 and generations >= 2, scipy_optimize.py l.660 / l.715);
            # the one `Finalize` appends at a stop is the control model's own business
            dS = 1 if (ran and (pn == 0 or pg >= 1)) else 0
        ops.append("(step %s %s %d %d %d)" % ("true" if tprev else "false", "true" if tpost else "false",
                                               max(sc["evaluations"] - pe, 0), max(sc["generations"] - pg, 0), dS))
        expect.append((solvermodel.msg_kind(r["msg"]), ran, sc["generations"], sc["evaluations"], ns, sc["maxiter"], sc["maxfun"], sc["live"]))
        pg, pe, pn = sc["generations"], sc["evaluations"], ns
        tprev = tpost
    if not ops:
        return None, None
    line = "C06 ctl-resume (state %d %d %d %s %s %s %s) (scale %d %d) (powell %s) (ops (%s))" % (
        g0, e0, n0, solvermodel.lim_str(start["maxiter"]), solvermodel.lim_str(start["maxfun"]),
        "true" if start["earlyexit"] else "false", "true" if start["live"] else "false", N * npop * si, N * npop * se,
        "true" if powell else "false", " ".join(ops))

    def compare(reply):
        r = parse_reply(reply)
        if r[0] != "ok":
            return [("%s/ctl-resume/model-reply" % solver, "model replied %r" % (reply[:200],))]
        for j, (m, e) in enumerate(zip(r[1]["ops"], expect)):
            kind, ran, g, ev, ns, mi, mf, live = e
            got = (m[0], m[1] == "true", int(m[2][1:]), int(m[3][1:]), int(m[4][1:]), m[5], m[6], m[7] == "true")
            want = (kind, ran, g, ev, ns, solvermodel.lim_str(mi), solvermodel.lim_str(mf), live)
            if got != want:
                return [("%s/ctl-resume/diverges" % solver, "control loop restarted from the restored solver's counters differs at Step %d: model %r impl %r (op %s)" % (j + 1, got, want, ops[j]))]
        return []
    return line, compare


# ---------------------------------------------------------------- aliasing model vs real solver objects
class AliasCost(object):
    def __call__(self, x):
        CALLS[(ACTOR[0], "cost")] += 1
        return float(x[0]) ** 2 + float(x[1]) ** 2


def alias_case(rng, hist):
    """random decorate / call / pickle / deepcopy sequences on real solvers and on the heap-of-cells model"""
    import dill
    from mystic.solvers import NelderMeadSimplexSolver, PowellDirectionalSolver, DifferentialEvolutionSolver, LoadSolver
    from mystic.monitors import Monitor
    tmp = tempfile.mkdtemp(prefix="c06a_")
    objs = []; ops = []; obs = []
    kind = rng.choice(["NM", "Powell", "DE"])
    x = np.array([0.5, 0.25])
    byref = rng.random() < 0.3
    try:
        def fresh():
            if kind == "NM":
                s = NelderMeadSimplexSolver(2); s.SetInitialPoints([1.0, 2.0])
            elif kind == "Powell":
                s = PowellDirectionalSolver(2); s.SetInitialPoints([1.0, 2.0])
            else:
                s = DifferentialEvolutionSolver(2, 4); s.SetRandomInitialPoints([-1, -1], [1, 1])
            s.SetEvaluationMonitor(Monitor())
            if byref:
                REF_COST[0] = AliasCost()
                s._bootstrap_objective(ref_cost)
            else:
                s._bootstrap_objective(AliasCost())
            return s
        objs.append(fresh()); ops.append("(fresh)")
        probe = linked_bits(objs[0])
        obs.append([(int(s.evaluations), len(s._evalmon), linked_bits(s)) for s in objs])
        for _ in range(rng.randint(3, 10)):
            k = rng.random(); i = rng.randrange(len(objs)); s = objs[i]
            if k < 0.36:
                m = rng.randint(1, 4)
                ACTOR[0] = "alias%d" % i
                c0 = CALLS[(ACTOR[0], "cost")]
                for _ in range(m):
                    s._cost[0](x.copy())
                assert CALLS[(ACTOR[0], "cost")] - c0 == m
                ACTOR[0] = "-"
                ops.append("(call %d %d)" % (i, m))
            elif k < 0.50:
                s._live = False           # what Finalize() leaves behind (Powell's own Finalize also logs a record)
                s._bootstrap_objective()
                ops.append("(decorate %d)" % i)
            elif k < 0.60:
                # the evaluation monitor is replaced in the middle of the run: SetEvaluationMonitor(m, new), m empty or already
                # holding records; from here on the monitor's length and the counter are unrelated numbers, and the
                # objective keeps writing into the OLD monitor until the next re-decoration (Model/CheckpointMon.lean)
                nw = rng.random() < 0.6; pre = rng.choice([0, 0, 0, 2, 9])
                mon = Monitor()
                for t in range(pre):
                    mon([float(t), 0.0], 100.0 + t)
                s.SetEvaluationMonitor(mon, new=nw)
                ops.append("(setmon %d %s %d)" % (i, "true" if nw else "false", pre))
                hist["alias:setmon:new=%s:%s" % (nw, "prefilled" if pre else "empty")] = hist.get("alias:setmon:new=%s:%s" % (nw, "prefilled" if pre else "empty"), 0) + 1
            elif k < 0.80 and len(objs) < 6:
                if rng.random() < 0.5:
                    c = dill.loads(dill.dumps(s))
                else:
                    fn = os.path.join(tmp, "a%d.pkl" % len(ops))
                    s.SaveSolver(fn); c = LoadSolver(fn)
                objs.append(c); ops.append("(pickle %d)" % i)
            elif k < 0.88 and len(objs) < 6:
                # the shallow copy protocol: the copy's attributes ARE the original's objects (counter list, monitor,
                # decorated objective); it is linked iff the original is, and the two count together
                c = copy.copy(s) if rng.random() < 0.5 else s.__copy__()
                objs.append(c); ops.append("(shallow %d)" % i)
                hist["alias:shallow-copy"] = hist.get("alias:shallow-copy", 0) + 1
            elif len(objs) < 6:
                c = copy.deepcopy(s)
                lb = linked_bits(c)
                objs.append(c)
                # the model op is chosen by what the real copy IS (a repaired __deepcopy__ behaves like one pickle);
                # whether the copy then counts is the monitor's business (F5), what happens next must follow the model
                if probe:
                    linked = bool(lb)
                else:
                    e0 = int(c.evaluations); c._cost[0](x.copy()); linked = int(c.evaluations) == e0 + 1
                    ops.append("(deepcopy%s %d)" % ("L" if linked else "U", i)); ops.append("(call %d 1)" % (len(objs) - 1))
                    obs.append(None)
                    obs.append([(int(t.evaluations), len(t._evalmon), linked_bits(t)) for t in objs])
                    hist["alias:deepcopy:%s" % ("linked" if linked else "unlinked")] = hist.get("alias:deepcopy:%s" % ("linked" if linked else "unlinked"), 0) + 1
                    continue
                ops.append("(deepcopy%s %d)" % ("L" if linked else "U", i))
                hist["alias:deepcopy:%s" % ("linked" if linked else "unlinked")] = hist.get("alias:deepcopy:%s" % ("linked" if linked else "unlinked"), 0) + 1
            else:
                continue
            obs.append([(int(t.evaluations), len(t._evalmon), linked_bits(t)) for t in objs])
    finally:
        shutil.rmtree(tmp, ignore_errors=True)
    line = "C06 alias (ops (%s))" % " ".join(ops)

    def compare(reply):
        r = parse_reply(reply)
        if r[0] != "ok":
            return [("alias/model-reply", "model replied %r" % (reply[:200],))]
        for j, (m, o) in enumerate(zip(r[1]["states"], obs)):
            if o is None:
                continue
            got = [(int(t[0]), int(t[1]), t[2] == "true") for t in m]
            for q, (g, w) in enumerate(zip(got, o)):
                if g[:2] != w[:2] or (probe and w[2] is not None and g[2] != bool(w[2])) or len(got) != len(o):
                    return [("alias/%s/diverges" % kind, "after op %d %s object %d: model (evaluations, len(evalmon), linked)=%r, real solver %r  [all ops: %s]" % (j, ops[j], q, g, w, " ".join(ops)))]
        return []
    hist["alias:%s%s" % (kind, ":byref" if byref else "")] = hist.get("alias:%s%s" % (kind, ":byref" if byref else ""), 0) + 1
    if not probe:
        hist["alias:introspection-unavailable"] = hist.get("alias:introspection-unavailable", 0) + 1
    return line, compare, {"which": "alias", "ops": ops}


STICKY_NAMES = ["Best1Bin", "Best1Exp", "Rand1Bin", "Rand1Exp", "RandToBest1Exp", "RandToBest1Bin", "Best2Exp", "Best2Bin", "Rand2Bin", "Rand2Exp"]
STICKY_OWN = [own_strategy_a, own_strategy_b]


def sticky_case(rng, hist):
    """the solver-private settings a solver accepts as keywords of Solve() / Step() (DE: strategy, CrossProbability,
    ScalingFactor; Nelder-Mead: radius, adaptive; Powell: xtol, imax): random sequences of the REAL `_process_inputs` -
    called the way `Step(**kw)` and `Solve(**kw)` call it (Solve: once with the keywords, then once per generation with the
    `settings` dict it got back) -, plain attribute assignments and pickle / copy round trips of the solver, against
    `deStepKw` / `deSolveKw` / `step2Kw` / `solve2Kw` of Model/Checkpoint.lean: the fields after every op and the settings
    every generation of that op would be made with"""
    import dill
    import mystic.strategy as S
    from mystic.solvers import (DifferentialEvolutionSolver, DifferentialEvolutionSolver2, NelderMeadSimplexSolver,
                                PowellDirectionalSolver, LoadSolver)
    kind = rng.choice(["DE", "DE2", "NM", "Powell", "DE"])
    de = kind in ("DE", "DE2")
    tmp = tempfile.mkdtemp(prefix="c06s_")
    nK = len(STICKY_NAMES)

    def sid(name):
        if name in STICKY_NAMES:
            return STICKY_NAMES.index(name)
        own = [f.__name__ for f in STICKY_OWN]
        return nK + own.index(name) if name in own else 10 ** 6

    def sfun(i):
        return getattr(S, STICKY_NAMES[i]) if i < nK else STICKY_OWN[i - nK]
    fa, fb = ("radius", "adaptive") if kind == "NM" else ("xtol", "imax")
    va = [0.05, 0.1, 0.25, 0.5] if kind == "NM" else [1e-4, 1e-3, 1e-2]
    vb = [False, True] if kind == "NM" else [500, 20, 6]
    try:
        if kind == "DE":
            s = DifferentialEvolutionSolver(2, 6)
        elif kind == "DE2":
            s = DifferentialEvolutionSolver2(2, 6)
        elif kind == "NM":
            s = NelderMeadSimplexSolver(2)
        else:
            s = PowellDirectionalSolver(2)
        if de:
            stored = "(stored %d %s %s)" % (sid(s.strategy), f2b(s.probability), f2b(s.scale))
        else:
            stored = "(stored %s %s)" % (f2b(float(getattr(s, fa))), f2b(float(getattr(s, fb))))
        ops = []; obs = []

        def opt(v, enc):
            return "none" if v is None else enc(v)

        def draw_kw():
            if de:
                r = rng.random()
                si = None if r < 0.35 else (nK + rng.randrange(len(STICKY_OWN)) if r < 0.45 else rng.randrange(nK))
                c = rng.choice([None, None, 0.9, 0.5, 0.1, 1.0]); f = rng.choice([None, None, 0.8, 0.5, 0.6])
                kw = {}
                if si is not None:
                    kw["strategy"] = sfun(si)
                if c is not None:
                    kw["CrossProbability"] = c
                if f is not None:
                    kw["ScalingFactor"] = f
                return kw, "%s %s %s" % (opt(si, str), opt(c, f2b), opt(f, f2b))
            a = rng.choice([None] + va); b = rng.choice([None] + vb)
            kw = {}
            if a is not None:
                kw[fa] = a
            if b is not None:
                kw[fb] = b
            return kw, "%s %s" % (opt(a, lambda v: f2b(float(v))), opt(b, lambda v: f2b(float(v))))

        def used(settings):
            if de:
                return (sid(getattr(settings["strategy"], "__name__", "?")), f2b(s.probability), f2b(s.scale))
            return (f2b(float(settings[fa])), f2b(float(settings[fb])))

        def fields():
            if de:
                return (sid(s.strategy), f2b(s.probability), f2b(s.scale))
            return (f2b(float(getattr(s, fa))), f2b(float(getattr(s, fb))))
        for _ in range(rng.randint(3, 9)):
            k = rng.random()
            if k < 0.30:
                kw, sx = draw_kw()
                st = s._process_inputs(dict(kw))                 # what Step(**kw) -> _Step(**kw) does first
                ops.append("(step %s)" % sx); obs.append((fields(), [used(st)]))
            elif k < 0.60:
                kw, sx = draw_kw(); m = rng.randint(0, 3)
                settings = s._process_inputs(dict(kw))           # Solve(**kw): abstract_solver.py l.1169
                u = []
                for _ in range(m):                               # ... then Step(**settings) per generation (l.1131)
                    st = s._process_inputs(dict(settings))
                    u.append(used(st))
                ops.append("(solve %s %d)" % (sx, m)); obs.append((fields(), u))
            elif k < 0.72:
                if de:
                    si = rng.choice([None, rng.randrange(nK)]); c = rng.choice([None, 0.9, 0.3]); f = rng.choice([None, 0.8, 0.7])
                    if si is not None:
                        s.strategy = STICKY_NAMES[si]
                    if c is not None:
                        s.probability = c
                    if f is not None:
                        s.scale = f
                    ops.append("(set %s %s %s)" % (opt(si, str), opt(c, f2b), opt(f, f2b)))
                else:
                    a = rng.choice([None] + va); b = rng.choice([None] + vb)
                    if a is not None:
                        setattr(s, fa, a)
                    if b is not None:
                        setattr(s, fb, b)
                    ops.append("(set %s %s)" % (opt(a, lambda v: f2b(float(v))), opt(b, lambda v: f2b(float(v)))))
                obs.append((fields(), []))
            else:
                how = rng.choice(["dill", "saveload", "deepcopy", "copy"])
                with contextlib.redirect_stdout(_SINK):
                    if how == "dill":
                        s = dill.loads(dill.dumps(s))
                    elif how == "saveload":
                        fn = os.path.join(tmp, "s%d.pkl" % len(ops))
                        s.SaveSolver(fn); s = LoadSolver(fn)
                    elif how == "deepcopy":
                        s = copy.deepcopy(s)
                    else:
                        s = copy.copy(s)
                ops.append("(pickle)"); obs.append((fields(), []))
                hist["sticky:restore:%s" % how] = hist.get("sticky:restore:%s" % how, 0) + 1
    finally:
        shutil.rmtree(tmp, ignore_errors=True)
    line = "C06 sticky (solver %s) (known %d) %s (ops (%s))" % ("de" if de else "two", nK, stored, " ".join(ops))

    def compare(reply):
        r = parse_reply(reply)
        if r[0] != "ok" or len(r[1]["states"]) != len(obs):
            return [("sticky/model-reply", "model replied %r" % (reply[:200],))]
        for j, (m, (fld, u)) in enumerate(zip(r[1]["states"], obs)):
            nf = 3 if de else 2
            got_f = tuple(int(t) if (de and q == 0) else t for q, t in enumerate(m[:nf]))
            got_u = [tuple(int(t) if (de and q == 0) else t for q, t in enumerate(e)) for e in m[nf]]
            if got_f != tuple(fld) or got_u != [tuple(e) for e in u]:
                names = ("strategy, probability, scale" if de else "%s, %s" % (fa, fb))
                return [("sticky/%s/diverges" % kind, "after op %d %s: model fields (%s) = %r, settings per generation %r; real solver %r, %r  [all ops: %s]"
                         % (j, ops[j], names, got_f, got_u, tuple(fld), u, " ".join(ops)))]
        return []
    hist["sticky:%s" % kind] = hist.get("sticky:%s" % kind, 0) + 1
    return line, compare, {"which": "sticky", "ops": ops}


def pw_reply_stats(rep, line):
    """which paths of `_Step` a replayed Powell continuation went through (coverage histogram)"""
    out = []
    r = parse_reply(rep)
    if r[0] != "ok" or not r[1]["steps"]:
        return out
    prev_nls = 0; prev_direc = None
    dim = None
    for mt in r[1]["steps"]:
        m = pw_fields(mt)
        dim = len(m["x"])
        nls = int(m["nls"]) - prev_nls; prev_nls = int(m["nls"])
        g = int(m["gens"])
        if g == 1:
            out.append("pw-resume-step:generation-1-dispatch")
        elif nls > dim:
            out.append("pw-resume-step:extrapolation-search-taken")
            out.append("pw-resume-step:direction-replaced:bigind=%s" % ("last" if prev_direc is not None and m["direc"][:-1] == prev_direc[:-1] else "other"))
        else:
            out.append("pw-resume-step:no-extrapolation-search")
        prev_direc = m["direc"]
    return out


# ---------------------------------------------------------------- shard
def run_shard(pid, seed, shard, ncases, tier, extra):
    common.import_mystic()
    findings = []; hist = {}; samples = []
    requests = []
    nontrivial = 0; evals = 0
    only = (extra or {}).get("only")
    budget = (extra or {}).get("budget")
    stream = (extra or {}).get("stream")
    # ---------- stream `reconf` (harness/c06_reconf.py): runs whose monitors / limits / penalty are changed BETWEEN the Steps,
    # checkpointed at every boundary, continued with the objective handed over again; its own time budget, run first
    import c06_reconf
    t0 = time.time()
    nre = (extra or {}).get("nreconf", 10 if tier == "quick" else 16)
    rbudget = (extra or {}).get("rbudget", 8 if tier == "quick" else 30)
    for k in ([only] if stream == "reconf" else ([] if only is not None else range(nre))):
        if time.time() - t0 > rbudget and k > 1 and only is None:
            hist["reconf:cases-not-run-(time-budget)"] = hist.get("reconf:cases-not-run-(time-budget)", 0) + 1
            continue
        rng = case_rng(pid + "/reconf", seed, shard, k)
        spec = c06_reconf.gen_case(rng, tier)
        fs, nt = c06_reconf.run_case(spec, {"seed": seed, "shard": shard, "case": k, "tier": tier, "stream": "reconf"}, hist)
        evals += 1; findings += fs; nontrivial += nt
        hist["reconf:cases"] = hist.get("reconf:cases", 0) + 1
    t0 = time.time()
    ks = [only] if only is not None else range(ncases)
    if stream == "reconf":
        ks = []
    for k in ks:
        if budget and time.time() - t0 > budget and k > 0:
            hist["cases-not-run-(time-budget)"] = hist.get("cases-not-run-(time-budget)", 0) + 1
            continue
        rng = case_rng(pid, seed, shard, k)
        spec = gen_case(rng, tier)
        fs, rq, nt, sample = run_case(spec, {"seed": seed, "shard": shard, "case": k, "tier": tier}, hist, tier)
        evals += 1
        findings += fs; requests += rq; nontrivial += nt
        if sample and len(samples) < 2 and nt:
            samples.append(sample)
    for k_, v_ in FORM_HIST.items():
        hist[k_] = hist.get(k_, 0) + v_
    FORM_HIST.clear()
    if only is None:
        for k in range(max(4, ncases)):
            rng = case_rng(pid + "/alias", seed, shard, k)
            requests.append(alias_case(rng, hist))
        for k in range(max(6, ncases)):
            rng = case_rng(pid + "/sticky", seed, shard, k)
            requests.append(sticky_case(rng, hist))
    lines = [r[0] for r in requests]
    replies = leandrv.run_driver(lines) if lines else []
    for (line, cmp, meta), rep in zip(requests, replies):
        hist["model:" + meta["which"]] = hist.get("model:" + meta["which"], 0) + 1
        if meta.get("copy_generation", 1) > 1:
            k2 = "model-restarted-from-a-copy-of-a-copy:" + meta["which"].split(":")[0]
            hist[k2] = hist.get(k2, 0) + 1
        for key, what in cmp(rep):
            c = dict(meta); c["request"] = line[:3000]; c["model_reply"] = rep[:3000]
            c.setdefault("gen", {"seed": seed, "shard": shard, "tier": tier})
            findings.append(Finding("correspondence", key, what, c))
        if meta["which"].startswith("pw-resume"):
            for k in pw_reply_stats(rep, line):
                hist[k] = hist.get(k, 0) + 1
        if meta["which"] == "pw-share":
            for k in pw_share_stats(rep):
                hist[k] = hist.get(k, 0) + 1
            k = "pw-share:(informational)-object-given-the-run's-array-follows-the-pointer-model:%s" % meta.get("shared_object_follows_pointer_model")
            hist[k] = hist.get(k, 0) + 1
        if meta["which"] == "nm-resume":
            for b in solvermodel.nm_branches(rep):
                hist["nm-resume-branch:%s" % b] = hist.get("nm-resume-branch:%s" % b, 0) + 1
    return {"evaluations": evals, "nontrivial": nontrivial, "model_lines": len(lines), "findings": findings,
            "samples": samples, "hist": hist}


def main(tier, seed):
    t0 = time.time()
    proof = framework.proof_stage(PID, MODULE, THEOREMS, tier)
    if tier == "quick":
        nshards, per, budget = 16, 26, 30           # (+ 8 s per shard for the stream `reconf`, run first)
    else:
        nshards, per, budget = 64, 24, 105
    run = framework.run_shards("c06", "run_shard", PID, seed, nshards, per, tier, extra={"budget": budget})

    def search_more():
        r = framework.run_shards("c06", "run_shard", PID, seed + 15485863, 32, per, tier, extra={"budget": budget})
        return r["findings"]
    rule = ("cases: one configured run each of DifferentialEvolutionSolver(2) / NelderMeadSimplexSolver / PowellDirectionalSolver "
            "(dim 1-4; DSL costs scalar or vector+reducer; DSL and mystic.penalty penalties; idempotent box-compatible constraints pure/in-place; "
            "strict ranges x tight x clip; terminations; limits that stop the run in the middle; evaluation monitor Null/Monitor/Verbose/Logging; step monitor "
            "default/Monitor/Verbose/Logging/VerboseLogging; SetSaveFrequency 1..3; sticky settings given to the first Step only; continuation by Step() / "
            "Step(own raw cost) / Step(by-reference cost) / Step(equal but new cost object)). EXHAUSTIVE over the generation boundaries k of the run "
            "(run length <= %d): at every k the solver is copied by SaveSolver+LoadSolver, dill.dumps/loads, copy.deepcopy and from every periodic dump; "
            "each copy is continued to the end under the saved random state and compared with the untouched run after every Step; the original is compared with its "
            "own snapshot after the copy's first Step and after its last; every copy stays alive until the original has finished and must not have moved; one never-advanced "
            "copy per boundary (rotating path) must not move and must resume exactly afterwards; one copy per boundary is copied again (9 path pairs rotating) and the "
            "second-generation copy is checked the same way. Powell cases additionally: three objects (run, copy, deep copy) stepped in a generated order (pw-share). "
            "Every case additionally: (K) the Step()-driven run with the solver object replaced by its shallow copy (copy.copy / __copy__) at every boundary "
            "(30%%: also before the first Step) and at one boundary; (W) the run as ONE Solve(cost, termination | SetTermination, ExtraArgs 0-2, **keywords) call "
            "with solver-private keywords (DE: 10 module strategies + 2 own strategy functions, CrossProbability, ScalingFactor; NM: radius, adaptive; Powell: xtol, imax, "
            "direc), 35%%: penalty / constraints / monitors as keywords instead of Set*, 35%%: periodic dump on; at the end of EVERY generation one checkpoint from inside the call "
            "(rotating: SaveSolver | periodic dump, dill, deepcopy; thorough, runs of up to 14 generations: all three; runs longer than 24 generations: every 2nd / 3rd generation), restored and continued to termination by bare Solve() / Solve(callback) / Step() loop "
            "(rotating), compared generation by generation and at the end; (X) the call killed at one boundary, the dead solver saved / pickled / deep-copied / shallow-copied and "
            "each copy continued the same way. "
            "Stream `reconf` (harness/c06_reconf.py; %d cases per shard, own time budget, run first): runs that are HISTORIES of Steps and reconfigurations - the evaluation monitor "
            "attached / replaced some generations into the run (SetEvaluationMonitor(m, new=False|True), m = Monitor / VerboseMonitor / Null / a monitor already holding 2 or 40 records; 40%%: the run "
            "STARTS with a monitor holding 3 or 60 foreign records), the step monitor replaced (new=False|True), SetEvaluationLimits(.., new=True) and SetPenalty between the Steps; ExtraArgs (0-2) handed to every Step; "
            "so the evaluation monitor holds FEWER / MORE records than the counter says at the interruption point. Every boundary x {SaveSolver+LoadSolver, dill, deepcopy}; the restored solver continued by "
            "Step() | Step(stored cost) | Step(by-reference cost + new equal ExtraArgs tuple) | Step(ONE new equal cost object) | Step(a new equal cost object every time) - the last three re-decorate in the restored solver only - "
            "with the same later reconfigurations, compared with the uninterrupted run after every Step; real cost calls == growth of `evaluations` in every Step of a copy; at one boundary original and copies get "
            "SetEvaluationLimits(generations=g, evaluations=e, new=True) and run to termination with Solve(cost[, ExtraArgs]) (the evaluation limit usually fires first), final states compared. "
            "non-trivial = at least 3 iterations really ran and at least one copy performed >= 2 further real iterations." % (12 if tier == "quick" else 60, 10 if tier == "quick" else 16))
    tb = ["Lean 4.33 kernel; axioms per theorem under coverage.theorems (subset of propext, Classical.choice, Quot.sound)",
          "pickling itself (dill, copy.deepcopy, file IO) is NOT modelled: the clause 'a restore gives back the saved state' is checked by the monitor only",
          "Model/Checkpoint.lean / Model/PowellResume.lean snapshot records + model S are tied to /repo by restarting the model from the snapshot read off the restored REAL solver (histogram model:de-resume / nm-resume / ctl-resume / pw-resume*)",
          "Powell: Brent's line search is a recorded oracle (which points it evaluated, which it returned); everything else of _Step is recomputed by PowellS.stepAt from the PwSnap alone; the mid-iteration periodic dump is PowellS.midDump (model:pw-dump)",
          "PowellS.shallowCopyObj (two objects sharing one direction-set array) is the hypothesis of the witness powellS_shared_direc_not_independent only: object identity inside _Step is not observable through the copies the property talks about, so its agreement with the code is counted (pw-share:(informational)...) and never a verdict",
          "the aliasing model (heap of counter / monitor cells) is tied to /repo by random decorate/call/pickle/deepcopy/copy.copy/SetEvaluationMonitor(m, new) sequences on real solver objects (histogram model:alias, alias:setmon:*); DifferentialEvolutionSolver2 is no object of that correspondence (it keeps its counter by hand: F62)",
          "the keyword-settings model (DESet.process / Set2.process, deStepKw / deSolveKw / step2Kw / solve2Kw) is tied to /repo by random sequences of the real _process_inputs called as Step(**kw) and Solve(**kw) call it, attribute assignments and pickle / copy round trips (histogram model:sticky); that Solve hands `settings` to every Step and Step hands its keywords to _process_inputs is read off abstract_solver.py l.1131 / l.1104 and exercised end to end by stage W only",
          "DE trial vectors are recorded from the real strategy",
          "attribution of cost calls to the solver being advanced is by a harness-global actor name (single-threaded runs)"]
    assumptions = ["cost / penalty / constraints are deterministic picklable callables (dill by value or by reference)",
                   "the random state restored with a copy is the state at the moment of the save (python random + numpy.random)",
                   "NaN energies excluded (such runs are skipped and counted)"]
    extra_cov = {"exhaustive": True, "exhaustive_over": "generation boundaries of each Step()-driven run x {SaveSolver+LoadSolver, dill, deepcopy, every periodic dump written, copy.copy (chain)}; generation boundaries of each Solve()-driven run of up to 24 generations (longer, thorough only: every 2nd / 3rd) x one rotating checkpoint kind (thorough, up to 14 generations: all); generation boundaries of each run of the stream `reconf` x {SaveSolver+LoadSolver, dill, deepcopy}"}
    return framework.finish(PID, tier, seed, t0, proof, run, rule, tb, assumptions, extra_cov=extra_cov, search_more=search_more)


def replay(path):
    data = json.load(open(path))
    case = data.get("case", {})
    gen = case.get("gen") or {}
    if "case" not in gen:
        print("replay file carries no generator coordinates (model-only divergence): request=%r" % (case.get("request", "")[:300],))
        if case.get("request"):
            print("model reply now: %s" % leandrv.run_driver([case["request"]])[0][:600])
        return 0
    os.environ["VERIF_SEED"] = str(gen["seed"])
    out = run_shard(PID, gen["seed"], gen["shard"], 0, gen.get("tier", "quick"), {"only": gen["case"], "stream": gen.get("stream")})
    known = {e["class_key"] for e in framework.load_known(PID)}
    bad = 0
    seen = set()
    for f in out["findings"]:
        if (f["class_key"], f["kind"]) in seen:
            continue
        seen.add((f["class_key"], f["kind"]))
        tag = "KNOWN-FINDING" if f["class_key"] in known and f["kind"] == "monitor" else "VIOLATION"
        print("%s property=%s [%s] %s: %s" % (tag, PID, f["class_key"], f["kind"], f["what"]))
        bad += tag == "VIOLATION"
    print("replayed case seed=%s shard=%s case=%s: %d finding(s) in %d class(es)" % (gen["seed"], gen["shard"], gen["case"], len(out["findings"]), len(seen)))
    return 1 if bad else 0
