"""Build the Lean project and run the model driver `mvdrv` over a batch of request lines."""
import os, subprocess, tempfile, time
from common import LEAN, MVDRV


class DriverError(Exception):
    pass


def lake_build(targets, timeout=3000):
    t0 = time.time()
    p = subprocess.run(["lake", "build"] + list(targets), cwd=LEAN, stdout=subprocess.PIPE,
                       stderr=subprocess.STDOUT, text=True, timeout=timeout)
    out = "\n".join(l for l in p.stdout.splitlines() if "conda" not in l)
    return p.returncode == 0, out, time.time() - t0


def ensure_driver():
    ok, out, _ = lake_build(["mvdrv"])
    if not ok or not os.path.exists(MVDRV):
        raise DriverError("mvdrv build failed:\n" + out[-4000:])


def run_driver(lines, timeout=600):
    """send request lines, return reply lines (same length)"""
    if not lines:
        return []
    data = "\n".join(lines) + "\n"
    p = subprocess.run([MVDRV], input=data, stdout=subprocess.PIPE, stderr=subprocess.PIPE,
                       text=True, timeout=timeout)
    if p.returncode != 0:
        raise DriverError("mvdrv exited %d: %s" % (p.returncode, p.stderr[-2000:]))
    out = p.stdout.splitlines()
    if len(out) != len(lines):
        raise DriverError("mvdrv returned %d replies for %d requests (stderr: %s)" % (len(out), len(lines), p.stderr[-500:]))
    return out
