"""Build the Lean project and run the model driver `mvdrv` over a batch of request lines."""
import os, time, subprocess, tempfile, time
from common import LEAN, MVDRV


class DriverError(Exception):
    pass


def lake_build(targets, timeout=3000):
    t0 = time.time()
    p = subprocess.run(["lake", "build"] + list(targets), cwd=LEAN, stdout=subprocess.PIPE,
                       stderr=subprocess.STDOUT, text=True, timeout=timeout)
    out = "\n".join(l for l in p.stdout.splitlines() if "conda" not in l)
    return p.returncode == 0, out, time.time() - t0


def ensure_driver():
    ok, out, _ = lake_build(["mvdrv"])
    if not ok or not os.path.exists(MVDRV):
        raise DriverError("mvdrv build failed:\n" + out[-4000:])


def private_driver():
    """copy the freshly built mvdrv to a private temp file (other builds may relink the shared binary while a
    check is running); the path is exported so that forked workers use it; removed at exit of the parent"""
    import shutil, atexit
    cur = os.environ.get("MVDRV_PRIVATE")
    if cur and os.path.exists(cur):
        return cur
    fd, path = tempfile.mkstemp(prefix="mvdrv_", dir=os.environ.get("TMPDIR", "/tmp"))
    os.close(fd)
    for _ in range(20):
        try:
            shutil.copy2(MVDRV, path)
            break
        except (FileNotFoundError, OSError):
            time.sleep(0.5)
    os.chmod(path, 0o755)
    os.environ["MVDRV_PRIVATE"] = path
    pid = os.getpid()

    def _rm():
        if os.getpid() == pid:
            try:
                os.remove(path)
            except OSError:
                pass
    atexit.register(_rm)
    return path


def run_driver(lines, timeout=600):
    """send request lines, return reply lines (same length)"""
    if not lines:
        return []
    data = "\n".join(lines) + "\n"
    exe = os.environ.get("MVDRV_PRIVATE")
    if not exe or not os.path.exists(exe):
        exe = MVDRV
    for attempt in range(30):
        try:
            p = subprocess.run([exe], input=data, stdout=subprocess.PIPE, stderr=subprocess.PIPE,
                               text=True, timeout=timeout)
            break
        except (FileNotFoundError, PermissionError, OSError):
            # the driver binary is being relinked by a concurrent `lake build` (it is replaced, not rewritten in place):
            # wait for it to come back rather than fail the run
            if attempt == 29:
                raise
            time.sleep(2.0)
    if p.returncode != 0:
        raise DriverError("mvdrv exited %d: %s" % (p.returncode, p.stderr[-2000:]))
    out = p.stdout.splitlines()
    if len(out) != len(lines):
        raise DriverError("mvdrv returned %d replies for %d requests (stderr: %s)" % (len(out), len(lines), p.stderr[-500:]))
    return out
