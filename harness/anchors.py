"""Source fingerprints of the files each property is anchored in (properties.jsonl `anchors.files`).

The correspondence check is what ties model and code on every run; this module only decides HOW HARD a run searches:
when the docstring/comment-insensitive AST fingerprint of an anchored file differs from the one recorded in
/verif/anchors.lock.json (written with `python3 harness/anchors.py --update` when /repo is known good, i.e. after
every `fix:` commit), the code the model was written against has changed, and the quick tier multiplies its case
counts (VERIF_DRIFT_SCALE, default 3).  A drift is never a verdict by itself: a harmless rewrite only makes the check
slower.  On the recorded tree nothing changes."""
import ast, hashlib, json, os, sys

HERE = os.path.dirname(os.path.abspath(__file__))
VERIF = os.path.dirname(HERE)
LOCK = os.path.join(VERIF, "anchors.lock.json")


def _strip_docstrings(tree):
    for node in ast.walk(tree):
        if isinstance(node, (ast.Module, ast.FunctionDef, ast.AsyncFunctionDef, ast.ClassDef)):
            b = node.body
            if b and isinstance(b[0], ast.Expr) and isinstance(getattr(b[0], "value", None), ast.Constant) \
                    and isinstance(b[0].value.value, str):
                node.body = b[1:] or [ast.Pass()]
    return tree


def _dump(node):
    """interpreter-version independent dump: empty / absent fields are omitted (3.12 adds `type_params=[]`)"""
    if isinstance(node, ast.AST):
        parts = []
        for name in node._fields:
            v = getattr(node, name, None)
            if v is None or v == []:
                continue
            parts.append(name + "=" + _dump(v))
        return type(node).__name__ + "(" + ",".join(parts) + ")"
    if isinstance(node, list):
        return "[" + ",".join(_dump(x) for x in node) + "]"
    return repr(node)


def fingerprint(path):
    try:
        src = open(path, "rb").read()
    except OSError:
        return "missing"
    try:
        tree = _strip_docstrings(ast.parse(src))
        return hashlib.sha256(_dump(tree).encode()).hexdigest()[:20]
    except (SyntaxError, ValueError):
        return "unparsable:" + hashlib.sha256(src).hexdigest()[:12]


def property_files():
    out = {}
    for line in open(os.path.join(VERIF, "properties.jsonl")):
        line = line.strip()
        if line:
            p = json.loads(line)
            out[p["id"]] = list(p.get("anchors", {}).get("files", []))
    return out


def current(repo, files):
    return {f: fingerprint(os.path.join(repo, f)) for f in files}


def drift(pid, repo):
    """-> (list of anchored files whose fingerprint differs from the lock, lock's repo commit)"""
    try:
        lock = json.load(open(LOCK))
    except (OSError, ValueError):
        return [], None
    files = property_files().get(pid, [])
    cur = current(repo, files)
    return sorted(f for f in files if cur[f] != lock.get("files", {}).get(f)), lock.get("repo_commit")


def scale(pid, repo, tier):
    ch, _ = drift(pid, repo)
    if not ch or tier != "quick":
        return 1.0, ch
    try:
        s = float(os.environ.get("VERIF_DRIFT_SCALE", "3"))
    except ValueError:
        s = 3.0
    return max(1.0, s), ch


if __name__ == "__main__":
    repo = os.environ.get("MYSTIC_REPO", "/repo")
    if "--update" in sys.argv:
        import subprocess
        files = sorted({f for fs in property_files().values() for f in fs})
        commit = subprocess.run(["git", "-C", repo, "rev-parse", "HEAD"], capture_output=True, text=True).stdout.strip()
        json.dump({"repo_commit": commit, "files": current(repo, files)}, open(LOCK, "w"), indent=1, sort_keys=True)
        print("wrote", LOCK, len(files), "files at", commit[:7])
    else:
        for pid in sorted(property_files()):
            print(pid, drift(pid, repo)[0])
