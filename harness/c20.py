"""C20 - monitors and log files give back exactly what was recorded.

Correspondence: random programs of monitor operations (`__call__` with python/numpy scalars, lists, tuples,
arrays, vector costs, ids, special floats; `len`, `[i]`, slices, list/array/mask indices, `+`, `extend`,
`prepend`, `min`, `info`) on Monitor / VerboseMonitor / LoggingMonitor / VerboseLoggingMonitor, the real log
file read back by `munge.logfile_reader`, and `write_raw_file / write_support_file / write_converge_file /
read_history` read back by `read_raw_file`, against lean Model/Monitor run at Float (bit-exact values, exact
structure, error enums).  `str.split("   ")` vs the model's `split3` on random strings and on every real log line.
Ids through the parameter files and the matching readers (`read_support_file`, `read_converge_file`, `iter` on/off,
`read_history(file)`): harness/c20_ids.py (streams `idfile`, `idex`).

Monitor (independent of the model): an oracle list of the recorded (x, y, id) triples is maintained by the
harness from the *inputs* (calls append, slices/indices select, + / extend / prepend concatenate) and the
property is evaluated on what the real objects / files give back."""
import os, sys, io, re, time, math, shutil, tempfile, contextlib, json, struct, importlib, subprocess
import numpy as np
import common
from common import case_rng, f2b, b2f, parse_reply, dyadic
import framework, leandrv
from framework import Finding
import c20_ids

PID = "C20"
MODULE = "MysticVerif.Props.C20"
THEOREMS = [
    "MysticVerif.C20.len_after_calls",
    "MysticVerif.C20.get_ith",
    "MysticVerif.C20.y_transparent",
    "MysticVerif.C20.getItem_spec",
    "MysticVerif.C20.sliceIdx_valid",
    "MysticVerif.C20.slice_spec",
    "MysticVerif.C20.slice_split",
    "MysticVerif.C20.extend_spec",
    "MysticVerif.C20.add_spec",
    "MysticVerif.C20.prepend_spec",
    "MysticVerif.C20.logline_roundtrip",
    "MysticVerif.C20.split3_spec",
    "MysticVerif.C20.log_record_spec",
    "MysticVerif.C20.support_roundtrip",
    "MysticVerif.C20.converge_roundtrip",
    "MysticVerif.C20.raw_file_spec",
    "MysticVerif.C20.support_cost_spec",
    # views (Props/C20Views.lean, Model/MonitorViews.lean)
    "MysticVerif.C20.views_spec",
    "MysticVerif.C20.tuple_record_spec",
    "MysticVerif.C20.tuple_rows_spec",
    "MysticVerif.C20.tuple_column_spec",
    "MysticVerif.C20.tuple_list_spec",
    "MysticVerif.C20.tuple_record_bounds",
    "MysticVerif.C20.cmon_field_spec",
    "MysticVerif.C20.cmon_required_field",
    "MysticVerif.C20.logOfB_all",
    "MysticVerif.C20.log_best_spec",
    "MysticVerif.C20.verb_interval_spec",
    "MysticVerif.C20.ipos_uniform_partial",
    "MysticVerif.C20.ipos_nonuniform_witness",
    "MysticVerif.C20.wts_pos_partition",
    # aliasing (Props/C20Heap.lean, Model/MonitorHeap.lean)
    "MysticVerif.C20.store_frame",
    "MysticVerif.C20.alloc_spec",
    "MysticVerif.C20.heap_call_spec",
    "MysticVerif.C20.heap_calls_invisible",
    "MysticVerif.C20.heap_extend_spec",
    "MysticVerif.C20.heap_add_spec",
    "MysticVerif.C20.heap_slice_spec",
    "MysticVerif.C20.heap_fancy_spec",
    "MysticVerif.C20.heap_handover_spec",
    # file formats (Props/C20Files.lean, Model/MungeFormats.lean)
    "MysticVerif.C20.raw_to_converge_flat",
    "MysticVerif.C20.raw_to_converge_first",
    "MysticVerif.C20.support_ragged_witness",
    "MysticVerif.C20.process_ids_tuples",
    "MysticVerif.C20.log_gaps_spec",
    # ids through the parameter files, matching readers (Props/C20Ids.lean)
    "MysticVerif.C20.file_ids_roundtrip",
    "MysticVerif.C20.files_ids_spec",
    "MysticVerif.C20.monitor_ids_spec",
    "MysticVerif.C20.read_converge_roundtrip",
    "MysticVerif.C20.read_support_roundtrip",
]

NREG = 4
INF = float("inf")
NAN = float("nan")
SPECIALS = [INF, -INF, NAN, 0.0, -0.0, 5e-324, 1e-300, -1e-300, 1e300, -1e300, 2.2250738585072014e-308, -3.5e-310]
K_EXACT = [1, -1, 2, 0.5, 4, -2, 1.0, 0.25, 2.0, -0.5]
K_ROUND = [3, 0.1, -3.7, 10, 1e-3, 7.0]

# known-finding class keys (see known_findings.d/C20.json)
KEY_F13 = "Monitor.y/k-scaling-inexact/k-not-a-power-of-two"
KEY_F13U = "Monitor.y/k-scaling-inexact/subnormal-cost"
KEY_D1 = "%s/cost-divided-by-k-twice"
KEY_D2 = "%s/numpy-scalar-repr-unreadable"
KEY_D2I = "%s/numpy-integer-id-list-repr-unreadable"
KEY_D3 = "Monitor.__call__/0d-array-cost-with-k/raises"
KEY_D4 = "%s/first-cost-numpy-others-python/raises"
KEY_K5 = "munge.read_import/second-directory-in-one-process/module-not-found"
KEY_POS = "Monitor.wts-pos/non-uniform-npts/wrong-columns"
KEY_CM = "CustomMonitor.__call__/stores-caller-buffer-by-reference"
KEY_NPTS = "LoggingMonitor.__add__/npts-dropped-by-__reduce__"
KEY_RAG = "write_support_file/records-of-different-dimension/truncated-to-the-shortest"


KNOWN_KEYS = {KEY_F13, KEY_F13U, KEY_D3, KEY_K5, KEY_POS, KEY_CM, KEY_NPTS, KEY_RAG} | {k % w for k in (KEY_D1, KEY_D2, KEY_D2I, KEY_D4)
                                                    for w in ("write_raw_file", "write_support_file", "write_converge_file", "read_history(monitor)")}


class Unsupported(Exception):
    pass


# ------------------------------------------------------------------ tokens
def is_scalar(v):
    if isinstance(v, bool):
        return False
    if isinstance(v, (int, float, np.integer, np.floating)):
        return True
    return isinstance(v, np.ndarray) and v.ndim == 0


def is_seq(v):
    return isinstance(v, (list, tuple)) or (isinstance(v, np.ndarray) and v.ndim > 0)


def pv_of(v):
    """the recorded value as the model's PV token tree (scalar / flat list / list of lists)"""
    if is_scalar(v):
        return ["s", f2b(float(v))]
    if is_seq(v):
        items = list(v)
        if all(is_scalar(t) for t in items):
            return ["v"] + [f2b(float(t)) for t in items]
        if all(is_seq(t) and all(is_scalar(u) for u in t) for t in items):
            return ["m"] + [[f2b(float(u)) for u in t] for t in items]
    raise Unsupported(repr(v))


def tstr(t):
    return t if isinstance(t, str) else "(" + " ".join(tstr(u) for u in t) + ")"


def is_ftok(t):
    return isinstance(t, str) and len(t) > 1 and t[0] == "f" and t[1:].isdigit()


def same_tok(a, b):
    if isinstance(a, str) != isinstance(b, str):
        return False
    if isinstance(a, str):
        if is_ftok(a) and is_ftok(b):
            return common.same_float(b2f(a), b2f(b))
        return a == b
    return len(a) == len(b) and all(same_tok(p, q) for p, q in zip(a, b))


def close_float(a, b):
    if a != a or b != b:
        return a != a and b != b
    if a == b:
        return True
    if math.isinf(a) or math.isinf(b):
        return False
    return abs(a - b) <= 1e-12 * max(abs(a), abs(b)) + 1e-300


def close_tok(a, b):
    if isinstance(a, str) != isinstance(b, str):
        return False
    if isinstance(a, str):
        if is_ftok(a) and is_ftok(b):
            return close_float(b2f(a), b2f(b))
        return a == b
    return len(a) == len(b) and all(close_tok(p, q) for p, q in zip(a, b))


def leaves(t):
    if isinstance(t, str):
        return [b2f(t)] if is_ftok(t) else []
    out = []
    for u in t:
        out += leaves(u)
    return out


def ktok(k):
    return "none" if k is None else f2b(float(k))


def idtok(i):
    return "none" if i is None else str(int(i))


def nest_tok(v, leaf):
    """a nested python list (what ndarray.tolist() returns) as a token tree; `leaf` converts the scalars"""
    if isinstance(v, (list, tuple)) or (isinstance(v, np.ndarray) and v.ndim > 0):
        return [nest_tok(u, leaf) for u in v]
    return leaf(v)


def ftok(v):
    if v is None or isinstance(v, (str, bool)):
        raise Unsupported(repr(v))
    return f2b(float(v))


def scale_tok(t, k):
    """every float leaf of a PV token multiplied by k (what `Monitor._k` stores)"""
    if isinstance(t, str):
        return f2b(b2f(t) * k) if is_ftok(t) else t
    return [scale_tok(u, k) for u in t]


def shown_val(v, allf, best):
    """what a logging / verbose monitor shows of an argument: all of it, or entry `best` of a sequence"""
    if allf or not is_seq(v):
        return v
    return list(v)[best]


EV_RE = re.compile(r"(?:\[id: (-?\d+|None)\] )?Generation (\d+) has( best)? (ChiSquare|fit parameters):(?: |\n )([^\n]*)")


def parse_events(text):
    evs = []
    for mt in EV_RE.finditer(text):
        idv = None if mt.group(1) in (None, "None") else int(mt.group(1))
        val = eval(mt.group(5), {"inf": INF, "nan": NAN, "np": np})
        evs.append(["x" if mt.group(4) != "ChiSquare" else "y", str(int(mt.group(2))), idtok(idv),
                    "true" if mt.group(3) else "false", pv_of(val)])
    return evs


def kexact(k):
    return k is None or abs(float(k)) in (1.0, 2.0, 4.0, 0.5, 0.25)


def yrange_ok(tok):
    return all((v != v) or v == 0.0 or math.isinf(v) or 1e-290 <= abs(v) <= 1e290 for v in leaves(tok))


def has_numpy(o):
    if isinstance(o, (np.generic, np.ndarray)):
        return True
    if isinstance(o, (list, tuple)):
        return any(has_numpy(t) for t in o)
    return False


# ------------------------------------------------------------------ value generators
def gen_leaf(rng, mode):
    if mode == "dyadic":
        return dyadic(rng, -8, 8, 8)
    if mode == "int":
        return float(rng.randint(-9, 9))
    k = rng.random()
    if k < 0.25:
        return rng.choice(SPECIALS)
    if k < 0.5:
        return dyadic(rng, -8, 8, 8)
    if k < 0.75:
        return rng.uniform(-10, 10)
    return rng.uniform(-1, 1) * 10.0 ** rng.randint(-12, 12)


def gen_x(rng, dim, numpy_ok=True):
    """returns (python object handed to the monitor, short form name)"""
    forms = ["list", "list", "list", "list", "tuple", "ints", "scalar", "mat", "otherdim"]
    if numpy_ok:
        forms += ["ndarray", "ndarray", "npscalars", "npscalar", "ndarray2"]
    form = rng.choice(forms)
    if form in ("scalar", "mat", "otherdim", "npscalar", "ndarray2") and rng.random() < 0.5:
        form = "list"
    mode = rng.choice(["dyadic", "any", "any"])
    if form == "otherdim":
        dim = rng.choice([0, 1, dim + 1, 12])
        form = "list"
    vals = [gen_leaf(rng, mode) for _ in range(dim)]
    if form == "list":
        return list(vals), form
    if form == "tuple":
        return tuple(vals), form
    if form == "ndarray":
        return np.array(vals, dtype=float), form
    if form == "ints":
        return [rng.randint(-9, 9) for _ in range(dim)], form
    if form == "npscalars":
        return [np.float64(v) for v in vals], form
    if form == "scalar":
        return gen_leaf(rng, mode), form
    if form == "npscalar":
        return np.float64(gen_leaf(rng, mode)), form
    rows = rng.randint(1, 3)
    m = [[gen_leaf(rng, mode) for _ in range(max(dim, 1))] for _ in range(rows)]
    if form == "mat":
        return m, form
    return np.array(m, dtype=float), form


def gen_y(rng, vector_ok, numpy_ok=True):
    form = rng.choice(["float"] * 6 + ["int"] + (["npfloat", "npfloat", "npint"] if numpy_ok else [])
                      + ((["list", "tuple"] + (["ndarray"] if numpy_ok else [])) if vector_ok else [])
                      + (["zerod"] if numpy_ok and rng.random() < 0.1 else []))
    mode = rng.choice(["dyadic", "any", "any"])
    if form == "float":
        return gen_leaf(rng, mode), form
    if form == "int":          # never the integer 0: `0 * -2` is the unsigned int 0 (the model is about floats)
        return rng.choice([-9, -4, -3, -2, -1, 1, 2, 3, 5, 8]), form
    if form == "npfloat":
        return np.float64(gen_leaf(rng, mode)), form
    if form == "npint":
        return np.int64(rng.choice([-9, -4, -3, -2, -1, 1, 2, 3, 5, 8])), form
    if form == "zerod":
        return np.array(gen_leaf(rng, "dyadic")), form
    n = rng.choice([1, 2, 2, 3])
    vals = [gen_leaf(rng, mode) for _ in range(n)]
    if form == "list":
        return vals, form
    if form == "tuple":
        return tuple(vals), form
    return np.array(vals, dtype=float), form


# ------------------------------------------------------------------ one case
class Case:
    def __init__(self, rng, tmpdir, tag, nops):
        from mystic.monitors import Monitor
        self.rng = rng
        self.tag = tag
        self.tmpdir = tmpdir
        self.logpath = os.path.join(tmpdir, "log_%s.txt" % tag)
        self.regs = [Monitor() for _ in range(NREG)]
        self.recs = [[] for _ in range(NREG)]
        self.kk = [None] * NREG
        self.iv = [None] * NREG          # logging interval (None: not logging / never)
        self.cls = ["Monitor"] * NREG
        self.last = ["new"] * NREG
        self.opt = [dict(all=True, yint=None, xint=None, npts=None) for _ in range(NREG)]   # constructor options
        self.ops = []                    # model ops (s-expression strings)
        self.expect = []                 # token trees of the implementation's results
        self.readable = []               # human-readable op log for replays
        self.findings = []               # (kind, key, what)
        self.hist = {}
        self.wslots = []                 # (index into expect, oracle record, len_before, id)
        self.dead = False
        self.broken = False
        self.nfile = 0
        self.dim = rng.choice([1, 2, 2, 3, 3, 4, 5])
        self.vector_costs = rng.random() < 0.3
        self.kpool = rng.choice(["none", "exact", "exact", "mixed"])
        self.numpy_ok = rng.random() < 0.5
        self.nops = nops
        self.rect_only = rng.random() < 0.45      # every record a flat vector of one dimension (tuple indices, measure views)

    # -------------------------------------------------- helpers
    def h(self, key, n=1):
        self.hist[key] = self.hist.get(key, 0) + n

    def find(self, kind, key, what):
        """the first unexpected finding of a case is reported; later ones in the same case are consequences
        (the oracle and the objects are out of step) and would only multiply class keys"""
        if key in KNOWN_KEYS:
            self.findings.append((kind, key, what))
            return
        if not self.broken:
            self.findings.append((kind, key, what))
        self.broken = True

    def emit(self, op, expect, readable):
        self.ops.append(op)
        self.expect.append(expect)
        self.readable.append(readable)

    def snapshot(self, m):
        """public state of a monitor as tokens (used for 'never alters its argument')"""
        try:
            return [[pv_of(v) for v in m.x], [pv_of(v) for v in m.y], [idtok(i) for i in m.id],
                    [str(s) for s in m.get_info()], ktok(m.k), str(len(m))]
        except Unsupported as e:
            return ["unsupported", str(e)]

    def gen_k(self):
        rng = self.rng
        if self.kpool == "none" or rng.random() < 0.3:
            return None
        if self.kpool == "exact" or rng.random() < 0.5:
            return rng.choice(K_EXACT)
        return rng.choice(K_ROUND)

    # -------------------------------------------------- the oracle check (property on the implementation)
    def check_reg(self, r, where):
        m = self.regs[r]; rec = self.recs[r]; after = self.last[r]
        try:
            n = len(m); xs = m.x; ys = m.y; ids = m.id
        except Exception as exc:
            self.find("monitor", "Monitor/accessor-raises/after-%s" % after, "%s: accessor raised %r" % (where, exc))
            return
        if n != len(rec) or len(xs) != len(rec) or len(ys) != len(rec) or len(ids) != len(rec):
            self.find("monitor", "Monitor/len-wrong/after-%s" % after,
                      "%s: len=%d, len(x)=%d, len(y)=%d, len(id)=%d but %d records are expected" % (where, n, len(xs), len(ys), len(ids), len(rec)))
            return
        for i, rc in enumerate(rec):
            try:
                tx = pv_of(xs[i]); ty = pv_of(ys[i])
            except Unsupported as e:
                self.find("monitor", "Monitor/entry-shape/after-%s" % after, "%s: entry %d has an unexpected shape %s" % (where, i, e))
                return
            if not same_tok(tx, rc["x"]):
                self.find("monitor", "Monitor/x-wrong/after-%s" % after,
                          "%s: entry %d parameters %s, recorded %s" % (where, i, show(tx), show(rc["x"])))
                return
            if ids[i] != rc["id"]:
                self.find("monitor", "Monitor/id-wrong/after-%s" % after, "%s: entry %d id %r, recorded %r" % (where, i, ids[i], rc["id"]))
                return
            if not same_tok(ty, rc["y"]):
                if rc["exact"] or not close_tok(ty, rc["y"]):
                    self.find("monitor", "Monitor/y-wrong/after-%s" % after,
                              "%s: entry %d cost %s, recorded %s (k=%r)" % (where, i, show(ty), show(rc["y"]), m.k))
                    return
                key = KEY_F13 if rc["krounds"] else KEY_F13U
                self.find("monitor", key, "%s: entry %d cost %s, recorded %s (k=%r): scaling by k is transparent only up to rounding"
                          % (where, i, show(ty), show(rc["y"]), m.k))
        self.h("oracle-checks")

    def moved(self, rcs, ka, kb):
        """records of a monitor with k=kb entering a monitor with k=ka"""
        out = []
        for rc in rcs:
            rc = dict(rc)
            if not (ka is None and kb is None):
                ex = kexact(ka) and kexact(kb)
                rc["krounds"] = rc["krounds"] or not ex
                rc["exact"] = rc["exact"] and ex and yrange_ok(rc["y"])
            out.append(rc)
        return out

    # -------------------------------------------------- ops
    def op_new(self, r):
        from mystic.monitors import Monitor, VerboseMonitor, LoggingMonitor, VerboseLoggingMonitor
        rng = self.rng
        cls = rng.choice(["Monitor", "Monitor", "VerboseMonitor", "LoggingMonitor", "LoggingMonitor", "VerboseLoggingMonitor"])
        k = self.gen_k()
        kw = {} if k is None else {"k": k}
        iv = None
        opt = dict(all=True, yint=None, xint=None, npts=None)
        if rng.random() < 0.3:
            opt["npts"] = self.gen_npts()
            kw["npts"] = opt["npts"]
        if cls != "Monitor" and rng.random() < 0.35:
            opt["all"] = False
            kw["all"] = False
        with quiet():
            if cls == "Monitor":
                m = Monitor(**kw)
            elif cls == "VerboseMonitor":
                yi, xi = rng.choice([1, 2, 3, 10, 0, None]), rng.choice([1, 3, np.inf, 0, 2])
                m = VerboseMonitor(yi, xi, **kw)
                opt["yint"], opt["xint"] = yi, xi
            else:
                iv = rng.choice([1, 1, 1, 2, 3, 5, 0, None])
                if cls == "LoggingMonitor":
                    m = LoggingMonitor(iv, self.logpath, **kw)
                else:
                    yi, xi = rng.choice([1, 2, 10, None]), rng.choice([2, np.inf, 1, 0])
                    m = VerboseLoggingMonitor(iv, yi, xi, self.logpath, **kw)
                    opt["yint"], opt["xint"] = yi, xi
        for key in ("yint", "xint"):                  # falsy / inf = never
            if not opt[key] or opt[key] == np.inf:
                opt[key] = None
        self.regs[r] = m; self.recs[r] = []; self.kk[r] = k; self.iv[r] = iv if iv else None
        self.cls[r] = cls; self.last[r] = "new"; self.opt[r] = opt
        ltok = "nolog" if cls in ("Monitor", "VerboseMonitor") else str(int(iv or 0))
        self.emit("(new %d %s %s)" % (r, ktok(k), ltok), "u", "r%d = %s(k=%r, interval=%r)" % (r, cls, k, iv))
        self.h("new:" + cls)
        if not opt["all"]:
            self.h("new:all=False")
        if opt["npts"] is not None:
            self.h("new:npts")

    def gen_npts(self):
        rng = self.rng
        dim = self.dim
        kind = rng.choice(["uniform", "uniform", "uniform", "nonuniform", "odd"])
        if kind == "uniform":
            cands = [(n0,) * d for d in (1, 2, 3) for n0 in (1, 2, 3) if 2 * n0 * d == dim]
            if cands:
                return rng.choice(cands)
            kind = "odd"
        if kind == "nonuniform":
            return rng.choice([(1, 2), (2, 1), (2, 3), (1, 1, 2), (2, 4), (0, 2)])
        return rng.choice([(), (0,), (1,), (2,), (1, 1), (0, 0), (3,), (2, 2)])

    def op_call(self, r):
        rng = self.rng
        m = self.regs[r]; k = self.kk[r]; o = self.opt[r]
        x, xform = gen_x(rng, self.dim, self.numpy_ok)
        while self.rect_only and xform not in ("list", "tuple", "ndarray", "ints", "npscalars"):
            x, xform = gen_x(rng, self.dim, self.numpy_ok)
        if self.rect_only and len(x) != self.dim:
            x = [dyadic(rng, -8, 8, 8) for _ in range(self.dim)]
        y, yform = gen_y(rng, self.vector_costs or (not o["all"] and rng.random() < 0.5), self.numpy_ok)
        if yform == "zerod" and not o["all"]:
            y, yform = float(y), "float"      # a 0-d array "is a sequence" for all=False and cannot be indexed: not generated
        i = None if rng.random() < 0.6 else rng.randint(0, 3)
        n0 = len(self.recs[r])
        size0 = os.path.getsize(self.logpath) if os.path.exists(self.logpath) else 0
        verbose = self.cls[r] != "Monitor"
        best, kflag = 0, False
        if verbose and rng.random() < 0.5:
            best = rng.choice([0, 1, 1, -1, 2, -2, -3, self.dim, self.dim - 1])
            kflag = rng.random() < 0.25
        desc = "r%d(%r, %r, id=%r%s)" % (r, x, y, i, ", best=%r, k=%r" % (best, kflag) if verbose else "")
        out = io.StringIO()
        raised = None
        try:
            with contextlib.redirect_stdout(out):
                if verbose and (best != 0 or kflag or rng.random() < 0.3):
                    m(x, y, i, best, kflag) if rng.random() < 0.5 else m(x, y, id=i, best=best, k=kflag)
                elif i is None and rng.random() < 0.5:
                    m(x, y)
                else:
                    m(x, y, i) if rng.random() < 0.5 else m(x, y, id=i)
        except IndexError as exc:
            if not verbose or o["all"]:
                self.find("monitor", "Monitor.__call__/raises/x-%s/y-%s" % (xform, yform), "%s raised %r" % (desc, exc))
                self.readable.append(desc + "  -> raised; case abandoned")
                self.dead = True
                return
            raised = exc
        except Exception as exc:
            if yform == "zerod" and k is not None and isinstance(exc, TypeError):
                self.find("monitor", KEY_D3, "%s on a monitor with k=%r raised %r and left len(x)=%d, len(y)=%d"
                          % (desc, k, exc, len(m.x), len(m._y)))
            else:
                self.find("monitor", "Monitor.__call__/raises/x-%s/y-%s" % (xform, yform), "%s raised %r" % (desc, exc))
            self.readable.append(desc + "  -> raised; case abandoned")
            self.dead = True
            return
        size1 = os.path.getsize(self.logpath) if os.path.exists(self.logpath) else 0
        tx = pv_of(x); ty = pv_of(y)
        rc = {"x": tx, "y": ty, "id": i, "krounds": not kexact(k), "exact": kexact(k) and (k is None or yrange_ok(ty))}
        self.recs[r].append(rc)
        self.last[r] = "call"
        # what the log line / the printed lines must show (computed from the ARGUMENTS, not from the monitor)
        allf = o["all"]
        shown = {"x": None, "y": None, "exact": rc["exact"], "id": i}
        try:
            shown["y"] = pv_of(shown_val(y, allf, best))
            if kflag and k is not None:
                shown["y"] = scale_tok(shown["y"], k); shown["exact"] = True
        except IndexError:
            pass
        try:
            shown["x"] = pv_of(shown_val(x, allf, best))
        except IndexError:
            pass
        shown_ok = shown["x"] is not None and shown["y"] is not None
        # aliasing probe: the caller re-uses its buffers after the call; the record must not follow
        for buf in (x, y):
            try:
                if isinstance(buf, list) and buf and not isinstance(buf[0], list):
                    buf[0] = 12345.0
                elif isinstance(buf, list) and buf and buf[0]:
                    buf[0][0] = 12345.0
                elif isinstance(buf, np.ndarray) and buf.ndim > 0 and buf.size:
                    buf.flat[0] = 12345.0
            except Exception:
                pass
        wrote = size1 > size0
        want = bool(self.iv[r]) and n0 % self.iv[r] == 0
        if wrote != (want and shown_ok):
            self.find("monitor", "LoggingMonitor/interval", "%s: interval=%r, %d records before the call, line written=%r" % (desc, self.iv[r], n0, wrote))
        if not verbose:
            self.emit("(call %d %s %s %s)" % (r, tstr(tx), tstr(ty), idtok(i)), "u", desc)
        else:
            due_y = bool(o["yint"]) and n0 % o["yint"] == 0
            due_x = bool(o["xint"]) and n0 % o["xint"] == 0
            try:
                evs = parse_events(out.getvalue())
            except Exception as exc:
                self.find("monitor", "VerboseMonitor/output-unreadable", "%s printed %r (%r)" % (desc, out.getvalue()[:200], exc))
                evs = []
            if raised is not None:
                # the record is appended before anything is shown; who raised follows from what was written / printed
                if not ((shown["y"] is None and (want or due_y)) or (shown["x"] is None and (want or due_x))):
                    self.find("monitor", "LoggingMonitor.__call__/all=False/raises", "%s raised %r" % (desc, raised))
                if want and not wrote:
                    exp = ["cv", ["e", "index"], "none"]
                else:
                    exp = ["cv", "u", ["e", "index"]]
                self.h("callv:IndexError")
            else:
                exp = ["cv", "u", evs]
                wantev = []
                if (shown["y"] is None and (want or due_y)) or (shown["x"] is None and (want or due_x)):
                    self.find("monitor", "LoggingMonitor.__call__/all=False/no-IndexError", "%s: best=%r is out of range but nothing was raised" % (desc, best))
                else:
                    if due_y:
                        wantev.append(["y", str(n0), idtok(i), "true" if (not allf and is_seq(y)) else "false", shown["y"]])
                    if due_x:
                        wantev.append(["x", str(n0), idtok(i), "true" if (not allf and is_seq(x)) else "false", shown["x"]])
                if (len(evs) != len(wantev) or not all(
                        a[:4] == b[:4] and (same_tok(a[4], b[4]) or (a[0] == "y" and not shown["exact"] and close_tok(a[4], b[4])))
                        for a, b in zip(evs, wantev))):
                    self.find("monitor", "VerboseMonitor/printed-lines-wrong",
                              "%s (all=%r, yinterval=%r, xinterval=%r, %d records before): printed %s, expected %s"
                              % (desc, allf, o["yint"], o["xint"], n0, show(evs), show(wantev)))
                self.h("callv:printed", len(evs))
            self.emit("(callv %d %s %s %s %s %d %s %s %s)" % (r, tstr(tx), tstr(ty), idtok(i), "true" if allf else "false", best,
                                                           "true" if kflag else "false", str(o["yint"] or "none"), str(o["xint"] or "none")),
                      exp, desc)
            self.h("callv:all=%s" % allf)
            if best != 0:
                self.h("callv:best!=0")
            if kflag:
                self.h("callv:k=True")
        if wrote:
            self.wslots.append((len(self.expect) - 1, shown if shown_ok else dict(rc), n0, i, verbose))
        self.h("call:x-" + xform); self.h("call:y-" + yform)
        if k is not None:
            self.h("call:k-exact" if kexact(k) else "call:k-rounding")
        if any(v != v or math.isinf(v) for v in leaves(ty) + leaves(tx)):
            self.h("call:inf/nan")

    def op_info(self, r):
        n = self.rng.randint(0, 99)
        with quiet():
            self.regs[r].info("msg%d" % n)
        self.emit("(info %d %d)" % (r, n), "u", "r%d.info('msg%d')" % (r, n))

    def op_len(self, r):
        n = len(self.regs[r])
        self.emit("(len %d)" % r, ["n", str(n)], "len(r%d) -> %d" % (r, n))
        self.check_reg(r, "len(r%d)" % r)

    def op_get(self, r):
        rng = self.rng
        n = len(self.recs[r])
        i = rng.randint(-n - 2, n + 1)
        if rng.random() < 0.2:
            i = rng.choice([0, -1, n - 1, n, -n, -n - 1])
        idx = np.int64(i) if rng.random() < 0.2 else i
        try:
            p = self.regs[r][idx]
            exp = ["p", pv_of(p[0]), pv_of(p[1])]
            ok = True
        except IndexError:
            exp = ["e", "index"]; ok = False
        self.emit("(get %d %d)" % (r, i), exp, "r%d[%d] -> %s" % (r, i, show(exp)))
        self.h("get:ok" if ok else "get:IndexError")
        # the property: the i-th recorded triple, unchanged
        valid = -n <= i < n
        if ok != valid:
            self.find("monitor", "Monitor.__getitem__/int/bounds", "r[%d] with %d records: %s" % (i, n, "returned" if ok else "IndexError"))
        elif ok:
            rc = self.recs[r][i]
            if not same_tok(exp[1], rc["x"]):
                self.find("monitor", "Monitor.__getitem__/int/x-wrong", "r[%d] parameters %s, recorded %s" % (i, show(exp[1]), show(rc["x"])))
            if not same_tok(exp[2], rc["y"]) and (rc["exact"] or not close_tok(exp[2], rc["y"])):
                self.find("monitor", "Monitor.__getitem__/int/y-wrong", "r[%d] cost %s, recorded %s" % (i, show(exp[2]), show(rc["y"])))

    def unchanged(self, r, before, what):
        after = self.snapshot(self.regs[r])
        if not same_tok(before, after):
            self.find("monitor", "%s/alters-argument" % what, "%s changed its argument r%d: before %s after %s" % (what, r, show(before), show(after)))

    def derive(self, d, r, res, rcs, opname):
        old = self.regs[r]
        self.regs[d] = res; self.recs[d] = rcs; self.kk[d] = self.kk[r]; self.iv[d] = self.iv[r]
        self.cls[d] = self.cls[r]; self.last[d] = opname; self.opt[d] = dict(self.opt[r])
        return old

    def op_slice(self, d, r):
        rng = self.rng
        n = len(self.recs[r])

        def bound():
            return None if rng.random() < 0.3 else rng.randint(-n - 2, n + 2)
        s, e = bound(), bound()
        t = rng.choice([None, None, 1, 1, 2, 3, -1, -1, -2, -3, 0])
        src = self.regs[r]; before = self.snapshot(src)
        desc = "r%d = r%d[%r:%r:%r]" % (d, r, s, e, t)
        try:
            with quiet():
                res = src[slice(s, e, t)]
        except ValueError:
            self.emit("(slice %d %d %s %s %s)" % (d, r, idtok(s), idtok(e), idtok(t)), ["e", "value"], desc + " -> ValueError")
            self.h("slice:step0")
            if t != 0:
                self.find("monitor", "Monitor.__getitem__/slice/raises", desc + " raised ValueError")
            return
        rcs = [dict(rc) for rc in self.recs[r][slice(s, e, t)]]
        self.h("alias:slice-shares-entries", int(any(p is q for p in res.x for q in src.x if isinstance(p, list))))
        self.derive(d, r, res, rcs, "slice")
        self.emit("(slice %d %d %s %s %s)" % (d, r, idtok(s), idtok(e), idtok(t)), "u", desc)
        after = self.snapshot(src)
        if not same_tok(before, after):
            self.find("monitor", "Monitor.__getitem__/slice/alters-argument", desc + " changed the sliced monitor")
        self.h("slice:step%s" % ("+" if (t or 1) > 0 else "-")); self.h("slice:empty" if not rcs else "slice:nonempty")
        self.check_reg(d, desc)

    def op_lidx(self, d, r):
        rng = self.rng
        n = len(self.recs[r])
        cnt = rng.randint(0, n + 1)
        idx = [rng.randint(-n, n - 1) if n else 0 for _ in range(cnt)]
        if rng.random() < 0.15 and cnt:
            idx[rng.randrange(cnt)] = rng.choice([n, -n - 1, n + 3])
        obj = np.array(idx, dtype=int) if rng.random() < 0.4 else list(idx)
        src = self.regs[r]; before = self.snapshot(src)
        desc = "r%d = r%d[%r]" % (d, r, obj)
        op = "(lidx %d %d (%s))" % (d, r, " ".join(str(i) for i in idx))
        self.fancy(d, r, src, before, obj, op, desc, lambda rcs: [dict(rcs[i]) for i in idx], all(-n <= i < n for i in idx), "lidx")

    def op_mask(self, d, r):
        rng = self.rng
        n = len(self.recs[r])
        ln = n if rng.random() < 0.85 else max(0, n + rng.choice([-1, 1]))
        mask = [rng.random() < 0.5 for _ in range(ln)]
        if not mask:
            return self.op_lidx(d, r)      # an empty list is an integer index for numpy
        obj = np.array(mask, dtype=bool) if rng.random() < 0.4 else list(mask)
        src = self.regs[r]; before = self.snapshot(src)
        desc = "r%d = r%d[%r]" % (d, r, obj)
        op = "(mask %d %d (%s))" % (d, r, " ".join("true" if b else "false" for b in mask))
        self.fancy(d, r, src, before, obj, op, desc, lambda rcs: [dict(rc) for rc, b in zip(rcs, mask) if b], ln == n, "mask")

    def fancy(self, d, r, src, before, obj, op, desc, select, index_valid, name):
        try:
            with quiet():
                res = src[obj]
        except IndexError:
            self.emit(op, ["e", "index"], desc + " -> IndexError"); self.h(name + ":IndexError")
            return
        except ValueError:
            self.emit(op, ["e", "value"], desc + " -> ValueError (inhomogeneous entries)"); self.h(name + ":ValueError")
            return
        if not index_valid:
            self.find("monitor", "Monitor.__getitem__/%s/bounds" % name, desc + " succeeded with an out-of-range index")
        rcs = select(self.recs[r])
        self.derive(d, r, res, rcs, name)
        self.emit(op, "u", desc)
        after = self.snapshot(src)
        if not same_tok(before, after):
            self.find("monitor", "Monitor.__getitem__/%s/alters-argument" % name, desc + " changed the indexed monitor")
        self.h(name + ":ok")
        self.check_reg(d, desc)

    def op_add(self, d, a, b):
        ma, mb = self.regs[a], self.regs[b]
        ba, bb = self.snapshot(ma), self.snapshot(mb)
        desc = "r%d = r%d + r%d" % (d, a, b)
        with quiet():
            res = ma + mb
        rcs = [dict(rc) for rc in self.recs[a]] + self.moved(self.recs[b], self.kk[a], self.kk[b])
        self.h("alias:add-shares-entries-of-right-operand", int(any(p is q for p in res.x for q in mb.x if isinstance(p, list))))
        self.h("alias:add-shares-entries-of-left-operand", int(any(p is q for p in res.x for q in ma.x if isinstance(p, list))))
        self.derive(d, a, res, rcs, "add")
        if self.opt[d]["npts"] is not None and res._npts is None and self.cls[d] in ("LoggingMonitor", "VerboseLoggingMonitor"):
            # the deep copy of a logging monitor goes through __reduce__, whose state has no `_npts`
            self.find("monitor", KEY_NPTS, "%s: the left operand was built with npts=%r, the sum has npts=None" % (desc, self.opt[d]["npts"]))
            self.opt[d]["npts"] = None
        self.emit("(add %d %d %d)" % (d, a, b), "u", desc)
        if not same_tok(ba, self.snapshot(ma)):
            self.find("monitor", "Monitor.__add__/alters-left-operand", desc + " changed its left operand")
        if not same_tok(bb, self.snapshot(mb)):
            self.find("monitor", "Monitor.__add__/alters-right-operand", desc + " changed its right operand")
        self.h("add:k-%s" % kclass(self.kk[a], self.kk[b]))
        self.check_reg(d, desc)

    def op_ext(self, a, b, name):
        ma, mb = self.regs[a], self.regs[b]
        bb = self.snapshot(mb)
        desc = "r%d.%s(r%d)" % (a, name, b)
        with quiet():
            getattr(ma, name)(mb)
        mv = self.moved(self.recs[b], self.kk[a], self.kk[b])
        self.recs[a] = (self.recs[a] + mv) if name == "extend" else (mv + self.recs[a])
        self.last[a] = name
        self.emit("(%s %d %d)" % (name, a, b), "u", desc)
        if not same_tok(bb, self.snapshot(mb)):
            self.find("monitor", "Monitor.%s/alters-argument" % name, desc + " changed its argument")
        self.h("%s:k-%s" % (name, kclass(self.kk[a], self.kk[b])))
        self.h("%s:%s" % (name, "empty-arg" if not mv else "nonempty-arg"))
        self.check_reg(a, desc)

    # -------------------------------------------------- tuple indices, accessor views, measure views
    def gen_sel(self, L, zero_ok=False):
        """one component of a tuple index for an axis of length L: (token, python object)"""
        rng = self.rng
        kind = rng.choice(["int", "slice", "slice", "slice", "list", "list", "tup"])
        if kind == "int":
            i = rng.randint(-L - 1, L)
            return "(i %d)" % i, (np.int64(i) if rng.random() < 0.2 else i), kind
        if kind == "slice":
            def b():
                return None if rng.random() < 0.45 else rng.randint(-L - 2, L + 2)
            s_, e_ = b(), b(); t = rng.choice([None, None, None, 1, 2, -1, -2, 3])
            return "(s %s %s %d)" % (idtok(s_), idtok(e_), t or 1), slice(s_, e_, t), kind
        cnt = rng.choice([0, 1, 1, 2, 2, 3])
        items = [rng.randint(-L, L - 1) if L else 0 for _ in range(cnt)]
        if cnt and rng.random() < 0.12:
            items[rng.randrange(cnt)] = rng.choice([L, -L - 1, L + 2])
        if kind == "list":
            obj = np.array(items, dtype=int) if rng.random() < 0.3 else list(items)
            return "(l %s)" % " ".join(str(v) for v in items), obj, kind
        return "(p %s)" % " ".join(str(v) for v in items), tuple(items), kind

    def op_tidx(self, r):
        rng = self.rng
        m = self.regs[r]; recs = self.recs[r]; n = len(recs)
        shapes = {rc["x"][0] for rc in recs}
        dimx = (len(recs[0]["x"]) - 1) if recs and recs[0]["x"][0] == "v" else self.dim
        nn = rng.choice([1, 2, 2, 2, 2, 2, 3, 0])
        if "m" in shapes and nn == 3:
            nn = 2                                # a 3-tuple on 3-d parameters is outside the model
        comps = [self.gen_sel(n if a == 0 else dimx) for a in range(nn)]
        zero = bool(nn) and rng.random() < 0.04
        if zero:                                  # a zero step, everything else valid: the ValueError is the only error
            comps = [("(s none none 1)", slice(None), "slice") for _ in range(nn)]
            comps[rng.randrange(nn)] = ("(s none none 0)", slice(None, None, 0), "slice")
        idx = tuple(c[1] for c in comps)
        before = self.snapshot(m)
        desc = "r%d[%r]" % (r, idx)
        res = None
        try:
            with quiet():
                res = m[idx]
            exp = ["t", nest_tok(res.x, ftok), nest_tok(res.y, ftok), nest_tok(res.id, idtok)]
        except IndexError:
            exp = ["e", "index"]
        except ValueError:
            exp = ["e", "value"]
        except AttributeError:
            exp = ["e", "attr"]
        self.emit("(tidx %d (%s))" % (r, " ".join(c[0] for c in comps)), exp, desc + " -> " + show(exp))
        self.h("tidx:%s" % (exp[1] if exp[0] == "e" else "ok"))
        self.h("tidx:len%d:%s" % (nn, "+".join(c[2] for c in comps[:2])))
        if not same_tok(before, self.snapshot(m)):
            self.find("monitor", "Monitor.__getitem__/tuple/alters-argument", desc + " changed the indexed monitor")
        # the property, evaluated from the oracle: rows selected by the first component, columns by the second
        kinds = [c[2] for c in comps]
        rect = n > 0 and shapes == {"v"} and len({len(rc["x"]) for rc in recs}) == 1 and all(rc["y"][0] == "s" for rc in recs)
        paired = nn == 2 and kinds[0] in ("list", "tup") and kinds[1] in ("list", "tup")
        if rect and not zero and nn in (1, 2) and kinds[0] in ("slice", "list") and not paired and (nn == 1 or kinds[1] != "tup"):
            def inr(j, L):
                return -L <= int(j) < L
            a = idx[0]
            want = None
            if isinstance(a, slice):
                rows = recs[a]
            else:
                rows = [recs[int(j)] for j in a] if all(inr(j, n) for j in a) else None
            if rows is not None:
                if nn == 1:
                    want = [rc["x"] for rc in rows]
                elif kinds[1] == "int":
                    if inr(idx[1], dimx):
                        want = [["s", rc["x"][1:][int(idx[1])]] for rc in rows]
                elif kinds[1] == "slice":
                    want = [["v"] + rc["x"][1:][idx[1]] for rc in rows]
                elif all(inr(j, dimx) for j in idx[1]):
                    want = [["v"] + [rc["x"][1:][int(j)] for j in idx[1]] for rc in rows]
            if (want is None) != (exp == ["e", "index"]):
                self.find("monitor", "Monitor.__getitem__/tuple/bounds", "%s on %d records of dimension %d gave %s" % (desc, n, dimx, show(exp)))
            elif want is not None:
                gotx = [pv_of(v) for v in res.x] if isinstance(res.x, list) else None
                if gotx is None or not same_tok(gotx, want):
                    self.find("monitor", "Monitor.__getitem__/tuple/x-not-the-projection", "%s: parameters %s, the recorded rows/columns are %s" % (desc, show(exp[1]), show(want)))
                if list(res.id) != [rc["id"] for rc in rows]:
                    self.find("monitor", "Monitor.__getitem__/tuple/id-wrong", "%s: ids %r, recorded %r" % (desc, res.id, [rc["id"] for rc in rows]))
                ys = res.y
                if len(ys) != len(rows) or any(not same_tok(pv_of(v), rc["y"]) and (rc["exact"] or not close_tok(pv_of(v), rc["y"])) for v, rc in zip(ys, rows)):
                    self.find("monitor", "Monitor.__getitem__/tuple/y-wrong", "%s: costs %r, recorded %s" % (desc, ys, show([rc["y"] for rc in rows])))
                self.h("tidx:oracle-checked")

    def op_views(self, r):
        m = self.regs[r]
        def arr(f):
            try:
                return [pv_of(v) for v in f().tolist()]
            except ValueError:
                return ["e", "value"]
        gx = [pv_of(v) for v in m.get_x()]; gy = [pv_of(v) for v in m.get_y()]
        exp = ["vw", gx, arr(lambda: m.ax), gy, arr(lambda: m.ay), [idtok(i) for i in m.get_id()],
               [s[3:] if s.startswith("msg") else s for s in m.get_info()]]
        self.emit("(views %d)" % r, exp, "views of r%d" % r)
        self.h("views:" + ("ragged" if exp[2] == ["e", "value"] or exp[4] == ["e", "value"] else "ok"))
        # the iterator variants and the properties are the same projections
        if not same_tok([pv_of(v) for v in m.ix], gx) or not same_tok([pv_of(v) for v in m.x], gx):
            self.find("monitor", "Monitor.ix/differs-from-get_x", "views of r%d" % r)
        if not same_tok([pv_of(v) for v in m.iy], gy) or not same_tok([pv_of(v) for v in m.y], gy):
            self.find("monitor", "Monitor.iy/differs-from-get_y", "views of r%d" % r)
        if list(m.id) != list(m.get_id()):
            self.find("monitor", "Monitor.id/differs-from-get_id", "views of r%d" % r)
        self.check_reg(r, "views of r%d" % r)

    def op_mview(self, r):
        m = self.regs[r]; npts = self.opt[r]["npts"]; recs = self.recs[r]
        if any(rc["x"][0] == "m" for rc in recs):
            return                                # `[:, cols]` on 3-d parameters selects matrix rows: outside the model
        # the model mirrors get_ipos / the reshape as they are (finding C20-K6).  Should /repo repair them, the model's
        # non-uniform branch no longer describes the code: then only the property itself is checked for non-uniform npts
        compare_model = not (npts and len(set(npts)) > 1) or pos_defect_present()
        if m._npts != npts:
            self.find("monitor", "Monitor._npts/lost", "r%d was built with npts=%r, now has %r (after %s)" % (r, npts, m._npts, self.last[r]))
            return
        def view(name):
            try:
                v = getattr(m, name)
                return "none" if v is None else nest_tok(v, ftok)
            except IndexError:
                return ["e", "index"]
            except ValueError:
                return ["e", "value"]
        exp = ["mv", view("wts"), view("pos")]
        if compare_model:
            self.emit("(mview %d %s)" % (r, "none" if npts is None else "(%s)" % " ".join(str(v) for v in npts)), exp,
                      "r%d.wts, r%d.pos (npts=%r) -> %s" % (r, r, npts, show(exp)))
        else:
            self.h("mview:non-uniform-npts-not-compared-with-the-model(defect repaired)")
        self.h("mview:" + ("none" if npts is None else "err" if isinstance(exp[1], list) and exp[1][:1] == ["e"] else "ok"))
        # the property: for a trajectory laid out like product_measure.flatten ([w_0.., x_0.., w_1.., x_1.., ...]) the
        # two views are the weight / position blocks of every record
        if npts and recs and all(rc["x"][0] == "v" and len(rc["x"]) - 1 == 2 * sum(npts) for rc in recs):
            ww, pp = [], []
            for rc in recs:
                v = rc["x"][1:]; off = 0; w1, p1 = [], []
                for nn_ in npts:
                    w1.append(v[off:off + nn_]); p1.append(v[off + nn_:off + 2 * nn_]); off += 2 * nn_
                ww.append(w1); pp.append(p1)
            if not (same_tok(exp[1], ww) and same_tok(exp[2], pp)):
                if len(set(npts)) > 1:
                    self.find("monitor", KEY_POS, "Monitor(npts=%r): wts=%s pos=%s, the weight / position blocks of the records are %s / %s"
                              % (npts, show(exp[1]), show(exp[2]), show(ww), show(pp)))
                else:
                    self.find("monitor", "Monitor.wts-pos/not-the-blocks", "Monitor(npts=%r): wts=%s pos=%s, the blocks are %s / %s"
                              % (npts, show(exp[1]), show(exp[2]), show(ww), show(pp)))
            self.h("mview:oracle-checked")

    def op_null(self, a):
        """extend/prepend with Null / a non-monitor: implementation-only (no model op)"""
        from mystic.monitors import Null
        rng = self.rng
        name = rng.choice(["extend", "prepend"])
        arg = rng.choice(["Null()", "Null", "bad"])
        m = self.regs[a]
        try:
            getattr(m, name)(Null() if arg == "Null()" else (Null if arg == "Null" else [1, 2]))
            if arg == "bad":
                self.find("monitor", "Monitor.%s/non-monitor-accepted" % name, "r.%s([1, 2]) did not raise" % name)
        except TypeError:
            if arg != "bad":
                self.find("monitor", "Monitor.%s/Null-rejected" % name, "r.%s(%s) raised TypeError" % (name, arg))
        self.readable.append("r%d.%s(%s)" % (a, name, arg))
        self.h("malformed:%s-%s" % (name, arg))
        self.check_reg(a, "r%d.%s(%s)" % (a, name, arg))

    def op_min(self, r):
        m = self.regs[r]
        desc = "r%d.min()" % r
        try:
            with quiet():
                p = m.min()
            exp = ["p", pv_of(p[0]), pv_of(p[1])]
        except ValueError:
            exp = ["e", "value"]
        self.emit("(min %d)" % r, exp, desc + " -> " + show(exp))
        self.h("min:" + ("empty" if exp[0] == "e" else "ok"))
        rec = self.recs[r]
        if bool(rec) != (exp[0] == "p"):
            self.find("monitor", "Monitor.min/emptiness", desc + " with %d records gave %s" % (len(rec), show(exp)))
        elif rec:
            ys = [float(v) for v in m.y]
            if not any(v != v for v in ys):
                got = b2f(exp[2][1])
                if got != min(ys) or not any(same_tok(exp[1], pv_of(xx)) and float(yy) == got for xx, yy in zip(m.x, ys)):
                    self.find("monitor", "Monitor.min/not-the-minimum", desc + " returned %s but the costs are %r" % (show(exp), ys))

    def op_dump(self, r):
        m = self.regs[r]
        snap = self.snapshot(m)
        if snap[0] == "unsupported":
            self.find("monitor", "Monitor/entry-shape/after-%s" % self.last[r], "dump r%d: %s" % (r, snap[1]))
            self.dead = True
            return
        exp = ["d", snap[0], snap[1], snap[2], [s[3:] if s.startswith("msg") else s for s in snap[3]], snap[4]]
        self.emit("(dump %d)" % r, exp, "dump r%d (%d entries, k=%r)" % (r, len(m), m.k))
        self.check_reg(r, "dump r%d" % r)

    # -------------------------------------------------- files
    def fresh(self, kind):
        self.nfile += 1
        return os.path.join(self.tmpdir, "c20f_%s_%d_%s.py" % (self.tag, self.nfile, kind))

    def file_tokens(self, res, depth3):
        ids, params, cost = res
        if ids is None:
            tid = "none"
        else:
            tid = [[str(int(t[0]))] if len(t) == 1 else [str(int(t[0])), idtok(t[1])] for t in ids]
        if depth3:
            tp = [[[f2b(float(u)) for u in cell] for cell in row] for row in params]
        else:
            tp = [pv_of(p) for p in params]
        return ["f", tid, tp, [pv_of(c) for c in cost]]

    def cost_check(self, writer, r, costs, k, scaled_twice_possible):
        rec = self.recs[r]
        if len(costs) != len(rec):
            self.find("monitor", "%s/cost-count" % writer, "%s: %d costs read back, %d recorded" % (writer, len(costs), len(rec)))
            return
        for i, (c, rc) in enumerate(zip(costs, rec)):
            tc = pv_of(c)
            if same_tok(tc, rc["y"]):
                continue
            if not rc["exact"] and close_tok(tc, rc["y"]):
                continue                                   # rounding of the k-scaling: reported through Monitor.y (F13)
            if scaled_twice_possible and k is not None and float(k) != 1.0:
                # strongest true variant inside the known class: the file holds recorded/k (up to rounding)
                back = [v * float(k) for v in leaves(tc)]
                want = leaves(rc["y"])
                if len(back) == len(want) and all(close_float(p, q) or (abs(q) < 1e-290 or abs(q) > 1e290) for p, q in zip(back, want)):
                    self.find("monitor", KEY_D1 % writer, "%s of a monitor with k=%r: cost %d read back as %s, recorded %s (divided by k once more)"
                              % (writer, k, i, show(tc), show(rc["y"])))
                    return
            self.find("monitor", "%s/cost-wrong" % writer, "%s (k=%r): cost %d read back as %s, recorded %s" % (writer, k, i, show(tc), show(rc["y"])))
            return

    def ids_check(self, site, steps, rec):
        """the property on the `iter` list a reader returns for the records `rec`: the id recorded with every entry
        comes back with it, and the iteration number of an entry counts the earlier entries with the same id"""
        want = [rc["id"] for rc in rec]
        if steps is None:
            if rec:
                self.find("monitor", "%s/iterations-count" % site, "no iteration entries for %d recorded iterations (ids %r)" % (len(rec), want))
            return
        try:
            if len(steps) != len(rec):
                return                        # reported as iterations-count by the caller
            col = c20_ids.id_column(steps, len(rec)); its = [int(tuple(t)[0]) for t in steps]
        except Exception as exc:
            self.find("monitor", "%s/iter-entries-unreadable" % site, "iter list %r (%r)" % (steps, exc))
            return
        icl = c20_ids.idclass(want)
        self.h("files:ids:" + icl)
        if col != want:
            self.find("monitor", "%s/ids-changed/%s" % (site, icl), "recorded ids %r, read back %r (iter list %r)" % (want, col, list(steps)))
        elif its != c20_ids.per_id_iter(want):
            self.find("monitor", "%s/iteration-numbers-wrong/%s" % (site, icl), "recorded ids %r: iteration numbers %r, expected one counter per id %r"
                      % (want, its, c20_ids.per_id_iter(want)))

    def op_files(self, r):
        from mystic import munge
        m = self.regs[r]; rec = self.recs[r]; k = self.kk[r]
        tainted = has_numpy(m._x) or has_numpy(m._y)
        vec_ok = all(rc["x"][0] == "v" and len(rc["x"]) > 1 for rc in rec)
        rect = vec_ok and len({len(rc["x"]) for rc in rec}) <= 1
        before = self.snapshot(m)
        plans = [("write_raw_file", "wraw", False)]
        if vec_ok:
            plans += [("write_support_file", "wsup", True), ("write_converge_file", "wconv", True)]
        for writer, opname, d3 in plans:
            path = self.fresh(opname)
            try:
                with quiet():
                    getattr(munge, writer)(m, path)
                    importlib.invalidate_caches()     # importlib's documented duty of whoever creates modules at run time
                    res = munge.read_raw_file(path, iter=True)
            except NameError as exc:
                if tainted:
                    self.find("monitor", KEY_D2 % writer, "%s of a monitor that recorded numpy scalars wrote %r; read_raw_file raised %r"
                              % (writer, open(path).read().splitlines()[-2][:80], exc))
                    self.h("files:%s:numpy-unreadable" % opname)
                else:
                    self.find("monitor", "%s/unreadable" % writer, "read_raw_file raised %r" % (exc,))
                continue
            except Exception as exc:
                if mixed_costs(m) and isinstance(exc, AttributeError) and "tolist" in str(exc):
                    self.find("monitor", KEY_D4 % writer, "%s of a monitor whose first cost is a numpy scalar and a later one a python number raised %r" % (writer, exc))
                    self.h("files:%s:mixed-cost-types-raise" % opname)
                else:
                    self.find("monitor", "%s/raises" % writer, "%s / read_raw_file raised %r" % (writer, exc))
                continue
            finally:
                forget_module(path)
            try:
                exp = self.file_tokens(res, d3)
            except Exception as exc:
                self.find("monitor", "%s/shape" % writer, "unexpected structure read back: %r (%r)" % (res, exc))
                continue
            self.emit("(%s %d)" % (opname, r), exp, "%s(r%d) -> read_raw_file -> %s" % (writer, r, show(exp)))
            self.h("files:%s:%s" % (opname, "empty" if not rec else "nonempty"))
            # the property on the implementation: same trajectory, same costs
            ids, params, cost = res
            # one (iteration, id) entry per recorded iteration, whatever the file format
            try:
                nid = len(ids) if ids is not None else None
            except TypeError:
                nid = None
            if nid is not None and nid != len(rec) and not (opname == "wsup" and not rect):
                self.find("monitor", "%s/iterations-count" % writer, "read_raw_file(iter=True) of the %s output returns %d iteration entries %r for %d recorded iterations"
                          % (writer, nid, list(ids)[:6], len(rec)))
            self.ids_check("%s->read_raw_file" % writer, ids, rec)
            if opname == "wraw":
                tp = [pv_of(p) for p in params]
                if not same_tok(tp, [rc["x"] for rc in rec]):
                    self.find("monitor", "write_raw_file/params-wrong", "read back %s, recorded %s" % (show(tp), show([rc["x"] for rc in rec])))
                self.cost_check(writer, r, cost, k, False)
            else:
                if rect:
                    dim = len(rec[0]["x"]) - 1 if rec else 0
                    try:
                        if opname == "wsup":
                            dec = [["v"] + [f2b(float(params[j][i][0])) for j in range(dim)] for i in range(len(rec))]
                            okshape = len(params) == dim and all(len(row) == len(rec) and all(len(c) == 1 for c in row) for row in params)
                        else:
                            dec = [["v"] + [f2b(float(params[i][j][0])) for j in range(dim)] for i in range(len(rec))]
                            okshape = len(params) == len(rec) and all(len(row) == dim and all(len(c) == 1 for c in row) for row in params)
                    except Exception:
                        dec, okshape = None, False
                    if not okshape or not same_tok(dec, [rc["x"] for rc in rec]):
                        self.find("monitor", "%s/trajectory-wrong" % writer, "read back %r, recorded %s" % (params, show([rc["x"] for rc in rec])))
                    self.h("files:%s:decoded" % opname)
                elif rec:
                    # records of different dimension: the converge format keeps every step; the support format is a
                    # transposition (zip) and keeps only the first min(dimension) parameters of every record
                    wantx = [rc["x"] for rc in rec]
                    try:
                        if opname == "wconv":
                            dec = [["v"] + [f2b(float(c[0])) for c in row] for row in params]
                            if not same_tok(dec, wantx):
                                self.find("monitor", "%s/trajectory-wrong" % writer, "read back %r, recorded %s" % (params, show(wantx)))
                        else:
                            dmin = min(len(v) - 1 for v in wantx)
                            dec = [["v"] + [f2b(float(params[j][i][0])) for j in range(len(params))] for i in range(len(rec))]
                            if len(params) != dmin or not same_tok(dec, [v[:dmin + 1] for v in wantx]):
                                self.find("monitor", "%s/trajectory-wrong" % writer, "read back %r, recorded %s" % (params, show(wantx)))
                            else:
                                self.find("monitor", KEY_RAG, "%s of records with dimensions %r: only the first %d parameter(s) of every record are in the file"
                                          % (writer, [len(v) - 1 for v in wantx], dmin))
                    except Exception as exc:
                        self.find("monitor", "%s/trajectory-wrong" % writer, "read back %r (%r), recorded %s" % (params, exc, show(wantx)))
                    self.h("files:%s:ragged" % opname)
                self.cost_check(writer, r, cost, k, True)
        if not same_tok(before, self.snapshot(m)):
            self.find("monitor", "munge.write_*/alters-monitor", "writing r%d changed it" % r)
        if vec_ok:
            # read_history(monitor) vs the model, and read_history(support file) == read_history(monitor)
            try:
                with quiet():
                    res = munge.read_history(m, iter=True)
                exp = self.file_tokens(res, True)
                self.emit("(rhist %d)" % r, exp, "read_history(r%d, iter=True) -> %s" % (r, show(exp)))
                self.h("files:read_history(monitor)")
                self.ids_check("read_history(monitor)", res[0], rec)
                if rect and rec:
                    dim = len(rec[0]["x"]) - 1
                    dec = [["v"] + [f2b(float(res[1][j][i][0])) for j in range(dim)] for i in range(len(rec))]
                    if not same_tok(dec, [rc["x"] for rc in rec]):
                        self.find("monitor", "read_history(monitor)/trajectory-wrong", "read %r, recorded %s" % (res[1], show([rc["x"] for rc in rec])))
                self.cost_check("read_history(monitor)", r, res[2], k, False)
                if (k is None or float(k) == 1.0) and not tainted:
                    path = self.fresh("rh")
                    try:
                        with quiet():
                            munge.write_support_file(m, path)
                            importlib.invalidate_caches()
                            res2 = munge.read_history(path, iter=True)
                        if not same_tok(self.file_tokens(res2, True)[2:], exp[2:]):
                            self.find("monitor", "read_history(support file)/differs-from-monitor", "file: %r monitor: %r" % (res2, res))
                        self.h("files:read_history(support file)")
                    finally:
                        forget_module(path)
            except Exception as exc:
                if mixed_costs(m) and isinstance(exc, TypeError) and "not a monitor instance" in str(exc):
                    self.find("monitor", KEY_D4 % "read_history(monitor)", "read_history of a monitor whose first cost is a numpy scalar and a later one a python number raised %r" % (exc,))
                else:
                    self.find("monitor", "read_history/raises", "read_history raised %r" % (exc,))

    def finish_log(self):
        """read the case's log file back; fill the `w` slots; check the log round trip on the implementation"""
        from mystic import munge
        lines = []
        if not os.path.exists(self.logpath):
            if self.wslots:
                self.find("monitor", "logfile/missing", "log file missing")
            return lines
        text = open(self.logpath).read()
        lines = [l for l in text.split("\n")[:-1] if not l.startswith(("#", "inf =", "nan ="))]
        try:
            with quiet():
                step, param, cost = munge.logfile_reader(self.logpath, iter=True)
        except Exception as exc:
            self.find("monitor", "logfile_reader/raises", "logfile_reader raised %r on %r" % (exc, text[-300:]))
            return lines
        if len(step) != len(self.wslots):
            self.find("monitor", "logfile/row-count", "%d rows read back, %d lines were written" % (len(step), len(self.wslots)))
            return lines
        for (slot, rc, n0, i, verbose), st, pa, co in zip(self.wslots, step, param, cost):
            try:
                tx = pv_of(pa); ty = pv_of(co)
                st = tuple(st)
                stok = [str(int(st[0])), idtok(st[1]) if len(st) > 1 else "none"]
                okstep = len(st) in (1, 2) and (len(st) == 2) == (i is not None)
            except Exception as exc:
                self.find("monitor", "logfile/row-shape", "row %r %r %r (%r)" % (st, pa, co, exc))
                continue
            if verbose:
                self.expect[slot][1] = ["w", stok[0], stok[1], ty, tx]
            else:
                self.expect[slot] = ["w", stok[0], stok[1], ty, tx]
            wantx = rc["x"] if rc["x"][0] != "s" else ["v", rc["x"][1]]
            if not okstep or int(st[0]) != n0 or (i is not None and st[1] != i):
                self.find("monitor", "logfile/iteration-wrong", "row %r, written at iteration %d with id %r" % (st, n0, i))
            if not same_tok(tx, wantx):
                self.find("monitor", "logfile/params-wrong", "row %d: read %s, recorded %s" % (n0, show(tx), show(wantx)))
            if not same_tok(ty, rc["y"]) and (rc["exact"] or not close_tok(ty, rc["y"])):
                self.find("monitor", "logfile/cost-wrong", "row %d: read %s, recorded %s" % (n0, show(ty), show(rc["y"])))
            self.h("log:row");
            if any(v != v or math.isinf(v) for v in leaves(ty) + leaves(tx)):
                self.h("log:row-inf/nan")
            if has_numpy(pa) or has_numpy(co) or "np." in repr(pa) + repr(co):
                self.h("log:row-numpy-repr")
        # read_history on the log file: the same rows in support format
        rows = [rc for (_, rc, _, _, _) in self.wslots]
        if rows and all(rc["x"][0] == "v" and len(rc["x"]) == len(rows[0]["x"]) and len(rc["x"]) > 1 for rc in rows):
            try:
                with quiet():
                    ids, params, cost = munge.read_history(self.logpath, iter=True)
                dim = len(rows[0]["x"]) - 1
                dec = [["v"] + [f2b(float(params[j][i][0])) for j in range(dim)] for i in range(len(rows))]
                if not same_tok(dec, [rc["x"] for rc in rows]) or [tuple(t) for t in ids] != [tuple(t) for t in step]:
                    self.find("monitor", "read_history(logfile)/differs", "read_history gave %r %r" % (ids, params))
                self.h("log:read_history")
            except Exception as exc:
                self.find("monitor", "read_history(logfile)/raises", "raised %r" % (exc,))
        return lines

    def release(self):
        """after a MemoryError (a changed tree growing a list without end) the monitors still hold the huge lists:
        drop them, or every later allocation of this process fails too"""
        import gc
        self.regs = [None] * NREG
        gc.collect()
        _MEMERR[0] += 1

    # -------------------------------------------------- driver of one case
    def run(self):
        rng = self.rng
        # start: configure 1-3 registers
        for r in range(rng.randint(1, 3)):
            self.op_new(r)
            for _ in range(rng.randint(0, 4)):
                if not self.dead:
                    self.op_call(r)
        for _ in range(self.nops):
            if self.dead:
                break
            full = [q for q in range(NREG) if self.recs[q]] or [0]
            r = rng.choice(full) if rng.random() < 0.75 else rng.randrange(NREG)
            b = rng.choice(full) if rng.random() < 0.75 else rng.randrange(NREG)
            d = rng.randrange(NREG)
            kind = rng.choice(["call"] * 10 + ["len", "get", "get", "dump", "slice", "slice", "lidx", "mask", "add", "add",
                                             "extend", "extend", "prepend", "prepend", "min", "info", "new", "null",
                                             "tidx", "tidx", "tidx", "views", "mview", "mview"])
            try:
                if kind == "call":
                    self.op_call(rng.choice([r, 0, 0, 1]))
                elif kind == "len":
                    self.op_len(r)
                elif kind == "get":
                    self.op_get(r)
                elif kind == "dump":
                    self.op_dump(r)
                elif kind == "slice":
                    self.op_slice(d, r)
                elif kind == "lidx":
                    self.op_lidx(d, r)
                elif kind == "mask":
                    self.op_mask(d, r)
                elif kind == "add":
                    self.op_add(d, r, b)
                elif kind in ("extend", "prepend"):
                    if r != b:
                        self.op_ext(r, b, kind)
                elif kind == "min":
                    if all(rc["y"][0] == "s" for rc in self.recs[r]):
                        self.op_min(r)
                elif kind == "info":
                    self.op_info(r)
                elif kind == "new":
                    self.op_new(r)
                elif kind == "null":
                    self.op_null(r)
                elif kind == "tidx":
                    self.op_tidx(r)
                elif kind == "views":
                    self.op_views(r)
                elif kind == "mview":
                    self.op_mview(r)
            except Unsupported as exc:
                self.find("monitor", "Monitor/entry-shape/op-%s" % kind, "unexpected value shape %s" % exc)
                self.dead = True
            except Exception as exc:
                if isinstance(exc, MemoryError):
                    self.release()
                self.find("monitor", "Monitor/op-%s/raises" % kind, "operation %s raised %r (ops so far: %s)" % (kind, exc, self.readable[-3:]))
                self.dead = True
        try:
            if not self.dead:
                for r in range(NREG):
                    self.op_dump(r)
                    if self.dead:
                        break
            if not self.dead:
                order = sorted(range(NREG), key=lambda r: -len(self.recs[r]))
                for r in order[:2]:
                    self.op_files(r)
        except Exception as exc:
            self.find("monitor", "Monitor/final-dump-or-files/raises", "raised %r" % (exc,))
            self.dead = True
        try:
            lines = self.finish_log()
        except Exception as exc:
            self.find("monitor", "logfile/readback-raises", "raised %r" % (exc,))
            lines = []
        return lines


_POS_DEFECT = []


def pos_defect_present():
    """does this mystic still select the position columns with the offset npts[0] (finding C20-K6)?"""
    if not _POS_DEFECT:
        from mystic.monitors import Monitor
        _POS_DEFECT.append(list(Monitor(npts=(2, 3))._pos) == [2, 3, 6, 7, 8])
    return _POS_DEFECT[0]


def mixed_costs(m):
    """raw_to_converge looks at `energy[0]` only: first cost has `.tolist`, a later one does not"""
    ys = m.y
    return len(ys) > 1 and hasattr(ys[0], "tolist") and any(not hasattr(v, "tolist") for v in ys[1:])


def kclass(ka, kb):
    if ka is None and kb is None:
        return "none"
    if kexact(ka) and kexact(kb):
        return "exact"
    return "rounding"


def show(t, limit=400):
    """token tree with floats shown in decimal (messages only)"""
    def s(u):
        if isinstance(u, str):
            return repr(b2f(u)) if is_ftok(u) else u
        return "(" + " ".join(s(v) for v in u) + ")"
    out = s(t)
    return out if len(out) <= limit else out[:limit] + "..."


_DEVNULL = open(os.devnull, "w")


def quiet():
    return contextlib.redirect_stdout(_DEVNULL)


def forget_module(path):
    sys.modules.pop(os.path.splitext(os.path.basename(path))[0], None)
    try:
        os.remove(path)       # keep the directory small (importlib lists it on every change)
    except OSError:
        pass


def nops_for(rng, tier):
    return rng.choice([4, 8, 12, 16, 24]) if tier == "quick" else rng.choice([4, 8, 16, 24, 40])


def run_driver_retry(lines, tries=90):
    """another builder's `lake build` re-links mvdrv (the file is briefly missing / being written): wait and retry"""
    for t in range(tries):
        try:
            return leandrv.run_driver(lines)
        except (FileNotFoundError, PermissionError, OSError, leandrv.DriverError):
            if t == tries - 1:
                raise
            time.sleep(2.0)


_MEMERR = [0]       # MemoryErrors met in this process: after a few the failing input is known, the rest of the shard is skipped


def limit_memory():
    """a changed tree may loop while growing a list (e.g. a monitor extended with itself): turn that into a
    MemoryError inside the case (reported as a finding) instead of exhausting the machine.  Returns the limits to
    restore before the model driver is started (the Lean runtime reserves address space for its threads)."""
    try:
        import resource
        vm = 0
        for l in open("/proc/self/status"):
            if l.startswith("VmSize:"):
                vm = int(l.split()[1]) * 1024
        lim = vm + (3 << 29)       # 1.5 GB above the start: a shard needs a few hundred MB
        soft, hard = resource.getrlimit(resource.RLIMIT_AS)
        if soft == resource.RLIM_INFINITY or soft > lim:
            resource.setrlimit(resource.RLIMIT_AS, (lim, hard))
        return (soft, hard)
    except Exception:
        return None


def unlimit_memory(orig):
    try:
        import resource
        if orig is not None:
            resource.setrlimit(resource.RLIMIT_AS, orig)
    except Exception:
        pass


def proc_tmpdir():
    """ONE directory per process (re-created for every shard): munge.read_import appends '.' to sys.path and
    chdir()s, and importlib caches the finder of '.' with the first directory it resolved to, so in a process
    whose sys.path has no '' entry only the first directory ever read from works (finding C20-K5, reproduced
    in a fresh interpreter by witnesses())."""
    d = os.path.join(tempfile.gettempdir(), "c20_%d" % os.getpid())
    sys.path_importer_cache.pop(".", None)      # a finder inherited from the parent process / an earlier witness run
    shutil.rmtree(d, ignore_errors=True)
    os.makedirs(d)
    return d


def run_case(seed, shard, k, tier, tmpdir):
    rng = case_rng(PID, seed, shard, k)
    c = Case(rng, tmpdir, "s%d_%d_%d" % (seed, shard, k), nops_for(rng, tier))
    lines = c.run()
    return c, lines


def codes(s):
    return "(" + " ".join(str(ord(ch)) for ch in s) + ")"


def gen_split_string(rng):
    n = rng.randint(0, 24)
    return "".join(rng.choice("    a1,[](.") for _ in range(n))


# ------------------------------------------------------------------ aliasing: heap programs (Model/MonitorHeap)
HREG = 6      # registers 0-3: monitors; 4: the solver's generation-monitor slot; 5: its evaluation-monitor slot


def run_hprog(rng, nops):
    """a random program over monitor OBJECTS, replayed on real monitors and a real solver's monitor slots.
    The oracle keeps, per object identity, the list of records it must hold: an operation may write only its
    receiver, a result is a new identity.  At the end every register is dumped and then PROBED (one more record
    and one info line through it): exactly the registers holding the same object may grow.
    returns (request line, expected tokens, findings, readable, hist)"""
    from mystic.monitors import Monitor
    from mystic.solvers import NelderMeadSimplexSolver
    dim = rng.choice([1, 2, 3])
    solver = NelderMeadSimplexSolver(dim)
    solver.SetEvaluationMonitor(Monitor())          # the slot starts as an empty Monitor (a fresh solver holds Null())
    regs = [Monitor() for _ in range(4)] + [solver._stepmon, solver._evalmon]
    ident = list(range(HREG)); nxt = [HREG]
    recs = {i: [] for i in range(HREG)}; infos = {i: [] for i in range(HREG)}; kk = {i: None for i in range(HREG)}
    ops, exp, readable, fs, hist = [], [], [], [], {}

    def h(key, n=1):
        hist[key] = hist.get(key, 0) + n

    def fresh(k):
        t = nxt[0]; nxt[0] += 1
        recs[t] = []; infos[t] = []; kk[t] = k
        return t

    def sync():
        regs[4] = solver._stepmon; regs[5] = solver._evalmon

    def moved(rcs, ka, kb):
        return [dict(rc) for rc in rcs]             # exact k's and dyadic costs: the value read back is unchanged

    def emit(op, e, text):
        ops.append(op); exp.append(e); readable.append(text)

    def gen_call():
        x = [dyadic(rng, -8, 8, 6) for _ in range(dim)]
        form = rng.choice(["list", "list", "tuple", "ndarray"])
        xo = x if form == "list" else tuple(x) if form == "tuple" else np.array(x)
        y = dyadic(rng, -8, 8, 6)
        i = None if rng.random() < 0.6 else rng.randint(0, 3)
        return xo, y, i, pv_of(x), pv_of(y)

    for _ in range(nops):
        kind = rng.choice(["call"] * 8 + ["new", "slice", "slice", "lidx", "add", "add", "add", "extend", "extend", "prepend", "prepend",
                                         "min", "get", "info", "handover", "handover", "handover", "handnull"])
        r = rng.randrange(HREG); b = rng.randrange(HREG); d = rng.randrange(4)
        try:
            if kind == "call":
                xo, y, i, tx, ty = gen_call()
                regs[r](xo, y, i) if i is not None else regs[r](xo, y)
                recs[ident[r]].append({"x": tx, "y": ty, "id": i})
                emit("(call %d %s %s %s)" % (r, tstr(tx), tstr(ty), idtok(i)), "u", "r%d(%r, %r, %r)" % (r, xo, y, i))
            elif kind == "new":
                k = rng.choice([None, None, 2, 0.5, -1, 4.0])
                regs[d] = Monitor() if k is None else Monitor(k=k)
                ident[d] = fresh(k)
                emit("(new %d %s)" % (d, ktok(k)), "u", "r%d = Monitor(k=%r)" % (d, k))
            elif kind == "info":
                n = rng.randint(0, 99)
                regs[r].info("msg%d" % n); infos[ident[r]].append(str(n))
                emit("(info %d %d)" % (r, n), "u", "r%d.info('msg%d')" % (r, n))
            elif kind == "slice":
                n = len(recs[ident[r]])
                bd = lambda: None if rng.random() < 0.3 else rng.randint(-n - 1, n + 1)
                s_, e_, t = bd(), bd(), rng.choice([None, None, 1, 2, -1])
                res = regs[r][slice(s_, e_, t)]
                tk = fresh(kk[ident[r]]); recs[tk] = [dict(rc) for rc in recs[ident[r]][slice(s_, e_, t)]]
                regs[d] = res; ident[d] = tk
                emit("(slice %d %d %s %s %s)" % (d, r, idtok(s_), idtok(e_), idtok(t)), "u", "r%d = r%d[%r:%r:%r]" % (d, r, s_, e_, t))
            elif kind == "lidx":
                n = len(recs[ident[r]])
                idx = [rng.randint(-n, n - 1) for _ in range(rng.randint(0, n + 1))] if n else []
                res = regs[r][list(idx)]
                tk = fresh(kk[ident[r]]); recs[tk] = [dict(recs[ident[r]][j]) for j in idx]
                regs[d] = res; ident[d] = tk
                emit("(lidx %d %d (%s))" % (d, r, " ".join(str(j) for j in idx)), "u", "r%d = r%d[%r]" % (d, r, idx))
            elif kind == "add":
                res = regs[r] + regs[b]
                tk = fresh(kk[ident[r]])
                recs[tk] = [dict(rc) for rc in recs[ident[r]]] + moved(recs[ident[b]], kk[ident[r]], kk[ident[b]])
                infos[tk] = list(infos[ident[r]]) + list(infos[ident[b]])
                regs[d] = res; ident[d] = tk
                emit("(add %d %d %d)" % (d, r, b), "u", "r%d = r%d + r%d" % (d, r, b))
                h("heap:add-%s" % ("self" if ident[r] == ident[b] else "other"))
            elif kind in ("extend", "prepend"):
                if ident[r] == ident[b]:
                    continue                       # never with itself
                getattr(regs[r], kind)(regs[b])
                mv = moved(recs[ident[b]], kk[ident[r]], kk[ident[b]])
                if kind == "extend":
                    recs[ident[r]] = recs[ident[r]] + mv; infos[ident[r]] = infos[ident[r]] + list(infos[ident[b]])
                else:
                    recs[ident[r]] = mv + recs[ident[r]]; infos[ident[r]] = list(infos[ident[b]]) + infos[ident[r]]
                emit("(%s %d %d)" % (kind, r, b), "u", "r%d.%s(r%d)" % (r, kind, b))
            elif kind == "min":
                try:
                    p_ = regs[r].min(); e = ["p", pv_of(p_[0]), pv_of(p_[1])]
                except ValueError:
                    e = ["e", "value"]
                emit("(min %d)" % r, e, "r%d.min() -> %s" % (r, show(e)))
            elif kind == "get":
                n = len(recs[ident[r]]); i = rng.randint(-n - 1, n)
                try:
                    p_ = regs[r][i]; e = ["p", pv_of(p_[0]), pv_of(p_[1])]
                except IndexError:
                    e = ["e", "index"]
                emit("(get %d %d)" % (r, i), e, "r%d[%d] -> %s" % (r, i, show(e)))
            elif kind == "handover":
                s_ = rng.choice([4, 4, 5]); src = rng.randrange(4); new = rng.random() < 0.3
                (solver.SetGenerationMonitor if s_ == 4 else solver.SetEvaluationMonitor)(regs[src], new=new) if rng.random() < 0.7 else \
                    (solver.SetGenerationMonitor if s_ == 4 else solver.SetEvaluationMonitor)(regs[src], new)
                if not new and ident[s_] != ident[src]:
                    recs[ident[src]] = moved(recs[ident[s_]], kk[ident[src]], kk[ident[s_]]) + recs[ident[src]]
                    infos[ident[src]] = list(infos[ident[s_]]) + infos[ident[src]]
                ident[s_] = ident[src]; sync()
                emit("(handover %d %d %s)" % (s_, src, "true" if new else "false"), "u",
                     "solver.Set%sMonitor(r%d, new=%r)" % ("Generation" if s_ == 4 else "Evaluation", src, new))
                h("heap:handover-%s" % ("new" if new else "prepend"))
            elif kind == "handnull":
                new = rng.random() < 0.3
                old = ident[4]
                solver.SetGenerationMonitor(rng.choice([None, "Null", "Null()"]) if False else None, new=new)
                tk = fresh(None)
                if not new:
                    recs[tk] = moved(recs[old], None, kk[old]); infos[tk] = list(infos[old])
                ident[4] = tk; sync()
                emit("(handnull 4 %s)" % ("true" if new else "false"), "u", "solver.SetGenerationMonitor(None, new=%r)" % new)
            h("heap:" + kind)
        except Exception as exc:
            if isinstance(exc, MemoryError):         # drop the monitors that hold the runaway lists
                import gc
                regs[:] = [None] * HREG; solver = None; res = None
                gc.collect()
                _MEMERR[0] += 1
            fs.append(("monitor", "Monitor/heap-program/op-%s/raises" % kind, "%s raised %r after %s" % (kind, exc, readable[-4:])))
            break
    # every register: contents, then the probes
    def snap(m):
        return ["d", [pv_of(v) for v in m.x], [pv_of(v) for v in m.y], [idtok(i) for i in m.id],
                [s_[3:] if s_.startswith("msg") else s_ for s_ in m.get_info()], ktok(m.k)]
    broken = bool(fs)
    for r in range(HREG):
        if broken:
            break
        sn = snap(regs[r]); want = recs[ident[r]]
        emit("(dump %d)" % r, sn, "dump r%d" % r)
        if not (same_tok(sn[1], [rc["x"] for rc in want]) and same_tok(sn[2], [rc["y"] for rc in want])
                and sn[3] == [idtok(rc["id"]) for rc in want] and sn[4] == infos[ident[r]]):
            fs.append(("monitor", "Monitor/aliasing/contents-changed-by-an-operation-on-another-monitor",
                       "r%d holds %s, the operations on it recorded x=%s y=%s id=%s info=%s (program: %s)"
                       % (r, show(sn), show([rc["x"] for rc in want]), show([rc["y"] for rc in want]), [rc["id"] for rc in want], infos[ident[r]], "; ".join(readable)[-900:])))
            broken = True
    for r in range(HREG):
        if broken:
            break
        tag = 100 + r
        lens0 = [(len(m.x), len(m.y), len(m.id), len(m.get_info())) for m in regs]
        regs[r]([float(tag)] if False else float(tag), float(tag)); regs[r].info(str(tag))
        lens1 = [(len(m.x), len(m.y), len(m.id), len(m.get_info())) for m in regs]
        emit("(probe %d %d)" % (r, tag), [[str(v) for v in t] for t in lens1], "probe r%d" % r)
        for j in range(HREG):
            grew = lens1[j] != lens0[j]
            if grew != (ident[j] == ident[r]) or (grew and lens1[j] != tuple(v + 1 for v in lens0[j])):
                fs.append(("monitor", "Monitor/aliasing/%s" % ("shares-a-list-with-another-monitor" if grew else "hand-over-lost"),
                           "a record and an info line added through r%d %s r%d (lengths %r -> %r); program: %s"
                           % (r, "show up in" if grew else "do not show up in", j, lens0[j], lens1[j], "; ".join(readable)[-900:])))
                broken = True
                break
        h("heap:probe")
    line = "C20 hprog (nreg %d) (ops (%s))" % (HREG, " ".join(ops))
    return line, exp, fs, readable, hist


# ------------------------------------------------------------------ file formats (Model/MungeFormats)
def exc_enum(exc):
    return {"TypeError": "type", "IndexError": "index", "ValueError": "value", "AttributeError": "attr"}.get(type(exc).__name__, "other:" + type(exc).__name__)


def gen_fmt_steps(rng):
    """recorded values as raw_to_converge may meet them: flat vectors of any (also different, also zero) length,
    scalars, matrices; python floats incl. inf/nan"""
    n = rng.choice([0, 1, 2, 3, 4])
    def vec(lo=0):
        return [gen_leaf(rng, rng.choice(["dyadic", "any"])) for _ in range(rng.randint(lo, 4))]
    def mat():
        rows = rng.randint(1, 3); c = rng.randint(0, 3)
        ragged = rng.random() < 0.3
        return [[gen_leaf(rng, "dyadic") for _ in range(rng.randint(0, 3) if ragged else c)] for _ in range(rows)]
    first = rng.choice(["vec", "vec", "vec", "vec0", "sc", "mat"])
    steps = []
    for i in range(n):
        if i == 0:
            kind = first
        elif first == "mat":
            kind = rng.choice(["mat", "mat", "mat", "vec0", "vec", "sc"])
        else:
            kind = rng.choice(["vec", "vec", "vec", "vec", "vec0", "sc"]) if rng.random() < 0.3 else "vec"
        if first == "vec" and rng.random() < 0.5 and kind == "vec":
            steps.append([gen_leaf(rng, "dyadic") for _ in range(3)])      # rectangular trajectories
        else:
            steps.append(vec(1) if kind == "vec" else [] if kind == "vec0" else gen_leaf(rng, "dyadic") if kind == "sc" else mat())
    return steps


def run_fmt(rng):
    from mystic import munge
    steps = gen_fmt_steps(rng)
    out = []
    for fn in (munge.raw_to_converge, munge.raw_to_support):
        try:
            res = fn([(list(st) if isinstance(st, list) else st) for st in steps], [1.0] * len(steps))[0]
            out.append(nest_tok(res, ftok))
        except Exception as exc:
            out.append(["e", exc_enum(exc)])
    fs = []
    # the property: a non-empty rectangular trajectory of flat vectors survives both formats
    if steps and all(isinstance(st, list) and st and all(is_scalar(v) for v in st) for st in steps) and len({len(st) for st in steps}) == 1:
        want = [pv_of(st)[1:] for st in steps]
        try:
            conv = [[c[0] for c in row] for row in out[0]]
            sup = [[out[1][j][i][0] for j in range(len(steps[0]))] for i in range(len(steps))]
        except Exception:
            conv = sup = None
        if conv is None or not same_tok(conv, want) or not same_tok(sup, want):
            fs.append(("monitor", "munge.raw_to_converge/rectangular-trajectory-not-recovered", "steps %r -> converge %s support %s" % (steps, show(out[0]), show(out[1]))))
    line = "C20 fmt (steps (%s))" % " ".join(tstr(pv_of(st)) for st in steps)
    return line, out, fs, ["raw_to_converge / raw_to_support of %r" % (steps,)]


def run_loghist(rng, tmpdir, tag):
    """a LoggingMonitor with an interval (gaps in the iteration numbers), ids, k; the file through logfile_reader,
    read_trajectories and read_history; the monitor's ids through read_trajectories(monitor, iter=True)"""
    from mystic import munge
    from mystic.monitors import LoggingMonitor
    path = os.path.join(tmpdir, "lh_%s.txt" % tag)
    k = rng.choice([None, None, 2, 0.5, -1, 4.0])
    iv = rng.choice([0, 1, 1, 2, 2, 3, 4, 5])
    dim = rng.choice([1, 2, 3])
    ragged = rng.random() < 0.25
    kw = {} if k is None else {"k": k}
    m = LoggingMonitor(iv, path, **kw)
    calls = []; fs = []
    if rng.random() < 0.3:
        m.info("a comment line   with blanks")
    for _ in range(rng.choice([0, 1, 2, 3, 5, 7, 9])):
        x = [gen_leaf(rng, rng.choice(["dyadic", "any"])) for _ in range(rng.randint(1, 3) if ragged else dim)]
        if rng.random() < 0.1:
            x = x[0]
        y = dyadic(rng, -8, 8, 6) if rng.random() < 0.8 else rng.choice([INF, -INF, NAN, 0.0, -0.0])
        i = None if rng.random() < 0.5 else rng.randint(0, 2)
        m(list(x) if isinstance(x, list) else x, y, i) if rng.random() < 0.5 else m(x, y, id=i)
        calls.append((pv_of(x), pv_of(y), i))
    readable = ["LoggingMonitor(%r, k=%r); %d calls" % (iv, k, len(calls))]
    try:
        step, param, cost = munge.logfile_reader(path, iter=True)
        rows = [["w", str(int(st[0])), idtok(st[1]) if len(st) > 1 else "none", pv_of(co), pv_of(pa)] for st, pa, co in zip(step, param, cost)]
        t2 = munge.read_trajectories(path, iter=True)
        if [tuple(a) for a in t2[0]] != [tuple(a) for a in step] or not same_tok(nest_tok(t2[1], ftok), nest_tok(param, ftok)):
            fs.append(("monitor", "read_trajectories(logfile)/differs-from-logfile_reader", "%r vs %r" % (t2, (step, param, cost))))
        # the property: the rows are the calls at the iterations divisible by the interval, unchanged
        wantrows = [["w", str(j), idtok(c[2]), c[1], c[0] if c[0][0] != "s" else ["v", c[0][1]]] for j, c in enumerate(calls) if iv and j % iv == 0]
        if not same_tok(rows, wantrows):
            fs.append(("monitor", "logfile/rows-not-the-calls-at-the-logged-iterations", "interval %r, %d calls: file rows %s, expected %s" % (iv, len(calls), show(rows), show(wantrows))))
    except Exception as exc:
        fs.append(("monitor", "logfile_reader/raises", "%r" % (exc,))); rows = ["e", exc_enum(exc)]
    try:
        ids, params, cost = munge.read_history(path, iter=True)
        hist = ["h", [[str(int(t[0]))] if len(t) == 1 else [str(int(t[0])), idtok(t[1])] for t in (ids or [])], nest_tok(params, ftok)]
        if [tuple(t) for t in (ids or [])] != [tuple(t) for t in step]:
            fs.append(("monitor", "read_history(logfile)/iterations-changed", "logfile_reader %r, read_history %r" % (step, ids)))
    except Exception as exc:
        hist = ["e", "any"]
    # ids of the monitor itself
    try:
        tr = munge.read_trajectories(m, iter=True)
        pid = [[str(int(t[0]))] if len(t) == 1 else [str(int(t[0])), idtok(t[1])] for t in tr[0]]
    except Exception as exc:
        pid = ["e", exc_enum(exc)]
    line = "C20 loghist (k %s) (iv %d) (calls (%s))" % (ktok(k), iv, " ".join("(%s %s %s)" % (tstr(c[0]), tstr(c[1]), idtok(c[2])) for c in calls))
    line2 = "C20 pidsl (ids (%s)) (n %d)" % (" ".join(idtok(c[2]) for c in calls), len(calls))
    try:
        os.remove(path)
    except OSError:
        pass
    return line, (rows, hist), line2, pid, fs, readable


def null_checks(tmpdir):
    """Null monitors: nothing is written, an empty history is read (implementation only)"""
    from mystic import munge
    from mystic.monitors import Null, Monitor
    from mystic.tools import isNull
    fs = []
    if not (isNull(Null) and isNull(Null()) and not isNull(Monitor())):
        fs.append(("monitor", "tools.isNull/wrong", "isNull(Null)=%r isNull(Null())=%r isNull(Monitor())=%r" % (isNull(Null), isNull(Null()), isNull(Monitor()))))
    if munge.read_history(Null()) != ([], []) or munge.read_history(Null(), iter=True) != ([], [], []):
        fs.append(("monitor", "read_history(Null())/not-empty", "%r" % (munge.read_history(Null(), iter=True),)))
    for w in ("write_raw_file", "write_support_file", "write_converge_file"):
        for arg in (Null(), Null):
            path = os.path.join(tmpdir, "null_%s.py" % w)
            getattr(munge, w)(arg, path)
            if os.path.exists(path):
                fs.append(("monitor", "%s/Null-monitor-written" % w, "%s(Null) created a file" % w)); os.remove(path)
    e = Monitor()
    if munge.read_history(e, iter=True) != (None, [], []) or munge.read_trajectories(e, iter=True) != ([], [], []):
        fs.append(("monitor", "read_history(empty monitor)/wrong", "%r %r" % (munge.read_history(e, iter=True), munge.read_trajectories(e, iter=True))))
    return fs


# ------------------------------------------------------------------ CustomMonitor
CM_NAMES = ["x", "y", "e", "d", "g"]


def run_cmon(rng):
    """a CustomMonitor with 1-5 declared fields (0-2 of them positional), 0-6 calls; returns (request, expected
    tokens, findings, readable)"""
    from mystic.monitors import CustomMonitor
    names = CM_NAMES[:rng.randint(1, 5)]
    args = names[:rng.randint(0, min(2, len(names)))]
    kws = [nm for nm in names if nm not in args] if rng.random() < 0.8 else []     # declared through **kwds, or args only
    if not args and not kws:
        kws = list(names)
    declared = [nm for nm in names if nm in args or nm in kws]
    sow = CustomMonitor(*args, **{nm: "doc " + nm for nm in kws})
    calls = []; want = {nm: [] for nm in declared}; readable = ["CustomMonitor(%s)" % ", ".join(args + ["%s=..." % nm for nm in kws])]
    numpy_ok = rng.random() < 0.5
    for _ in range(rng.randint(0, 6)):
        pos = [gen_x(rng, rng.choice([1, 2, 3]), numpy_ok)[0] if rng.random() < 0.6 else gen_y(rng, True, numpy_ok)[0] for _ in args]
        kw = {nm: (gen_y(rng, True, numpy_ok)[0] if rng.random() < 0.6 else gen_x(rng, 2, numpy_ok)[0]) for nm in kws if rng.random() < 0.5}
        pos = [float(v) if isinstance(v, np.ndarray) and v.ndim == 0 else v for v in pos]
        kw = {nm: (float(v) if isinstance(v, np.ndarray) and v.ndim == 0 else v) for nm, v in kw.items()}
        extra = {"zzz": 1.0} if rng.random() < 0.2 else {}
        sow(*pos, **kw, **extra)
        vals = dict(zip(args, pos)); vals.update(kw)
        calls.append([tstr(pv_of(vals[nm])) if nm in vals else "none" for nm in declared])
        for nm in vals:
            want[nm].append(pv_of(vals[nm]))
        readable.append("sow(%s)" % ", ".join([repr(v) for v in pos] + ["%s=%r" % kv for kv in list(kw.items()) + list(extra.items())]))
    fs = []
    got = [[pv_of(v) for v in getattr(sow, nm)] for nm in declared]
    for nm, g in zip(declared, got):
        # the property: field `nm` holds exactly the values supplied for it, in call order
        if not same_tok(g, want[nm]):
            fs.append(("monitor", "CustomMonitor/field-not-the-supplied-values", "field %s holds %s, supplied %s (%s)" % (nm, show(g), show(want[nm]), "; ".join(readable))))
    line = "C20 cmon (n %d) (calls (%s))" % (len(declared), " ".join("(" + " ".join(c) + ")" for c in calls))
    return line, got, fs, readable


# ------------------------------------------------------------------ shard
def run_shard(pid, seed, shard, ncases, tier, extra):
    common.import_mystic()
    import warnings
    warnings.simplefilter("ignore")
    tmpdir = proc_tmpdir()
    orig_limit = limit_memory()
    findings = []; hist = {}; samples = []
    reqs = []       # (kind, payload, line)
    try:
        cases = []
        only = (extra or {}).get("only")
        only_stream = (extra or {}).get("stream")

        def stream_range(name, n):
            """the cases of a side stream: all of them in a normal run, one of them when that one is replayed"""
            if only_stream == name:
                return [only]
            return range(n) if only is None and not only_stream else ()
        ks = () if only_stream else ([only] if only is not None else range(ncases))
        for k in ks:
            if _MEMERR[0] >= 3:
                break
            c, loglines = run_case(seed, shard, k, tier, tmpdir)
            cases.append(c)
            reqs.append(("prog", c, "C20 prog (nreg %d) (ops (%s))" % (NREG, " ".join(c.ops))))
            for l in loglines[:6]:
                reqs.append(("logline", (c, l), "C20 logline (s %s)" % codes(l)))
        for j in stream_range("heap", max(4, ncases // 3)):
            if _MEMERR[0] >= 6:
                break
            rng = case_rng(PID + "/heap", seed, shard, j)
            with quiet():
                line, hexp, fs, readable, hh = run_hprog(rng, rng.choice([4, 8, 12, 20]))
            reqs.append(("hprog", (hexp, fs, readable, hh, j), line))
        for j in stream_range("fmt", max(4, ncases // 2)):
            rng = case_rng(PID + "/fmt", seed, shard, j)
            line, fexp, fs, readable = run_fmt(rng)
            reqs.append(("fmt", (fexp, fs, readable, j), line))
        for j in stream_range("loghist", max(4, ncases // 4)):
            rng = case_rng(PID + "/loghist", seed, shard, j)
            with quiet():
                line, lexp, line2, pid, fs, readable = run_loghist(rng, tmpdir, "s%d_%d_%d" % (seed, shard, j))
            reqs.append(("loghist", (lexp, fs, readable, j), line))
            reqs.append(("pidsl", (pid, [], readable, j), line2))
        # ids through the parameter files (harness/c20_ids.py): pattern family, then every short id sequence
        def id_case(stream, j, ids):
            rng = case_rng(PID + "/" + stream, seed, shard, j)
            out = c20_ids.run_idfile(rng, tmpdir, "%s%d_%d_%d" % (stream, seed, shard, j), ids=ids)
            for key, v in out["hist"].items():
                hist[key] = hist.get(key, 0) + v
            case = {"seed": seed, "shard": shard, "stream": stream, "case": j, "tier": tier, "ops": out["readable"]}
            for kind2, key, what in out["findings"]:
                findings.append(Finding(kind2, key, what, dict(case, request=[l[1] for l in out["lines"]])))
            for kind2, line, exp, what in out["lines"]:
                reqs.append((kind2, (exp, case, what, any(f[1] not in KNOWN_KEYS for f in out["findings"])), line))
        for j in stream_range("idfile", max(8, ncases // 4)):
            id_case("idfile", j, None)
        pats = c20_ids.exhaustive_patterns(tier)
        slot = shard % c20_ids.NSLOTS.get(tier, 16)
        if only_stream == "idex":
            id_case("idex", only, pats[only])
        elif only is None and not only_stream:
            for j in range(slot, len(pats), c20_ids.NSLOTS.get(tier, 16)):
                id_case("idex", j, pats[j])
        if (only is None and not only_stream) or only_stream == "null":
            for kind2, key, what in null_checks(tmpdir):
                findings.append(Finding(kind2, key, what, {"seed": seed, "shard": shard, "stream": "null"}))
            hist["null:checks"] = hist.get("null:checks", 0) + 1
        for j in stream_range("cmon", max(4, ncases // 5)):
            rng = case_rng(PID + "/cmon", seed, shard, j)
            line, got, fs, readable = run_cmon(rng)
            reqs.append(("cmon", (got, fs, readable, j), line))
        for j in range(max(4, ncases // 2)):
            rng = case_rng(PID + "/split", seed, shard, j)
            s = gen_split_string(rng)
            reqs.append(("split", s, "C20 split (s %s)" % codes(s)))
        if shard == 0 and only is None and not only_stream:
            # exhaustive: the model's slice arithmetic against CPython's `slice.indices` (all bounds incl. None)
            nmax = 4 if tier == "quick" else 6
            for n in range(nmax + 1):
                bounds = [None] + list(range(-n - 2, n + 3))
                for st in bounds:
                    for en in bounds:
                        for t in (1, 2, 3, -1, -2, -3):
                            reqs.append(("sliceidx", (n, st, en, t), "C20 sliceidx (n %d) (s %s) (e %s) (t %d)" % (n, idtok(st), idtok(en), t)))
        unlimit_memory(orig_limit)
        replies = run_driver_retry([r[2] for r in reqs])
    finally:
        shutil.rmtree(tmpdir, ignore_errors=True)
    nontrivial = 0; evaluations = 0
    for (kind, payload, line), rep in zip(reqs, replies):
        r = parse_reply(rep)
        if kind == "sliceidx":
            n, st, en, t = payload
            want = [str(i) for i in range(*slice(st, en, t).indices(n))]
            hist["sliceidx:exhaustive"] = hist.get("sliceidx:exhaustive", 0) + 1
            if r[0] != "ok" or r[1]["i"] != want:
                findings.append(Finding("correspondence", "sliceIdx/differs-from-slice.indices", "n=%d [%r:%r:%r] python=%r model=%r" % (n, st, en, t, want, rep),
                                        {"n": n, "slice": [st, en, t], "request": line, "model": rep}))
            continue
        if kind == "hprog":
            hexp, fs, readable, hh, j = payload
            for key, v in hh.items():
                hist[key] = hist.get(key, 0) + v
            hist["heap:programs"] = hist.get("heap:programs", 0) + 1
            case = {"seed": seed, "shard": shard, "stream": "heap", "case": j, "ops": readable, "request": line, "impl": [tstr(e) for e in hexp], "model": rep}
            for kind2, key, what in fs:
                findings.append(Finding(kind2, key, what, case))
            if fs:
                continue
            got = r[1]["r"] if r[0] == "ok" else None
            if got is None or len(got) != len(hexp):
                findings.append(Finding("correspondence", "hprog/model-%s" % r[0], "model replied %r" % (rep[:300],), case))
                continue
            for jj, (g, e) in enumerate(zip(got, hexp)):
                if not same_tok(g, e):
                    findings.append(Finding("correspondence", "hprog/%s-diverges" % line.split("(ops (")[1].split("(")[jj + 1].split()[0] if False else "hprog/op-diverges",
                                            "op %d (%s): model %s implementation %s" % (jj, readable[jj] if jj < len(readable) else "?", show(g), show(e)), case))
                    break
            continue
        if kind in ("idprog", "identry", "idpidsl"):
            exp, case0, what, had_finding = payload
            hist["idfile:model-lines"] = hist.get("idfile:model-lines", 0) + 1
            case = dict(case0, request=line, model=rep)
            if had_finding:
                continue                      # the case already has its finding; the files were not all read
            if kind == "idpidsl":
                if r[0] != "ok" or not same_tok(r[1]["s"], exp):
                    findings.append(Finding("correspondence", "idfile/read_trajectories(monitor)-diverges", "%s: model %s implementation %s" % (case0["ops"][0], rep[:400], show(exp)), case))
            elif kind == "identry":
                for writer, seen in sorted(exp.items()):
                    if r[0] != "ok" or not same_tok(r[1]["w"], seen):
                        findings.append(Finding("correspondence", "idfile/%s/id-entry-diverges" % writer,
                                                "%s: the file has the id entry %s, the model writes %s" % (case0["ops"][0], show(seen), rep[:300]), case))
                        break
            else:
                nops, exps, whats = exp
                got = r[1]["r"][nops:] if r[0] == "ok" else None
                if got is None or len(got) != len(exps):
                    findings.append(Finding("correspondence", "idfile/prog-model-%s" % r[0], "model replied %r" % (rep[:300],), case))
                else:
                    for g, e, w in zip(got, exps, whats):
                        if not same_tok(g, e):
                            findings.append(Finding("correspondence", "idfile/%s-diverges" % w.split(" (")[0].replace(" ", ""),
                                                    "%s; %s: model %s implementation %s" % (case0["ops"][0], w, show(g), show(e)), case))
                            break
            continue
        if kind in ("fmt", "loghist", "pidsl"):
            fexp, fs, readable, j = payload
            hist[kind + ":cases"] = hist.get(kind + ":cases", 0) + 1
            case = {"seed": seed, "shard": shard, "stream": kind, "case": j, "ops": readable, "request": line, "impl": show(fexp, 2000), "model": rep}
            for kind2, key, what in fs:
                findings.append(Finding(kind2, key, what, case))
            ok = r[0] == "ok"
            if ok and kind == "fmt":
                ok = same_tok(r[1]["conv"], fexp[0]) and same_tok(r[1]["sup"], fexp[1])
                hist["fmt:" + ("error" if fexp[0][:1] == ["e"] else "ok")] = hist.get("fmt:" + ("error" if fexp[0][:1] == ["e"] else "ok"), 0) + 1
            elif ok and kind == "loghist":
                ok = same_tok(r[1]["rows"], fexp[0]) and (same_tok(r[1]["hist"], fexp[1]) or (fexp[1] == ["e", "any"] and r[1]["hist"][:1] == ["e"]))
                hist["loghist:rows"] = hist.get("loghist:rows", 0) + (len(fexp[0]) if fexp[0][:1] != ["e"] else 0)
            elif ok:
                ok = same_tok(r[1]["s"], fexp)
            if not ok:
                findings.append(Finding("correspondence", "%s/diverges" % kind, "%s: model %s implementation %s" % ("; ".join(readable)[:300], rep[:600], show(fexp, 600)), case))
            continue
        if kind == "cmon":
            got, fs, readable, j = payload
            hist["cmon:monitors"] = hist.get("cmon:monitors", 0) + 1
            hist["cmon:calls"] = hist.get("cmon:calls", 0) + len(readable) - 1
            case = {"seed": seed, "shard": shard, "stream": "cmon", "case": j, "ops": readable, "request": line, "impl": tstr(got) if got else "()", "model": rep}
            for kind2, key, what in fs:
                findings.append(Finding(kind2, key, what, case))
            if r[0] != "ok" or not same_tok(r[1]["f"], got):
                findings.append(Finding("correspondence", "cmon/fields-diverge", "model %s implementation %s (%s)" % (rep, show(got), "; ".join(readable)), case))
            continue
        if kind == "split":
            want = [[str(ord(ch)) for ch in piece] for piece in payload.split("   ")]
            hist["split:strings"] = hist.get("split:strings", 0) + 1
            if r[0] != "ok" or r[1]["p"] != want:
                findings.append(Finding("correspondence", "split3/differs-from-str.split", "s=%r python=%r model=%r" % (payload, payload.split("   "), rep),
                                        {"string": payload, "request": line, "model": rep}))
            continue
        if kind == "logline":
            c, l = payload
            want = [[str(ord(ch)) for ch in piece] for piece in l.split("   ")]
            hist["logline:real-lines"] = hist.get("logline:real-lines", 0) + 1
            if r[0] != "ok" or r[1]["p"] != want or "true" not in str(r[1].get("good")):
                findings.append(Finding("correspondence", "logline/not-covered-by-roundtrip-theorem",
                                        "real log line %r: python split %r, model %r" % (l, l.split("   "), rep),
                                        {"line": l, "request": line, "model": rep, "seed": seed, "shard": shard}))
            continue
        c = payload
        evaluations += 1
        case = {"seed": seed, "shard": shard, "case": int(c.tag.split("_")[-1]), "tier": tier, "ops": c.readable, "request": line,
                "impl": [tstr(e) for e in c.expect], "model": rep}
        for key, v in c.hist.items():
            hist[key] = hist.get(key, 0) + v
        for kind2, key, what in c.findings:
            findings.append(Finding(kind2, key, what, case))
        if r[0] != "ok":
            findings.append(Finding("correspondence", "prog/model-%s" % r[0], "model replied %r" % (rep,), case))
            continue
        got = r[1]["r"]
        if len(got) != len(c.expect):
            findings.append(Finding("correspondence", "prog/result-count", "model %d results, implementation %d" % (len(got), len(c.expect)), case))
            continue
        for j, (g, e) in enumerate(zip(got, c.expect)):
            if not same_tok(g, e):
                opk = c.ops[j].split()[0].strip("(")
                findings.append(Finding("correspondence", "prog/%s-diverges" % opk,
                                        "op %d %s: model %s implementation %s" % (j, c.ops[j][:200], show(g), show(e)), case))
                break
        kinds = {o.split()[0].strip("(") for o in c.ops}
        if len(kinds & {"slice", "lidx", "mask", "add", "extend", "prepend"}) >= 1 and any(len(rc) > 0 for rc in c.recs):
            nontrivial += 1
            if len(samples) < 2:
                samples.append(case)
    return {"evaluations": evaluations, "nontrivial": nontrivial, "model_lines": len(reqs), "findings": findings,
            "samples": samples, "hist": hist}


# ------------------------------------------------------------------ fixed witnesses of the recorded defects (run first)
def witnesses():
    common.import_mystic()
    from mystic.monitors import Monitor
    from mystic import munge
    out = []
    tmp = tempfile.mkdtemp(prefix="c20w_")
    sys.path_importer_cache.pop(".", None)
    try:
        # F13: (0.1*3)/3 != 0.1
        m = Monitor(k=3); m([1.0], 0.1)
        if m.y[0] != 0.1:
            out.append(Finding("monitor", KEY_F13, "Monitor(k=3)([1.0], 0.1); .y[0] == %r, recorded 0.1" % (m.y[0],), {"witness": "F13"}))
        # D1: support / converge file of a monitor with k
        for writer in ("write_support_file", "write_converge_file"):
            m = Monitor(k=2); m([1.0, 2.0], 3.0)
            path = os.path.join(tmp, "c20w_%s.py" % writer)
            getattr(munge, writer)(m, path)
            cost = munge.read_raw_file(path)[1]
            forget_module(path)
            if cost != [3.0]:
                out.append(Finding("monitor", KEY_D1 % writer, "%s(Monitor(k=2) after ([1.0, 2.0], 3.0)): cost read back %r, recorded [3.0]" % (writer, cost),
                                   {"witness": "D1", "writer": writer}))
        # D2: numpy scalars in a parameter file
        for writer in ("write_raw_file", "write_support_file", "write_converge_file"):
            m = Monitor(); m(np.array([1.5, 2.5]), 1.0)
            path = os.path.join(tmp, "c20w2_%s.py" % writer)
            getattr(munge, writer)(m, path)
            try:
                munge.read_raw_file(path)
            except NameError as exc:
                out.append(Finding("monitor", KEY_D2 % writer, "%s(Monitor after (numpy.array([1.5, 2.5]), 1.0)) wrote %r; read_raw_file raised %r"
                                   % (writer, [l for l in open(path).read().splitlines() if l.startswith("params")][0], exc), {"witness": "D2", "writer": writer}))
            finally:
                forget_module(path)
        # D2I: several different ids given as numpy integers
        for writer in ("write_raw_file", "write_support_file", "write_converge_file"):
            m = Monitor(); m([1.0], 2.0, id=np.int64(0)); m([2.0], 3.0, id=np.int64(1))
            path = os.path.join(tmp, "c20w2i_%s.py" % writer)
            getattr(munge, writer)(m, path)
            try:
                munge.read_raw_file(path, iter=True)
            except NameError as exc:
                out.append(Finding("monitor", KEY_D2I % writer, "%s(Monitor after ([1.0], 2.0, id=numpy.int64(0)), ([2.0], 3.0, id=numpy.int64(1))) wrote %r; read_raw_file raised %r"
                                   % (writer, [l for l in open(path).read().splitlines() if l.startswith("id = ")][0], exc), {"witness": "D2I", "writer": writer}))
            finally:
                forget_module(path)
        # F13u: subnormal cost
        m = Monitor(k=0.5); m([1.0], 5e-324)
        if m.y[0] != 5e-324:
            out.append(Finding("monitor", KEY_F13U, "Monitor(k=0.5)([1.0], 5e-324); .y[0] == %r, recorded 5e-324" % (m.y[0],), {"witness": "F13u"}))
        # D4: first cost numpy, later cost python
        for writer in ("write_support_file", "write_converge_file", "read_history(monitor)"):
            m = Monitor(); m([1.0, 2.0], np.float64(3.0)); m([1.0, 2.0], 4.0)
            path = os.path.join(tmp, "c20w4_%s.py" % writer[:12])
            try:
                if writer.startswith("read"):
                    munge.read_history(m)
                else:
                    getattr(munge, writer)(m, path)
            except (AttributeError, TypeError) as exc:
                out.append(Finding("monitor", KEY_D4 % writer, "%s on Monitor after ([1.0, 2.0], numpy.float64(3.0)), ([1.0, 2.0], 4.0) raised %r" % (writer, exc),
                                   {"witness": "D4", "writer": writer}))
        # K5: read_import only ever finds modules in the first directory it was used with (fresh interpreter, script mode)
        script = os.path.join(tmp, "c20_k5_probe.py")
        open(script, "w").write(K5_SCRIPT)
        p = subprocess.run([sys.executable, script, common.REPO], stdout=subprocess.PIPE, stderr=subprocess.STDOUT, text=True, timeout=300)
        lines = [l for l in p.stdout.splitlines() if l.startswith("K5:")]
        if lines and lines[0].startswith("K5: first ok") and any("second EXC" in l for l in lines):
            out.append(Finding("monitor", KEY_K5, "fresh interpreter: write_raw_file + read_raw_file in directory A works, the same in directory B then fails: %s"
                               % "; ".join(lines), {"witness": "K5", "script": K5_SCRIPT}))
        elif not lines or not lines[0].startswith("K5: first ok"):
            out.append(Finding("monitor", "munge.read_raw_file/fresh-interpreter-probe-failed", "probe output: %r" % p.stdout[-500:], {"witness": "K5"}))
        # POS: the position columns of a monitor with non-uniform npts
        m = Monitor(npts=(2, 3)); m([float(v) for v in range(10)], 1.0)
        try:
            got = m.pos
        except Exception as exc:
            got = exc
        if m._pos != [2, 3, 7, 8, 9] or got != [[[2.0, 3.0], [7.0, 8.0, 9.0]]]:
            out.append(Finding("monitor", KEY_POS, "Monitor(npts=(2, 3)) after ([0.0 .. 9.0], 1.0): position columns %r (the layout [w0 w0 x0 x0 w1 w1 w1 x1 x1 x1] has them at [2, 3, 7, 8, 9]); .pos -> %r"
                               % (m._pos, got), {"witness": "POS"}))
        # CM: CustomMonitor keeps the caller's buffer
        from mystic.monitors import CustomMonitor, LoggingMonitor
        sow = CustomMonitor("x", "y"); buf = [1.0, 2.0]; sow(buf, 3.0); buf[0] = 9.0
        if sow.x != [[1.0, 2.0]]:
            out.append(Finding("monitor", KEY_CM, "sow = CustomMonitor('x', 'y'); buf = [1.0, 2.0]; sow(buf, 3.0); buf[0] = 9.0; sow.x == %r, recorded [[1.0, 2.0]]" % (sow.x,),
                               {"witness": "CM"}))
        # NPTS: + on a logging monitor drops npts
        lm = LoggingMonitor(1, os.path.join(tmp, "c20w_npts.txt"), npts=(1, 1)); lm([1.0, 2.0, 3.0, 4.0], 1.0)
        sm = lm + lm[0:0]
        def safe(f):
            try:
                return f()
            except Exception as exc:
                return exc
        if sm._npts != (1, 1):
            out.append(Finding("monitor", KEY_NPTS, "lm = LoggingMonitor(1, f, npts=(1, 1)) after ([1.0, 2.0, 3.0, 4.0], 1.0): (lm + lm[0:0])._npts == %r, .pos == %r (lm.pos == %r)"
                               % (sm._npts, safe(lambda: sm.pos), safe(lambda: lm.pos)), {"witness": "NPTS"}))
        # RAG: records of different dimension in a support file
        m = Monitor(); m([1.0, 2.0, 3.0], 1.0); m([4.0, 5.0], 2.0)
        path = os.path.join(tmp, "c20w_rag.py")
        munge.write_support_file(m, path)
        got = munge.read_raw_file(path)[0]
        forget_module(path)
        if sum(len(row) for row in got) != 5:
            out.append(Finding("monitor", KEY_RAG, "write_support_file(Monitor after ([1.0, 2.0, 3.0], 1.0), ([4.0, 5.0], 2.0)) -> params %r: the parameter 3.0 is not in the file" % (got,),
                               {"witness": "RAG"}))
        # D3: 0-d array cost with k
        m = Monitor(k=2)
        try:
            m([1.0], np.array(3.0))
        except TypeError as exc:
            out.append(Finding("monitor", KEY_D3, "Monitor(k=2)([1.0], numpy.array(3.0)) raised %r and left len(x)=%d, len(_y)=%d" % (exc, len(m.x), len(m._y)),
                               {"witness": "D3"}))
    finally:
        shutil.rmtree(tmp, ignore_errors=True)
    return out


K5_SCRIPT = '''import sys, os, tempfile
sys.path.insert(0, sys.argv[1])
from mystic.monitors import Monitor
from mystic import munge
for name in ("first", "second"):
    d = tempfile.mkdtemp()
    m = Monitor(); m([1.0, 2.0], 3.0)
    f = os.path.join(d, "c20k5_%s.py" % name)
    munge.write_raw_file(m, f)
    try:
        r = munge.read_raw_file(f)
        print("K5: %s ok %r" % (name, r))
    except Exception as e:
        print("K5: %s EXC %r" % (name, e))
'''


def main(tier, seed):
    t0 = time.time()
    proof = framework.proof_stage(PID, MODULE, THEOREMS, tier)
    nshards, per = (16, 250) if tier == "quick" else (64, 1500)
    run = framework.run_shards("c20", "run_shard", PID, seed, nshards, per, tier)
    run["findings"] = witnesses() + run["findings"]

    def search_more():
        r = framework.run_shards("c20", "run_shard", PID, seed + 7919, 32, 300, tier)
        return r["findings"]
    rule = ("cases: random programs of 4-40 operations over 4 monitor registers (Monitor/VerboseMonitor/LoggingMonitor/"
            "VerboseLoggingMonitor; k in {None, +-2^n, rounding values}; x as list/tuple/ndarray/ints/numpy scalars/scalar/matrix, "
            "y as float/int/numpy scalar/0-d array/vector; ids; inf/nan/-0.0/subnormal/1e+-300), each ending with a dump of every register, "
            "write_raw/support/converge_file + read_raw_file, read_history and the log file read back by logfile_reader. "
            "non-trivial = the program contains at least one slice / list index / mask / + / extend / prepend on a non-empty history. "
            "The programs also contain tuple indices (ints, slices, lists, nested tuples; oracle: rows x columns of the recorded list), accessor views (x/ix/ax, y/iy/ay, id, info), "
            "measure views of monitors built with npts, and calls of the logging / verbose classes with all=False, best, k=True whose log rows and captured stdout lines are compared. "
            "Further streams per shard: heap programs (6 registers: 4 monitors + a real solver's generation and evaluation monitor slots; new/call/info/slice/list index/+/extend/prepend/min/[i]/"
            "SetGenerationMonitor/SetEvaluationMonitor hand-over, then a dump and a probe call through every register: exactly the registers holding the same object may grow), "
            "CustomMonitors (1-5 fields, positional / keyword / unknown keyword values), raw_to_converge / raw_to_support on ragged, empty, scalar and matrix steps, "
            "LoggingMonitor files with interval 0-5 (gaps), ids and comment lines read by logfile_reader / read_trajectories / read_history, _process_ids on monitor id lists, Null monitors, "
            "id-pattern monitors (c20_ids.py: no ids / one id / blocks / round robin / palindromes / equal ends around other ids / one differing entry / None around and inside ints / increasing / decreasing / random, "
            "python and numpy integers, and EVERY id sequence of length <= 4 over {None,0,1,2} and <= 6 over {None,0,1} (thorough: <= 5 and <= 7); built by calls, +, extend, prepend; optional header and extra keywords) "
            "written by write_raw_file / write_support_file / write_converge_file and read by read_raw_file, the matching reader with and without iter, and read_history: "
            "id column, per-id iteration numbers, entry count, decoded parameters and costs against the call arguments")
    tb = ["Lean 4.33 kernel; axioms per theorem listed under coverage.theorems",
          "hand-written model Model/Monitor.lean tied to monitors.py / tools.py / munge.py by this bit-exact differential run only",
          "Python repr/eval (and import) round trip of floats incl. inf/nan: runtime, exercised through the real files",
          "the log-line theorem is about the model's split3; its agreement with str.split('   ') is checked on random strings and on every real log line",
          "numpy fancy indexing is modelled as index resolution + homogeneity test (ValueError/IndexError order as observed)",
          "numpy multi-axis (tuple) indexing is modelled for 1-d/2-d arrays, tuples of length <= 2 and first-component indexing (Model/MonitorViews.lean), tied to numpy by the tuple-index stream only",
          "the heap model (Model/MonitorHeap.lean) has one level of cells (the four lists of a monitor object); it is tied to CPython object identity by the probe calls of the heap-program stream",
          "verbose output is read back from captured stdout with a regular expression and eval (inf, nan, np)"]
    assumptions = ["recorded values are scalars, flat sequences or rectangular 2-d sequences of numbers (no deeper nesting)",
                   "k != 0; the cost round trip is exact only for k in {None, +-2^n} and costs in the normal range (F13 otherwise)",
                   "a monitor is never extended/prepended with itself",
                   "tuple indices contain ints, slices, integer lists / arrays and nested tuples of ints (no boolean masks), at most 2 components on vector parameters",
                   "verbose / logging intervals are non-negative integers, None or inf; costs of all=False monitors are not 0-d arrays",
                   "IEEE binary64 * and / agree between Lean Float and CPython/numpy"]
    return framework.finish(PID, tier, seed, t0, proof, run, rule, tb, assumptions, search_more=search_more)


def replay(path):
    data = json.load(open(path))
    case = data.get("case", {})
    if "witness" in case or "seed" not in case:
        fs = witnesses()
        for f in fs:
            print("%s [%s] %s" % (f["kind"], f["class_key"], f["what"]))
        return 0
    extra = {"only": case.get("case", 0)}
    if case.get("stream"):
        extra["stream"] = {"pidsl": "loghist"}.get(case["stream"], case["stream"])
    out = run_shard(PID, case["seed"], case["shard"], 0, case.get("tier", "quick"), extra)
    known = {e["class_key"] for e in framework.load_known(PID)}
    bad = 0
    for f in out["findings"]:
        tag = "KNOWN-FINDING" if f["class_key"] in known and f["kind"] == "monitor" else "VIOLATION"
        print("%s property=%s [%s] %s: %s" % (tag, PID, f["class_key"], f["kind"], f["what"]))
        bad += tag == "VIOLATION"
    print("replayed case seed=%s shard=%s case=%s: %d finding(s)" % (case["seed"], case["shard"], case.get("case"), len(out["findings"])))
    for l in out["samples"][:1]:
        pass
    return 1 if bad else 0
