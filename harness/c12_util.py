"""C12 helpers: an independent exact interpreter for constraint text, the (untrusted) translator
text -> linear forms over exact rationals, a Python twin of the Lean canonicaliser (used with a tolerance
for the toleranced stream and bit-for-bit against the Lean reply on the exact stream), certificate
computation for `solve`, and the separating-point search.  Nothing here imports mystic."""
import ast, re
from fractions import Fraction as Fr

CMP_RE = re.compile(r"(<=|>=|!=|==|<|>|=)")
CMP_NAME = {"<": "lt", "<=": "le", ">": "gt", ">=": "ge", "=": "eq", "==": "eq", "!=": "ne"}
FLIP = {"lt": "gt", "le": "ge", "gt": "lt", "ge": "le", "eq": "eq", "ne": "ne"}
FLIPB = {"lt": "ge", "le": "gt", "gt": "le", "ge": "lt", "eq": "eq", "ne": "ne"}


class OutsideClass(Exception):
    """the text is not in the class the validator covers (non-linear, unknown syntax, ...)"""


def cmp_holds(c, a, b):
    return {"lt": a < b, "le": a <= b, "gt": a > b, "ge": a >= b, "eq": a == b, "ne": a != b}[c]


def split_line(text):
    """'lhs cmp rhs' -> (lhs, cmpname, rhs); exactly one comparator is expected"""
    parts = CMP_RE.split(text)
    if len(parts) != 3:
        raise OutsideClass("not exactly one comparator: %r" % (text,))
    return parts[0].strip(), CMP_NAME[parts[1]], parts[2].strip()


def lines_of(text):
    return [l.strip() for l in text.strip().split("\n") if l.strip()]


# ------------------------------------------------------------------ independent exact interpreter
def _parse(expr):
    try:
        return ast.parse(expr.strip(), mode="eval").body
    except SyntaxError:
        raise OutsideClass("syntax: %r" % (expr,))


def ev(node, env):
    """exact value of an arithmetic expression: int literals are integers, float literals are the exact value of
    the binary64 Python's eval would produce; raises ZeroDivisionError like Python"""
    if isinstance(node, ast.Constant):
        v = node.value
        if isinstance(v, bool) or not isinstance(v, (int, float)):
            raise OutsideClass("constant %r" % (v,))
        return Fr(v)
    if isinstance(node, ast.Name):
        if node.id not in env:
            raise OutsideClass("name %r" % (node.id,))
        return env[node.id]
    if isinstance(node, ast.UnaryOp):
        v = ev(node.operand, env)
        if isinstance(node.op, ast.USub):
            return -v
        if isinstance(node.op, ast.UAdd):
            return v
        raise OutsideClass("unary")
    if isinstance(node, ast.BinOp):
        a = ev(node.left, env)
        b = ev(node.right, env)
        if isinstance(node.op, ast.Add):
            return a + b
        if isinstance(node.op, ast.Sub):
            return a - b
        if isinstance(node.op, ast.Mult):
            return a * b
        if isinstance(node.op, ast.Div):
            if b == 0:
                raise ZeroDivisionError
            return a / b
        if isinstance(node.op, ast.Pow):
            if b.denominator == 1 and 0 <= b <= 4:
                return a ** int(b)
            raise OutsideClass("pow")
        raise OutsideClass("binop")
    raise OutsideClass("node %s" % type(node).__name__)


def ev2(node, env, cond):
    """(value, magnitude) - magnitude: the expression with every leaf replaced by its absolute value and every
    subtraction by an addition, i.e. the size of the terms that are combined (conditioning scale of the value);
    cond[0] collects the smallest relative size |q| / magnitude(q) of a divisor"""
    if isinstance(node, ast.Constant):
        v = Fr(node.value)
        return v, abs(v)
    if isinstance(node, ast.Name):
        v = env[node.id]
        return v, abs(v)
    if isinstance(node, ast.UnaryOp):
        v, m = ev2(node.operand, env, cond)
        return (-v if isinstance(node.op, ast.USub) else v), m
    if isinstance(node, ast.BinOp):
        a, ma = ev2(node.left, env, cond)
        b, mb = ev2(node.right, env, cond)
        if isinstance(node.op, ast.Add):
            return a + b, ma + mb
        if isinstance(node.op, ast.Sub):
            return a - b, ma + mb
        if isinstance(node.op, ast.Mult):
            return a * b, ma * mb
        if isinstance(node.op, ast.Div):
            if b == 0:
                raise ZeroDivisionError
            cond[0] = min(cond[0], abs(b) / mb)
            return a / b, ma / abs(b)
        if isinstance(node.op, ast.Pow):
            return a ** int(b), ma ** int(b)
    raise OutsideClass("node %s" % type(node).__name__)


class TextLine:
    """one relation, parsed once, evaluated exactly many times"""

    def __init__(self, text):
        self.text = text
        l, self.cmp, r = split_line(text)
        self.l = _parse(l)
        self.r = _parse(r)

    def holds(self, env):
        """True / False; a ZeroDivisionError means 'not satisfied'"""
        try:
            return cmp_holds(self.cmp, ev(self.l, env), ev(self.r, env))
        except ZeroDivisionError:
            return False

    def margin(self, env):
        """distance from the boundary (and of every divisor from zero) relative to the size of the terms involved
        (for the toleranced stream: 0 = on the boundary / ill-conditioned, 1 = far)"""
        cond = [Fr(1)]
        try:
            a, ma = ev2(self.l, env, cond); b, mb = ev2(self.r, env, cond)
        except ZeroDivisionError:
            return Fr(0)
        if ma + mb == 0:
            return Fr(0)
        return min(cond[0], abs(a - b) / (ma + mb))


def sat_system(tlines, env):
    return all(t.holds(env) for t in tlines)


def sat_cases(cases, env):
    return any(sat_system(c, env) for c in cases)


# ------------------------------------------------------------------ translator: text -> forms
# polynomial: dict {sorted tuple of variable indices: Fraction}; rational function (N, D)
def p_const(c):
    return {(): Fr(c)} if c != 0 else {}


def p_add(a, b, s=1):
    out = dict(a)
    for m, c in b.items():
        v = out.get(m, 0) + s * c
        if v == 0:
            out.pop(m, None)
        else:
            out[m] = v
    return out


def p_mul(a, b):
    out = {}
    for m1, c1 in a.items():
        for m2, c2 in b.items():
            m = tuple(sorted(m1 + m2))
            v = out.get(m, 0) + c1 * c2
            if v == 0:
                out.pop(m, None)
            else:
                out[m] = v
    return out


def p_deg(a):
    return max((len(m) for m in a), default=0)


def p_isconst(a):
    return all(m == () for m in a)


def p_scale(a, k):
    return {m: c * k for m, c in a.items()} if k != 0 else {}


def _norm(n, d):
    if p_isconst(d):
        k = d.get((), Fr(0))
        if k == 0:
            raise OutsideClass("division by the constant zero")
        return p_scale(n, 1 / k), {(): Fr(1)}
    return n, d


def rf(node, idx):
    """rational function (N, D) of an expression"""
    if isinstance(node, ast.Constant):
        v = node.value
        if isinstance(v, bool) or not isinstance(v, (int, float)):
            raise OutsideClass("constant")
        return p_const(Fr(v)), {(): Fr(1)}
    if isinstance(node, ast.Name):
        if node.id not in idx:
            raise OutsideClass("name %r" % node.id)
        return {(idx[node.id],): Fr(1)}, {(): Fr(1)}
    if isinstance(node, ast.UnaryOp):
        n, d = rf(node.operand, idx)
        if isinstance(node.op, ast.USub):
            return p_scale(n, -1), d
        if isinstance(node.op, ast.UAdd):
            return n, d
        raise OutsideClass("unary")
    if isinstance(node, ast.BinOp):
        n1, d1 = rf(node.left, idx)
        n2, d2 = rf(node.right, idx)
        if isinstance(node.op, (ast.Add, ast.Sub)):
            s = 1 if isinstance(node.op, ast.Add) else -1
            if d1 == d2:
                return _norm(p_add(n1, n2, s), d1)
            return _norm(p_add(p_mul(n1, d2), p_mul(n2, d1), s), p_mul(d1, d2))
        if isinstance(node.op, ast.Mult):
            return _norm(p_mul(n1, n2), p_mul(d1, d2))
        if isinstance(node.op, ast.Div):
            if not n2:
                raise OutsideClass("division by the constant zero")
            return _norm(p_mul(n1, d2), p_mul(d1, n2))
        raise OutsideClass("binop")
    raise OutsideClass("node %s" % type(node).__name__)


def form_of(poly, n):
    """affine polynomial -> [c, co_0 .. co_{n-1}]"""
    if p_deg(poly) > 1:
        raise OutsideClass("non-linear")
    f = [Fr(0)] * (n + 1)
    for m, c in poly.items():
        if m == ():
            f[0] = c
        else:
            f[m[0] + 1] = c
    return f


def translate_line(text, names):
    """-> ('lin', cmp, L, R) | ('rat', cmp, P, Q, r); raises OutsideClass"""
    idx = {nm: i for i, nm in enumerate(names)}
    n = len(names)
    l, c, r = split_line(text)
    nl, dl = rf(_parse(l), idx)
    nr, dr = rf(_parse(r), idx)
    if p_isconst(dl) and p_isconst(dr):
        return ("lin", c, form_of(nl, n), form_of(nr, n))
    if p_isconst(dr) and p_isconst(nr) and p_deg(dl) == 1 and p_deg(nl) <= 1:
        return ("rat", c, form_of(nl, n), form_of(dl, n), nr.get((), Fr(0)))
    if p_isconst(dl) and p_isconst(nl) and p_deg(dr) == 1 and p_deg(nr) <= 1:
        return ("rat", FLIP[c], form_of(nr, n), form_of(dr, n), nl.get((), Fr(0)))
    # general: lhs - rhs = N / D
    if dl == dr:
        N, D = p_add(nl, nr, -1), dl
    else:
        N, D = p_add(p_mul(nl, dr), p_mul(nr, dl), -1), p_mul(dl, dr)
    if p_deg(D) == 1 and p_deg(N) <= 1:
        return ("rat", c, form_of(N, n), form_of(D, n), Fr(0))
    raise OutsideClass("not affine / affine: %r" % (text,))


def f_eval(f, pt):
    return f[0] + sum(c * v for c, v in zip(f[1:], pt))


def f_mag(f, pt):
    return abs(f[0]) + sum(abs(c * v) for c, v in zip(f[1:], pt))


def item_margin(it, pt):
    """as TextLine.margin, on a translated item"""
    if it[0] == "lin":
        m = f_mag(it[2], pt) + f_mag(it[3], pt)
        return abs(f_eval(it[2], pt) - f_eval(it[3], pt)) / m if m else Fr(0)
    q = f_eval(it[3], pt)
    if q == 0:
        return Fr(0)
    m = f_mag(it[2], pt) / abs(q) + abs(it[4])
    if m == 0:
        return Fr(0)
    return min(abs(q) / f_mag(it[3], pt), abs(f_eval(it[2], pt) / q - it[4]) / m)


def item_holds(it, pt):
    if it[0] == "lin":
        return cmp_holds(it[1], f_eval(it[2], pt), f_eval(it[3], pt))
    q = f_eval(it[3], pt)
    if q == 0:
        return False
    return cmp_holds(it[1], f_eval(it[2], pt) / q, it[4])


# ------------------------------------------------------------------ protocol printing
def pnum(q):
    q = Fr(q)
    return str(q.numerator) if q.denominator == 1 else "(%d %d)" % (q.numerator, q.denominator)


def pform(f):
    return "(" + " ".join(pnum(c) for c in f) + ")"


def pitem(it):
    if it[0] == "lin":
        return "(lin %s %s %s)" % (it[1], pform(it[2]), pform(it[3]))
    return "(rat %s %s %s %s)" % (it[1], pform(it[2]), pform(it[3]), pnum(it[4]))


def pline(it):
    assert it[0] == "lin"
    return "(%s %s %s)" % (it[1], pform(it[2]), pform(it[3]))


def plines(items):
    return "(" + " ".join(pline(i) for i in items) + ")"


def pnums(v):
    return "(" + " ".join(pnum(c) for c in v) + ")"


def pmat(m):
    return "(" + " ".join(pnums(r) for r in m) + ")"


def parse_q(tok):
    return Fr(tok)


def parse_dnf(sx):
    """reply `cin=(((cmp c co..)..)..)` -> list of frozensets of (cmp, c, co-tuple)"""
    return [frozenset((l[0], parse_q(l[1]), tuple(parse_q(t) for t in l[2:])) for l in case) for case in sx]


# ------------------------------------------------------------------ python twin of Model/Symbolic.lean
def _strip(co):
    co = list(co)
    while co and co[-1] == 0:
        co.pop()
    return co


def canon_line(it):
    """('lin', cmp, L, R) -> list of (cmp, c, co)"""
    _, c, L, R = it
    k = max(len(L), len(R))
    L = list(L) + [Fr(0)] * (k - len(L)); R = list(R) + [Fr(0)] * (k - len(R))
    p = [a - b for a, b in zip(L, R)]
    co = _strip(p[1:])
    lead = next((a for a in co if a != 0), None)
    if lead is None:
        return [] if cmp_holds(c, p[0], 0) else [("lt", Fr(1), ())]
    cc = c if lead > 0 else FLIP[c]
    co2 = tuple(a / lead for a in co); c2 = p[0] / lead
    if cc == "eq":
        return [("ge", c2, co2), ("le", c2, co2)]
    return [(cc, c2, co2)]


def canon_sys(items):
    out = set()
    for it in items:
        out.update(canon_line(it))
    return frozenset(out)


def expand(items, n):
    zero = [Fr(0)] * (n + 1)
    cases = [[]]
    for it in items:
        if it[0] == "lin":
            alts = [[it]]
        else:
            _, c, P, Q, r = it
            rq = [r * a for a in Q]
            if c in ("eq", "ne"):
                alts = [[("lin", "ne", Q, zero), ("lin", c, P, rq)]]
            else:
                alts = [[("lin", "gt", Q, zero), ("lin", c, P, rq)], [("lin", "lt", Q, zero), ("lin", FLIP[c], P, rq)]]
        cases = [s + a for s in cases for a in alts]
    return cases


CONTRA = {("lt", "gt"), ("lt", "ge"), ("le", "gt"), ("gt", "lt"), ("ge", "lt"), ("gt", "le")}


def empty_case(s):
    for a in s:
        if a == ("lt", Fr(1), ()):
            return True
        for b in s:
            if a[1] == b[1] and a[2] == b[2] and (a[0], b[0]) in CONTRA:
                return True
    return False


def _close(a, b, tol):
    return a == b or abs(a - b) <= tol * max(1, abs(a), abs(b))


def _same_cline(a, b, tol):
    return a[0] == b[0] and len(a[2]) == len(b[2]) and _close(a[1], b[1], tol) and all(_close(x, y, tol) for x, y in zip(a[2], b[2]))


def same_set(a, b, tol=0):
    if tol == 0:
        return a == b
    return all(any(_same_cline(x, y, tol) for y in b) for x in a) and all(any(_same_cline(x, y, tol) for y in a) for x in b)


def dnf_equiv(A, B, tol=0):
    def cov(X, Y):
        return all(empty_case(a) or any(same_set(a, b, tol) for b in Y) for a in X)
    return cov(A, B) and cov(B, A)


# ------------------------------------------------------------------ certificates for `solve`
def comb_coeffs(basis, target):
    """coefficients a with sum a_j * basis_j = target (exact), or None"""
    m = len(basis)
    if m == 0:
        return [] if all(t == 0 for t in target) else None
    w = len(target)
    # unknowns a_0..a_{m-1}; equations per column
    M = [[basis[j][col] for j in range(m)] + [target[col]] for col in range(w)]
    piv = []
    r = 0
    for c in range(m):
        p = next((i for i in range(r, w) if M[i][c] != 0), None)
        if p is None:
            continue
        M[r], M[p] = M[p], M[r]
        k = M[r][c]
        M[r] = [v / k for v in M[r]]
        for i in range(w):
            if i != r and M[i][c] != 0:
                f = M[i][c]
                M[i] = [a - f * b for a, b in zip(M[i], M[r])]
        piv.append(c); r += 1
        if r == w:
            break
    for i in range(r, w):
        if M[i][m] != 0:
            return None
    a = [Fr(0)] * m
    for i, c in enumerate(piv):
        a[c] = M[i][m]
    return a


def rank(rows):
    M = [list(r) for r in rows]
    r = 0
    if not M:
        return 0
    for c in range(len(M[0])):
        p = next((i for i in range(r, len(M)) if M[i][c] != 0), None)
        if p is None:
            continue
        M[r], M[p] = M[p], M[r]
        k = M[r][c]
        M[r] = [v / k for v in M[r]]
        for i in range(len(M)):
            if i != r and M[i][c] != 0:
                f = M[i][c]
                M[i] = [a - f * b for a, b in zip(M[i], M[r])]
        r += 1
        if r == len(M):
            break
    return r


def eq_form(it):
    """('lin','eq',L,R) -> L - R"""
    k = max(len(it[2]), len(it[3]))
    L = list(it[2]) + [Fr(0)] * (k - len(it[2])); R = list(it[3]) + [Fr(0)] * (k - len(it[3]))
    return [a - b for a, b in zip(L, R)]


# ------------------------------------------------------------------ candidate points
def boundary_points(items, n, rng, count=2):
    """points exactly on the boundary of a linear item / on the zero set of a divisor, and just off it"""
    pts = []
    forms = []
    for it in items:
        if it[0] == "lin":
            forms.append(eq_form(it))
        else:
            forms.append(list(it[3]))
            rq = [it[4] * a for a in it[3]]
            forms.append([a - b for a, b in zip(it[2], rq)])
    for p in forms:
        nz = [i for i in range(n) if p[i + 1] != 0]
        if not nz:
            continue
        for _ in range(count):
            i = rng.choice(nz)
            base = [Fr(rng.randint(-4, 4), rng.choice([1, 1, 2, 3])) for _ in range(n)]
            rest = p[0] + sum(p[j + 1] * base[j] for j in range(n) if j != i)
            base[i] = -rest / p[i + 1]
            pts.append(list(base))
            for d in (Fr(1), Fr(1, 1000), Fr(1, 10 ** 9)):
                for s in (1, -1):
                    q = list(base); q[i] = q[i] + s * d; pts.append(q)
    return pts


def random_points(n, rng, count):
    pts = []
    for k in range(count):
        m = rng.random()
        if m < 0.3:
            pts.append([Fr(rng.randint(-3, 3)) for _ in range(n)])
        elif m < 0.6:
            pts.append([Fr(rng.randint(-40, 40), 8) for _ in range(n)])
        elif m < 0.8:
            pts.append([Fr(rng.randint(-10 ** 6, 10 ** 6), rng.randint(1, 1000)) for _ in range(n)])
        else:
            pts.append([Fr(rng.randint(-10, 10)) * Fr(10) ** rng.randint(-12, 24) for _ in range(n)])
    return pts


def corner_points(n):
    pts = [[Fr(0)] * n]
    for v in (Fr(1), Fr(-1)):
        pts.append([v] * n)
    for i in range(n):
        for v in (Fr(1), Fr(-1), Fr(1, 1000), Fr(-1, 1000)):
            p = [Fr(0)] * n; p[i] = v; pts.append(p)
    return pts


# ------------------------------------------------------------------ exact LP (tiny two-phase simplex, Bland's rule)
def _simplex(c, A, b):
    """maximise c.y subject to A y = b, y >= 0 (exact). -> ('optimal', y) | ('infeasible', None) | ('unbounded', None)"""
    m = len(A); n = len(c)
    T = []
    for i in range(m):
        row = list(A[i]); rhs = b[i]
        if rhs < 0:
            row = [-v for v in row]; rhs = -rhs
        T.append(row + [Fr(1) if j == i else Fr(0) for j in range(m)] + [rhs])
    basis = [n + i for i in range(m)]
    W = n + m

    def pivot(r, col):
        k = T[r][col]
        T[r] = [v / k for v in T[r]]
        for i in range(m):
            if i != r and T[i][col] != 0:
                f = T[i][col]
                T[i] = [a - f * p for a, p in zip(T[i], T[r])]
        basis[r] = col

    def run(obj, allowed):
        while True:
            cb = [obj[basis[i]] for i in range(m)]
            enter = None
            for j in range(allowed):
                if j in basis:
                    continue
                zj = sum(cb[i] * T[i][j] for i in range(m) if cb[i] != 0 and T[i][j] != 0)
                if obj[j] - zj > 0:
                    enter = j; break
            if enter is None:
                return "optimal"
            leave = None; best = None
            for i in range(m):
                if T[i][enter] > 0:
                    ratio = T[i][W] / T[i][enter]
                    if best is None or ratio < best or (ratio == best and basis[i] < basis[leave]):
                        best = ratio; leave = i
            if leave is None:
                return "unbounded"
            pivot(leave, enter)
    run([Fr(0)] * n + [Fr(-1)] * m, W)
    if any(basis[i] >= n and T[i][W] != 0 for i in range(m)):
        return "infeasible", None
    for i in range(m):
        if basis[i] >= n:
            j = next((j for j in range(n) if T[i][j] != 0 and j not in basis), None)
            if j is not None:
                pivot(i, j)
    st = run(list(c) + [Fr(0)] * m, n)
    if st != "optimal":
        return st, None
    y = [Fr(0)] * n
    for i in range(m):
        if basis[i] < n:
            y[basis[i]] = T[i][W]
    return "optimal", y


def lp_point(n, cons, thr=0):
    """cons: list of (cmp, f) meaning f(x) cmp 0, cmp in lt le gt ge eq.  An exact point maximising the smallest slack of
    the strict constraints (rows scaled to unit largest coefficient, slack capped at 1), or None if infeasible / slack <= thr."""
    rows = []
    for c, f in cons:
        f = list(f)
        if c in ("gt", "ge"):
            f = [-v for v in f]; c = FLIP[c]
        s = max([abs(v) for v in f[1:]] or [Fr(0)])
        if s == 0:
            if not cmp_holds(c, f[0], 0):
                return None
            continue
        rows.append((c, [v / s for v in f]))
    nineq = sum(1 for c, _ in rows if c != "eq")
    nv = 2 * n + 1 + nineq + 1
    A = []; b = []
    k = 0
    for c, f in rows:
        r = [Fr(0)] * nv
        for i in range(n):
            r[2 * i] = f[i + 1]; r[2 * i + 1] = -f[i + 1]
        if c == "lt":
            r[2 * n] = Fr(1)
        if c != "eq":
            r[2 * n + 1 + k] = Fr(1); k += 1
        A.append(r); b.append(-f[0])
    r = [Fr(0)] * nv; r[2 * n] = Fr(1); r[nv - 1] = Fr(1); A.append(r); b.append(Fr(1))
    obj = [Fr(0)] * nv; obj[2 * n] = Fr(1)
    st, y = _simplex(obj, A, b)
    if st != "optimal" or y[2 * n] <= thr:
        return None
    return [y[2 * i] - y[2 * i + 1] for i in range(n)]


NEG = {"lt": ["ge"], "le": ["gt"], "gt": ["le"], "ge": ["lt"], "eq": ["lt", "gt"], "ne": ["eq"]}


def _cons_of(it):
    return it[1], eq_form(it)


def lp_in_A_not_B(A_cases, B_cases, n, thr=0, cap=400):
    """a point satisfying some case of A and no case of B (cases: lists of ('lin', cmp, L, R)), by exact LP over every way
    of violating one line of each B case; complete for linear systems (up to `cap` LPs). -> (point | None, search was complete)"""
    budget = [cap]

    def feas(cons):
        budget[0] -= 1
        if budget[0] < 0:
            return None
        return lp_point(n, cons, thr)

    def branch_ne(cons, i):
        """replace `ne` constraints from index i on by lt / gt"""
        for j in range(i, len(cons)):
            if cons[j][0] == "ne":
                for alt in ("lt", "gt"):
                    c2 = cons[:j] + [(alt, cons[j][1])] + cons[j + 1:]
                    yield from branch_ne(c2, j + 1)
                return
        yield cons

    def dfs(cons, j):
        if budget[0] < 0:
            return None
        if j == len(B_cases):
            return feas(cons)
        if feas(cons) is None:
            return None
        for ln in B_cases[j]:
            c, f = _cons_of(ln)
            for neg in NEG[c]:
                p = dfs(cons + [(neg, f)], j + 1)
                if p is not None:
                    return p
        return None
    for a in A_cases:
        base = [_cons_of(ln) for ln in a]
        for cons in branch_ne(base, 0):
            p = dfs(cons, 0)
            if p is not None:
                return p, True
    return None, budget[0] >= 0      # (None, True): searched completely, no such point exists
