"""C18 - moment-imposing transforms hit their target and keep what they promise to keep; the statistical
definitions, L-p norms and point-to-point metrics equal their textbook (weighted) definitions.

Correspondence: real mystic.math.measures / mystic.math.distance / mystic.tools.connected / mystic.math.approx
vs lean Model/Measures.lean run at Float.  Two regimes (DESIGN.md 3.2 / 3.3):
  exact    every sum of the computation has terms that are small dyadic rationals (certified per case by
           `Cert`), so the order of summation cannot matter -> results compared BIT-EXACTLY;
  general  arbitrary floats, compared with relative tolerance 1e-9 (counted separately).
Monitor: the property's own statement evaluated with exact rational arithmetic (fractions.Fraction) on what
the implementation returned, independent of the model."""
import sys, time, math, json, warnings
from fractions import Fraction as Fr
import common
from common import case_rng, fl, fll, f2b, b2f, dyadic, parse_reply, floats_of
import dsl, framework, leandrv
from framework import Finding

PID = "C18"
MODULE = "MysticVerif.Props.C18"
THEOREMS = ["MysticVerif.C18." + t for t in """
mean_def mean_tol_def moment_def variance_def spread_def support_def ess_def expectation_def expected_moment_def
impose_mean_mean impose_mean_keeps
impose_variance_spec impose_std_spec impose_variance_degenerate impose_spread_spec
normalize_proportional normalize_total normalize_zsum_total impose_weight_norm_spec
impose_support_spec impose_support_zero_iff impose_unweighted_spec
impose_collapse_spec impose_collapse_survivor_spec collapse_total_not_kept_witness collapse_pair_not_zeroed_witness
lnorm_zero lnorm_pow lnorm_one lnorm_inf chebyshev_def hamming_def minkowski_pow euclidean_sq manhattan_def
tolerance_def almostEqual_def
median_shift_equivariant impose_median_spec
sort_def trim_weights_order_only tmean_def tvariance_def trimmed_k0_def k_zero_cut
impose_tmean_spec impose_tvariance_spec impose_tstd_spec impose_tvariance_degenerate
median_def impose_median_keeps_mad mad_affine impose_mad_spec impose_mad_zero_spec impose_mad_degenerate
expected_variance_def standard_moment_def skewness_kurtosis_def
impose_moment_order01 impose_moment_spec
impose_product_spec impose_product_even_sign_partial impose_product_even_sign_witness impose_product_zero impose_product_zsum_spec
normalize_lp_spec
metrics_matrix_def metrics_pairwise_def metrics_pairwise_broadcast_def metrics_dmin2_def metrics_mixed_def metrics_points_def minkowski_p0_raises
overflowed_false_of_finite minkowski_finite_no_fallback minkowski_overflow_fallback lnorm_finite_no_fallback lnorm_overflow_fallback
""".split()]

RTOL = 1e-9
INF = float("inf")


# ------------------------------------------------------------------ numbers
def same_num(a, b):
    """bit-identical up to the sign of zero and NaN payloads (the property cannot see either)"""
    a = float(a); b = float(b)
    if a != a or b != b:
        return a != a and b != b
    return a == b


def close(a, b, scale=1.0):
    a = float(a); b = float(b)
    if a != a or b != b:
        return a != a and b != b
    if a in (INF, -INF) or b in (INF, -INF):
        return a == b
    return abs(a - b) <= RTOL * (abs(a) + abs(b) + scale)


def cmp_num(exact, a, b, scale=1.0):
    return same_num(a, b) if exact else close(a, b, scale)


def cmp_vec(exact, a, b, scale=1.0):
    a = list(a); b = list(b)
    return len(a) == len(b) and all(cmp_num(exact, p, q, scale) for p, q in zip(a, b))


def nice(t):
    """a float that is a multiple of 2^-40 with |t| <= 256: sums of <= 32 such terms are exact in any order"""
    t = float(t)
    if t != t or abs(t) > 256.0:
        return False
    return (t * 1099511627776.0) == math.floor(t * 1099511627776.0)


class Cert:
    """certificate of the exactness regime: every summed term list is `nice`, every power is exact"""

    def __init__(self):
        self.ok = True

    def sum(self, terms):
        terms = [float(t) for t in terms]
        if len(terms) > 32 or not all(nice(t) for t in terms):
            self.ok = False
        return math.fsum(terms)

    def pow(self, d, n):
        r = float(d) ** n
        if not (r == r and abs(r) < 1e300 and Fr(float(d)) ** n == Fr(r)):
            self.ok = False
        return r

    def mean(self, xs, ws):
        if ws is None:
            return self.sum(xs) / len(xs) if xs else float("nan")
        s = self.sum([x * w for x, w in zip(xs, ws)])
        t = self.sum(ws)
        return s / t if t else float("nan")

    def moment(self, xs, ws, order):
        if order < 2:
            return 0.0
        m = self.mean(xs, ws)
        if m != m:
            self.ok = False
            return m
        return self.mean([self.pow(x - m, order) for x in xs], ws)


# ------------------------------------------------------------------ exact rational statistics (monitor)
def fr(xs):
    return [Fr(float(x)) for x in xs]


def q_wmean(xs, ws):
    xs = fr(xs)
    if ws is None:
        return sum(xs) / len(xs)
    ws = fr(ws)
    return sum(x * w for x, w in zip(xs, ws)) / sum(ws)


def q_wmoment(xs, ws, order):
    m = q_wmean(xs, ws)
    return q_wmean_f([(x - m) ** order for x in fr(xs)], ws)


def q_wmean_f(qs, ws):
    if ws is None:
        return sum(qs) / len(qs)
    ws = fr(ws)
    return sum(x * w for x, w in zip(qs, ws)) / sum(ws)


def q_spread(xs):
    xs = fr(xs)
    return max(xs) - min(xs)


def q_close(q, target, scale=1.0):
    """|q - target| small relative to the magnitudes involved (q, target exact rationals or floats)"""
    q = Fr(q) if not isinstance(q, Fr) else q
    t = Fr(float(target)) if not isinstance(target, Fr) else target
    return abs(q - t) <= Fr(RTOL) * (abs(q) + abs(t) + Fr(scale))


def finite(v):
    return all(float(a) == float(a) and abs(float(a)) != INF for a in v)


# ------------------------------------------------------------------ generators
def compose(rng, T, n, pzero):
    parts = [0] * n
    idx = [i for i in range(n) if rng.random() >= pzero] or [rng.randrange(n)]
    for _ in range(T):
        parts[rng.choice(idx)] += 1
    return parts


def gen_weights(rng, n, exact, pzero=0.25, negative=False):
    if n == 0:
        return []
    if exact:
        T = rng.choice([2, 4, 4, 8, 8, 16])
        w = [float(p) for p in compose(rng, T, n, pzero)]
        s = rng.choice([0.125, 0.25, 0.5, 1.0, 1.0, 1.0, 2.0])
        w = [a * s for a in w]
        if negative and n >= 2:
            i = rng.randrange(n)
            w[i] = -w[i]
        return w
    w = [0.0 if rng.random() < pzero else rng.uniform(0.05, 3.0) for _ in range(n)]
    if not any(w):
        w[rng.randrange(n)] = rng.uniform(0.05, 3.0)
    if negative and n >= 2:
        i = rng.randrange(n)
        w[i] = -w[i]
    return w


def gen_samples(rng, n, exact, ws="unweighted", distinct=False):
    k = rng.random()
    if exact:
        if k < 0.12 and not distinct:
            a = dyadic(rng, -8, 8, 8)
            xs = [a] * n                                   # degenerate: all equal
        elif k < 0.3:
            xs = [float(rng.randint(-4, 4)) for _ in range(n)]   # ties likely
        else:
            xs = [dyadic(rng, -8, 8, 8) for _ in range(n)]
        if ws == "unweighted" and n:
            s8 = int(round(sum(xs) * 8))
            xs[-1] += ((-s8) % n) / 8.0                    # make the plain mean a multiple of 1/8
    else:
        if k < 0.15:
            xs = [float(rng.randint(-5, 5)) for _ in range(n)]
        else:
            xs = [rng.uniform(-10, 10) for _ in range(n)]
    if distinct and len(set(xs)) < 2 and n >= 2:
        xs[0] = xs[0] + 1.0; xs[1] = xs[1] - 1.0           # keeps the sum
    return xs


def gen_xw(rng, exact, nmin=1, nmax=7, weighted=None, distinct=False):
    n = rng.randint(nmin, nmax)
    if weighted is None:
        weighted = rng.random() < 0.7
    if weighted:
        ws = gen_weights(rng, n, exact)
        xs = gen_samples(rng, n, exact, ws="weighted", distinct=distinct)
    else:
        ws = None
        xs = gen_samples(rng, n, exact, ws="unweighted", distinct=distinct)
    return xs, ws


def gen_points(rng, n, dim, exact):
    if exact:
        return [[dyadic(rng, -4, 4, 4) for _ in range(dim)] for _ in range(n)]
    return [[rng.uniform(-5, 5) if rng.random() > 0.2 else float(rng.randint(-2, 2)) for _ in range(dim)] for _ in range(n)]


def gen_f(rng, dim, exact):
    """a DSL cost without division; the exact regime uses small dyadic constants"""
    def g(depth):
        if depth == 0 or rng.random() < 0.3:
            if rng.random() < 0.4:
                return ("c", dyadic(rng, -2, 2, 2) if exact else common.gfloat(rng, 3.0))
            return ("x", rng.randrange(dim))
        op = rng.choice(["+", "-", "*", "neg", "abs", "min", "max", "sq"])
        if op in ("neg", "abs", "sq"):
            return (op, g(depth - 1))
        return (op, g(depth - 1), g(depth - 1))
    return g(2)


def wtok(ws):
    return "none" if ws is None else fl(ws)


def err_enum(exc):
    if isinstance(exc, ZeroDivisionError):
        return "zerodiv"
    if isinstance(exc, IndexError):
        return "index"
    if isinstance(exc, ValueError):
        return "value"
    if isinstance(exc, TypeError):
        return "type"
    return "other:" + type(exc).__name__


def call(fn, *a, **k):
    """run the implementation; ('ok', value) | ('err', enum)"""
    with warnings.catch_warnings():
        warnings.simplefilter("ignore")
        try:
            return ("ok", fn(*a, **k))
        except Exception as exc:      # noqa
            return ("err", err_enum(exc))


def flist(v):
    return [float(a) for a in v]


# ------------------------------------------------------------------ case families
# every family returns dict(op, inputs(jsonable), line, obs, exact, check) where
# check(reply_tuple) -> (diffs[list of str], monitor[list of (class_key, what)], tag, nontrivial)
def maybe_np(rng, v):
    import numpy as np
    return np.array(v, dtype=float) if (v is not None and len(v) and rng.random() < 0.25) else v


def reply_err(r):
    return r[1] if r[0] == "err" else None


def diff_scalar(name, exact, obs, r, key="v", scale=1.0):
    """compare an ('ok', number)|('err', e) observation with a parsed reply"""
    if obs[0] == "err" or r[0] == "err":
        if obs[0] != r[0] or obs[1] != r[1]:
            return ["%s: impl=%r model=%r" % (name, obs, r[:2])]
        return []
    mv = b2f(r[1][key])
    if not cmp_num(exact, obs[1], mv, scale):
        return ["%s: impl=%r model=%r (%s)" % (name, float(obs[1]), mv, "bit-exact" if exact else "rel 1e-9")]
    return []


def diff_vec(name, exact, iv, r, key, scale=1.0):
    mv = floats_of(r[1][key])
    if not cmp_vec(exact, iv, mv, scale):
        return ["%s: impl=%r model=%r (%s)" % (name, flist(iv), mv, "bit-exact" if exact else "rel 1e-9")]
    return []


def fam_stat(rng, exact):
    from mystic.math import measures as M
    sub = rng.choice(["mean", "mean", "moment", "moment", "variance", "spread", "support"])
    ct = Cert()
    if sub == "spread":
        xs = gen_samples(rng, rng.randint(1, 7), exact)
        obs = call(M.spread, maybe_np(rng, xs))
        line = "C18 spread (xs %s)" % fl(xs)

        def check(r):
            d = diff_scalar("spread", True, obs, r)          # max-min: one subtraction, always bit-exact
            mon = []
            if obs[0] == "ok" and Fr(float(obs[1])) != Fr(max(xs) - min(xs)):
                mon.append(("spread/definition", "spread(%r) = %r, expected max-min" % (xs, obs[1])))
            return d, mon, "spread", len(set(xs)) > 1
        return dict(op="spread", inputs={"xs": xs}, line=line, obs=obs, exact=True, check=check)
    if sub == "support":
        n = rng.randint(1, 6)
        ws = gen_weights(rng, n, exact, pzero=0.35, negative=rng.random() < 0.3)
        tol = rng.choice([0.0, 0.0, 0.25, 0.5, 1.0])
        if rng.random() < 0.3 and ws:
            tol = abs(rng.choice(ws))                        # boundary: w == tol is NOT support
        pts = gen_points(rng, n, rng.randint(1, 2), True)
        o1 = call(M.support_index, ws, tol); o2 = call(M.support, pts, ws, tol)
        line = "C18 support (ws %s) (tol %s) (pts %s)" % (fl(ws), f2b(tol), fll(pts))

        def check(r):
            d = []
            if r[0] != "ok" or o1[0] != "ok" or o2[0] != "ok":
                return ["support: impl=%r/%r model=%r" % (o1, o2, r[:2])], [], "support", False
            if [int(t) for t in r[1]["idx"]] != list(o1[1]):
                d.append("support_index: impl=%r model=%r" % (o1[1], r[1]["idx"]))
            mp = [floats_of(p) for p in r[1]["pts"]]
            if mp != [flist(p) for p in o2[1]]:
                d.append("support: impl=%r model=%r" % (o2[1], mp))
            want = [i for i in range(n) if ws[i] > tol]
            mon = []
            if list(o1[1]) != want or [flist(p) for p in o2[1]] != [pts[i] for i in want]:
                mon.append(("support/definition", "support_index(%r, %r) = %r, expected %r" % (ws, tol, o1[1], want)))
            return d, mon, "support", 0 < len(want) < n
        return dict(op="support", inputs={"ws": ws, "tol": tol, "pts": pts}, line=line, obs=(o1, o2), exact=True, check=check)
    xs, ws = gen_xw(rng, exact)
    if ws is not None and len(ws) >= 2 and rng.random() < 0.15:
        i = rng.randrange(len(ws)); ws[i] = -ws[i]           # a negative weight (the textbook sums are still defined)
    tol = rng.choice([0, 0, 0, 0.5, 2.0]) if sub != "variance" else 0
    order = rng.choice([0, 1, 2, 2, 3, 4]) if sub == "moment" else (2 if sub == "variance" else 1)
    if sub == "mean":
        ct.mean(xs, ws)
        obs = call(M.mean, maybe_np(rng, xs), maybe_np(rng, ws), tol)
        line = "C18 mean (xs %s) (ws %s) (tol %s)" % (fl(xs), wtok(ws), f2b(tol))
    elif sub == "moment":
        ct.moment(xs, ws, order)
        obs = call(M.moment, maybe_np(rng, xs), maybe_np(rng, ws), order, tol)
        line = "C18 moment (xs %s) (ws %s) (order %d) (tol %s)" % (fl(xs), wtok(ws), order, f2b(tol))
    else:
        ct.moment(xs, ws, 2)
        obs = call(lambda a, b: (M.variance(a, b), M.std(a, b)), maybe_np(rng, xs), maybe_np(rng, ws))
        line = "C18 variance (xs %s) (ws %s)" % (fl(xs), wtok(ws))
    ex = exact and ct.ok
    scale = max([abs(x) for x in xs] + [1.0]) ** max(order, 1)

    def check(r):
        mon = []
        if sub == "variance":
            if obs[0] == "err" or r[0] == "err":
                d = [] if (obs[0] == r[0] and obs[1] == r[1]) else ["variance: impl=%r model=%r" % (obs, r[:2])]
                return d, mon, "variance:err", False
            d = diff_scalar("variance", ex, ("ok", obs[1][0]), r, "v", scale) + diff_scalar("std", ex, ("ok", obs[1][1]), r, "sd", scale)
            val = obs[1][0]
        else:
            d = diff_scalar(sub, ex, obs, r, "v", scale)
            val = obs[1] if obs[0] == "ok" else None
        # monitor: textbook weighted definition in exact rationals (defined when sum of weights != 0)
        if val is not None and (ws is None or sum(fr(ws)) != 0):
            if order == 0:
                want = Fr(1)
            elif order == 1 and sub == "moment":
                want = Fr(0)
            elif sub == "mean":
                want = q_wmean(xs, ws)
            else:
                want = q_wmoment(xs, ws, order)
            if abs(want) <= Fr(tol) and not (sub == "moment" and order < 2):
                want = Fr(0)
            if not (float(val) == float(val)) or not q_close(Fr(float(val)), want, scale):
                # a value within rounding of the tolerance cut may legitimately land on either side
                if not (tol and q_close(abs(q_wmean(xs, ws) if sub == "mean" else q_wmoment(xs, ws, order)), Fr(tol), scale)):
                    mon.append(("%s/definition" % sub, "%s(%r, %r, order=%d, tol=%r) = %r, textbook value %r" %
                                (sub, xs, ws, order, tol, float(val), float(want))))
            if sub == "variance" and float(val) >= 0 and not close(obs[1][1], math.sqrt(float(val))):
                mon.append(("std/definition", "std != sqrt(variance) for %r %r" % (xs, ws)))
        nt = len(set(xs)) > 1 and (ws is None or sum(1 for w in ws if w) > 1)
        return d, mon, "%s:%s:%s" % (sub, "weighted" if ws is not None else "plain", "exact" if ex else "general"), nt
    return dict(op=sub, inputs={"xs": xs, "ws": ws, "tol": tol, "order": order}, line=line, obs=obs, exact=ex, check=check)


def fam_ess(rng, exact):
    from mystic.math import measures as M
    sub = rng.choice(["max", "min", "ptp", "expectation", "expectation", "expected_moment", "expected_moment"])
    n = rng.randint(1, 6); dim = rng.randint(1, 3)
    pts = gen_points(rng, n, dim, exact)
    e = gen_f(rng, dim, exact)
    weighted = rng.random() < 0.75
    ws = gen_weights(rng, n, exact, pzero=0.3, negative=(rng.random() < 0.25)) if weighted else None
    tol = rng.choice([0.0, 0.0, 0.0, 0.25, 0.5, 1.0])
    if ws and rng.random() < 0.25:
        tol = abs(rng.choice(ws))                           # boundary: a weight equal to tol is dropped
    order = rng.choice([0, 1, 2, 2, 3]) if sub == "expected_moment" else 1
    called = []

    def f(p):
        called.append(flist(p))
        return dsl.ev(e, p)
    ys = [dsl.ev(e, p) for p in pts]
    ct = Cert()
    if sub in ("max", "min", "ptp"):
        fn = {"max": M.ess_maximum, "min": M.ess_minimum, "ptp": M.ess_ptp}[sub]
        obs = call(fn, f, pts, ws, tol)
        line = "C18 ess (kind %s) (f %s) (pts %s) (ws %s) (tol %s)" % (sub, dsl.expr_sexp(e), fll(pts), wtok(ws), f2b(tol))
        ex = True                                           # max/min and one subtraction: always bit-exact
    else:
        if ws is None:
            keep = list(range(n))
            kw = None
        else:
            keep = [i for i in range(n) if abs(ws[i]) > tol]
            kw = [ws[i] for i in keep]
        ky = [ys[i] for i in keep]
        if sub == "expectation":
            if keep:
                ct.mean(ky, kw)
            obs = call(M.expectation, f, pts, ws, tol)
            line = "C18 expectation (f %s) (pts %s) (ws %s) (tol %s)" % (dsl.expr_sexp(e), fll(pts), wtok(ws), f2b(tol))
        else:
            if keep:
                ct.moment(ky, kw, order)
            obs = call(M._expected_moment, f, pts, ws, order, tol)
            line = "C18 expected_moment (f %s) (pts %s) (ws %s) (order %d) (tol %s)" % (dsl.expr_sexp(e), fll(pts), wtok(ws), order, f2b(tol))
        ex = exact and ct.ok
    scale = max([abs(y) for y in ys] + [1.0]) ** max(order, 1)

    def check(r):
        d = diff_scalar(sub, ex, obs, r, "v", scale)
        mon = []
        if sub in ("max", "min", "ptp"):
            sup = list(range(n)) if ws is None else [i for i in range(n) if ws[i] > tol]
            if obs[0] == "ok":
                vals = [ys[i] for i in sup]
                want = {"max": max(vals), "min": min(vals), "ptp": max(vals) - min(vals)}[sub] if vals else None
                if want is None or not same_num(obs[1], want):
                    mon.append(("ess_%s/definition" % sub, "ess_%s over support %r of values %r = %r, expected %r" % (sub, sup, ys, obs[1], want)))
            elif sup:
                mon.append(("ess_%s/raises" % sub, "ess_%s raised %s on a non-empty support" % (sub, obs[1])))
            if ws is not None and sorted(called) != sorted(pts[i] for i in sup):
                mon.append(("ess_%s/evaluates-off-support" % sub, "f evaluated at %r, support is %r" % (called, [pts[i] for i in sup])))
            return d, mon, "ess_%s:%s" % (sub, "weighted" if ws is not None else "plain"), ws is not None and 0 < len(sup) < n
        # expectation / _expected_moment: textbook value over the weights with |w| > tol
        if obs[0] == "ok" and keep and (kw is None or sum(fr(kw)) != 0):
            if order == 0:
                want = Fr(1)
            elif sub == "expected_moment" and order == 1:
                want = Fr(0)
            elif sub == "expectation":
                want = q_wmean(ky, kw)
            else:
                want = q_wmoment(ky, kw, order)
            if not (float(obs[1]) == float(obs[1])) or not q_close(Fr(float(obs[1])), want, scale):
                mon.append(("%s/definition" % sub, "%s = %r, textbook value %r (values %r weights %r tol %r order %d)" %
                            (sub, float(obs[1]), float(want), ys, ws, tol, order)))
        if obs[0] == "ok" and ws is not None and not (sub == "expected_moment" and order < 2):
            if sorted(called) != sorted(pts[i] for i in keep):
                mon.append(("%s/evaluates-light-points" % sub, "f evaluated at %r, expected only |w|>tol points %r" % (called, [pts[i] for i in keep])))
        nt = ws is not None and 0 < len(keep) < n
        return d, mon, "%s:%s:%s" % (sub, "weighted" if ws is not None else "plain", "exact" if ex else "general"), nt
    return dict(op="ess/" + sub, inputs={"f": dsl.expr_sexp(e), "pts": pts, "ws": ws, "tol": tol, "order": order},
                line=line, obs=obs, exact=ex, check=check)


def fam_impose(rng, exact):
    from mystic.math import measures as M
    sub = rng.choice(["mean", "mean", "variance", "variance", "std", "spread", "spread"])
    degenerate = exact and rng.random() < 0.08               # zero variance / spread: exact regime only
    xs, ws = gen_xw(rng, exact, nmin=(1 if sub == "mean" or degenerate else 2), distinct=not degenerate and sub != "mean")
    if degenerate and sub != "mean":
        xs = [xs[0]] * len(xs)
    if not exact and sub != "mean":
        # the property excludes (near-)degenerate variance / spread: keep the general stream well conditioned
        for _ in range(30):
            if (ws is None or sum(fr(ws)) != 0) and q_wmoment(xs, ws, 2) >= Fr(1, 20) and q_spread(xs) >= Fr(1, 4):
                break
            xs, ws = gen_xw(rng, exact, nmin=2, distinct=True)
        else:
            xs, ws = [0.5, 2.25, -1.125], None
    n = len(xs)
    ct = Cert()
    m0 = ct.mean(xs, ws)
    if sub == "mean":
        t = dyadic(rng, -8, 8, 8) if exact else rng.uniform(-10, 10)
        scaled = xs
    else:
        if sub in ("variance", "std"):
            base = ct.moment(xs, ws, 2)
        else:
            base = max(xs) - min(xs)
        k = rng.random()
        s = rng.choice([0.25, 0.5, 1.0, 2.0, 4.0]) if (exact and k < 0.5) else (rng.choice([0.5, 1.5, 3.0, 0.75]) if exact else rng.uniform(0.1, 4.0))
        if rng.random() < 0.06:
            s = 0.0
        if sub == "variance":
            t = s * s * base if base == base else 1.0
            scale_f = math.sqrt(t / base) if base and base == base and t / base >= 0 else 0.0
        elif sub == "std":
            t = s * math.sqrt(base) if (base == base and base >= 0) else 1.0
            if exact and Fr(t) * Fr(t) != Fr(s) * Fr(s) * Fr(base):
                ct.ok = False
            scale_f = math.sqrt((t * t) / base) if base else 0.0
        else:
            t = s * base
            scale_f = t / base if base else 0.0
        if not base and rng.random() < 0.5:
            t = 0.0
        scaled = [x * scale_f for x in xs]
        ct.mean(scaled, ws)
    ex = exact and ct.ok
    fn = {"mean": M.impose_mean, "variance": M.impose_variance, "std": M.impose_std, "spread": M.impose_spread}[sub]
    obs = call(fn, t, maybe_np(rng, xs), maybe_np(rng, ws))
    line = "C18 impose (kind %s) (t %s) (xs %s) (ws %s)" % (sub, f2b(t), fl(xs), wtok(ws))
    scale = max([abs(x) for x in xs] + [abs(t), 1.0]) * 4

    def check(r):
        mon = []
        if obs[0] == "err" or r[0] == "err":
            d = [] if (obs[0] == r[0] and obs[1] == r[1]) else ["impose_%s: impl=%r model=%r" % (sub, obs, r[:2])]
            return d, mon, "impose_%s:err" % sub, False
        y = flist(obs[1])
        d = diff_vec("impose_%s" % sub, ex, y, r, "y", scale)
        wsum_ok = ws is None or sum(fr(ws)) != 0
        if len(y) != n:
            mon.append(("impose_%s/length" % sub, "returned %d points for %d samples" % (len(y), n)))
        elif wsum_ok and finite(y):
            qm0 = q_wmean(xs, ws); qv0 = q_wmoment(xs, ws, 2); qr0 = q_spread(xs)
            qm = q_wmean(y, ws); qv = q_wmoment(y, ws, 2); qr = q_spread(y)
            sc2 = scale * scale
            if sub == "mean":
                if not q_close(qm, t, scale):
                    mon.append(("impose_mean/mean", "mean of impose_mean(%r, %r, %r) is %r" % (t, xs, ws, float(qm))))
                if not q_close(qr, qr0, scale):
                    mon.append(("impose_mean/spread-kept", "spread changed %r -> %r" % (float(qr0), float(qr))))
                if not q_close(qv, qv0, sc2):
                    mon.append(("impose_mean/variance-kept", "variance changed %r -> %r" % (float(qv0), float(qv))))
            else:
                if not q_close(qm, qm0, scale):
                    mon.append(("impose_%s/mean-kept" % sub, "mean changed %r -> %r (t=%r xs=%r ws=%r)" % (float(qm0), float(qm), t, xs, ws)))
                if sub == "variance" and not q_close(qv, t, sc2):
                    mon.append(("impose_variance/target", "variance of result %r, target %r (xs=%r ws=%r)" % (float(qv), t, xs, ws)))
                if sub == "std" and not q_close(qv, Fr(t) * Fr(t), sc2):
                    mon.append(("impose_std/target", "variance of result %r, target std %r (xs=%r ws=%r)" % (float(qv), t, xs, ws)))
                if sub == "spread" and not q_close(qr, abs(Fr(t)), scale):
                    mon.append(("impose_spread/target", "spread of result %r, target %r (xs=%r)" % (float(qr), t, xs)))
        elif wsum_ok and sub != "mean":
            # nan result is the documented answer only for a degenerate input (zero variance / spread)
            qbase = q_wmoment(xs, ws, 2) if sub in ("variance", "std") else q_spread(xs)
            if qbase != 0 and t >= 0:
                mon.append(("impose_%s/nan-on-nondegenerate" % sub, "non-finite result %r for xs=%r ws=%r t=%r" % (y, xs, ws, t)))
        tag = "impose_%s:%s:%s%s" % (sub, "weighted" if ws is not None else "plain", "exact" if ex else "general",
                                     "" if finite(y) else ":nan")
        return d, mon, tag, finite(y) and n > 1 and (sub == "mean" or y != xs)
    return dict(op="impose_" + sub, inputs={"t": t, "xs": xs, "ws": ws}, line=line, obs=obs, exact=ex, check=check)


def fam_weights(rng, exact):
    from mystic.math import measures as M
    sub = rng.choice(["normalize", "normalize", "impose_sum", "lp", "weight_norm"])
    n = rng.randint(1, 7)
    neg = rng.random() < 0.3
    ws = gen_weights(rng, n, exact, pzero=0.2, negative=neg)
    k = rng.random()
    if k < 0.06:
        ws = [0.0] * n                                       # sum |w| == 0
    elif k < 0.12 and n >= 2:
        ws = [0.0] * n; ws[0] = 1.0; ws[1] = -1.0            # sum w == 0, sum |w| != 0
    ct = Cert()
    W = ct.sum([abs(w) for w in ws])
    if sub == "lp":
        p = rng.choice([0, 1, 1, 2, 2, 3])
        zsum = rng.random() < 0.2
        if p >= 1:
            ct.sum([abs(ct.pow(w, p)) for w in ws])
        ex = exact and ct.ok and p in (0, 1)                 # the p-th root of p >= 2 is libm pow: toleranced
        obs = call(M.normalize, maybe_np(rng, ws), "l%d" % p, zsum)
        line = "C18 normalize (ws %s) (lp %d) (zsum %s)" % (fl(ws), p, "true" if zsum else "false")

        def check(r):
            if obs[0] == "err" or r[0] == "err":
                d = [] if (obs[0] == r[0] and obs[1] == r[1]) else ["normalize-l%d: impl=%r model=%r" % (p, obs, r[:2])]
                return d, [], "normalize:lp:err", False
            y = flist(obs[1])
            d = diff_vec("normalize(l%d)" % p, ex, y, r, "w", 4.0)
            mon = []
            if finite(y) and any(ws) and p >= 1:
                # textbook: the L-p norm of the result is 1
                lp = sum(abs(Fr(a)) ** p for a in y)
                if not q_close(lp, Fr(1), 1.0):
                    mon.append(("normalize/lp-norm", "sum |w|^%d of normalize(%r, 'l%d') is %r, expected 1" % (p, ws, p, float(lp))))
            return d, mon, "normalize:l%d:%s" % (p, "exact" if ex else "general"), finite(y) and any(y)
        return dict(op="normalize-lp", inputs={"ws": ws, "p": p, "zsum": zsum}, line=line, obs=obs, exact=ex, check=check)
    mass = (dyadic(rng, -4, 4, 4) if exact else rng.uniform(-4, 4))
    if rng.random() < 0.15:
        mass = 0.0
    if sub == "weight_norm":
        if not any(ws) or sum(fr(ws)) == 0:
            ws = gen_weights(rng, n, exact, pzero=0.2)
            W = ct.sum([abs(w) for w in ws])
        if mass == 0.0:
            mass = 1.0
        xs = gen_samples(rng, n, exact, ws="weighted")
        m0 = ct.mean(xs, ws)
        w1 = [w / W for w in ws] if W else ws
        mm = ct.sum(w1)
        w2 = [(mass * a) / mm for a in w1] if mm else w1
        ct.mean(xs, w2)
        ex = exact and ct.ok
        obs = call(M.impose_weight_norm, maybe_np(rng, xs), maybe_np(rng, ws), mass)
        line = "C18 weight_norm (xs %s) (ws %s) (mass %s)" % (fl(xs), fl(ws), f2b(mass))
        scale = max([abs(x) for x in xs] + [abs(mass), 1.0]) * 4

        def check(r):
            if obs[0] == "err" or r[0] == "err":
                d = [] if (obs[0] == r[0] and obs[1] == r[1]) else ["impose_weight_norm: impl=%r model=%r" % (obs, r[:2])]
                return d, [], "weight_norm:err", False
            y = flist(obs[1][0]); w = flist(obs[1][1])
            d = diff_vec("impose_weight_norm.samples", ex, y, r, "y", scale) + diff_vec("impose_weight_norm.weights", ex, w, r, "w", scale)
            mon = []
            if finite(y) and finite(w) and sum(fr(w)) != 0:
                if not q_close(sum(fr(w)), mass, scale):
                    mon.append(("impose_weight_norm/total", "weights sum to %r, mass %r (ws=%r)" % (float(sum(fr(w))), mass, ws)))
                if not q_close(q_wmean(y, w), q_wmean(xs, ws), scale):
                    mon.append(("impose_weight_norm/mean-kept", "weighted mean %r -> %r (xs=%r ws=%r mass=%r)" %
                                (float(q_wmean(xs, ws)), float(q_wmean(y, w)), xs, ws, mass)))
            return d, mon, "weight_norm:%s" % ("exact" if ex else "general"), finite(y) and n > 1
        return dict(op="impose_weight_norm", inputs={"xs": xs, "ws": ws, "mass": mass}, line=line, obs=obs, exact=ex, check=check)
    zsum = rng.random() < 0.3
    zmass = rng.choice([1.0, 1.0, 2.0, 0.5])
    w1 = [w / W for w in ws] if W else ws
    ct.sum(w1)
    ct.sum(ws)
    ex = exact and ct.ok
    arg = maybe_np(rng, ws)
    if sub == "impose_sum":
        obs = call(M.impose_sum, mass, arg, zsum, zmass)
    else:
        obs = call(M.normalize, arg, mass, zsum, zmass)
    arg_after = flist(arg)
    line = "C18 normalize (ws %s) (mass %s) (zsum %s) (zmass %s)" % (fl(ws), f2b(mass), "true" if zsum else "false", f2b(zmass))
    scale = max([abs(w) for w in ws] + [abs(mass), 1.0]) * 4

    def check(r):
        if obs[0] == "err" or r[0] == "err":
            d = [] if (obs[0] == r[0] and obs[1] == r[1]) else ["%s: impl=%r model=%r" % (sub, obs, r[:2])]
            return d, [], "%s:err" % sub, False
        y = flist(obs[1])
        d = diff_vec(sub, ex, y, r, "w", scale)
        mon = []
        if not all(same_num(a, c) for a, c in zip(arg_after, ws)):
            mon.append(("%s/mutates-input" % sub, "the caller's weights %r were edited to %r (mass=%r zsum=%r)" % (ws, arg_after, mass, zsum)))
        sabs = sum(abs(a) for a in fr(ws)); ssum = sum(fr(ws))
        if len(y) != n:
            mon.append(("%s/length" % sub, "returned %d weights for %d" % (len(y), n)))
        elif sabs != 0 and ssum != 0 and finite(y):
            # reaches the requested total (mass = 0 without zsum gives all zeros, with zsum a counterbalanced set)
            if not q_close(sum(fr(y)), mass, scale):
                mon.append(("%s/total" % sub, "%s(%r, mass=%r, zsum=%r, zmass=%r) sums to %r" % (sub, ws, mass, zsum, zmass, float(sum(fr(y))))))
            if mass != 0.0:
                # proportions kept: y_i * sum(w) == mass * w_i
                if not all(q_close(Fr(a) * ssum, Fr(mass) * Fr(b), scale * scale) for a, b in zip(y, ws)):
                    mon.append(("%s/proportions" % sub, "%s(%r, mass=%r) = %r is not a rescaling" % (sub, ws, mass, y)))
        elif sabs != 0 and ssum != 0:
            mon.append(("%s/non-finite" % sub, "%s(%r, mass=%r, zsum=%r) = %r" % (sub, ws, mass, zsum, y)))
        branch = "zero-abs" if sabs == 0 else ("zero-sum" if ssum == 0 else ("zsum-counterbalance" if (mass == 0.0 and zsum) else "scaled"))
        return d, mon, "%s:%s:%s" % (sub, branch, "exact" if ex else "general"), branch in ("scaled", "zsum-counterbalance") and n > 1
    return dict(op=sub, inputs={"ws": ws, "mass": mass, "zsum": zsum, "zmass": zmass}, line=line, obs=obs, exact=ex, check=check)


def fam_surgery(rng, exact):
    from mystic.math import measures as M
    sub = rng.choice(["support", "unweighted"])
    n = rng.randint(2, 7)
    # choose the kept set K first (the weights that stay non-zero), then weights whose kept / dropped parts
    # both have power-of-two totals in the exact regime
    kept = sorted(rng.sample(range(n), rng.randint(1, n)))
    dropped = [i for i in range(n) if i not in kept]
    ws = [0.0] * n
    if exact:
        T1 = rng.choice([2, 4, 8])
        for i, p in zip(kept, compose(rng, T1, len(kept), 0.15)):
            ws[i] = float(p)
        if dropped:
            T2 = rng.choice([0, T1, 3 * T1])
            for i, p in zip(dropped, compose(rng, T2, len(dropped), 0.15)):
                ws[i] = float(p)
        s = rng.choice([0.25, 0.5, 1.0, 1.0, 2.0])
        ws = [w * s for w in ws]
    else:
        ws = [0.0 if rng.random() < 0.15 else rng.uniform(0.05, 3.0) for _ in range(n)]
        if not any(ws[i] for i in kept):
            ws[kept[0]] = 1.5
    xs = gen_samples(rng, n, exact, ws="weighted")
    sel = kept if sub == "support" else dropped            # the index argument
    index = [(i - n if rng.random() < 0.3 else i) for i in sel]    # negative aliases
    rng.shuffle(index)
    if rng.random() < 0.2 and index:
        index.append(index[0])                               # duplicates are harmless
    if rng.random() < 0.1:
        index.append(n + rng.randint(0, 3))                  # out-of-range entries never match
    nullable = True
    kw = {}
    if sub == "unweighted" and rng.random() < 0.3:
        nullable = False; kw = {"nullable": False}
    if sub == "unweighted" and not nullable and dropped and rng.random() < 0.4:
        # nullable=False and nothing left off the index: the remaining points are reweighted uniformly
        for i in kept:
            ws[i] = 0.0
        if not any(ws):
            ws[dropped[0]] = 2.0
    ct = Cert()
    ct.mean(xs, ws)
    masked = [ws[i] if i in kept else 0.0 for i in range(n)]
    if sub == "unweighted" and not nullable and not any(masked):
        masked = [1.0 if i in kept else 0.0 for i in range(n)]
    W = ct.sum([abs(w) for w in masked]); tot = ct.sum(ws)
    w1 = [w / W for w in masked] if W else masked
    mm = ct.sum(w1)
    w2 = [(tot * a) / mm for a in w1] if mm else w1
    ct.mean(xs, w2)
    ex = exact and ct.ok
    arg = index if rng.random() < 0.7 else (tuple(index) if rng.random() < 0.5 else set(index))
    fn = M.impose_support if sub == "support" else M.impose_unweighted
    obs = call(fn, arg, maybe_np(rng, xs), maybe_np(rng, ws), **kw)
    line = "C18 support_surgery (kind %s) (xs %s) (ws %s) (index (%s)) (nullable %s)" % (
        sub, fl(xs), fl(ws), " ".join(str(i) for i in index), "true" if nullable else "false")
    scale = max([abs(x) for x in xs] + [abs(w) for w in ws] + [1.0]) * 4

    def check(r):
        if obs[0] == "err" or r[0] == "err":
            d = [] if (obs[0] == r[0] and obs[1] == r[1]) else ["impose_%s: impl=%r model=%r" % (sub, obs, r[:2])]
            return d, [], "impose_%s:err" % sub, False
        y = flist(obs[1][0]); w = flist(obs[1][1])
        d = diff_vec("impose_%s.samples" % sub, ex, y, r, "y", scale) + diff_vec("impose_%s.weights" % sub, ex, w, r, "w", scale)
        mon = []
        keptmass = sum(Fr(masked[i]) for i in kept)
        if len(w) != n or len(y) != n:
            mon.append(("impose_%s/length" % sub, "lengths %d/%d for %d" % (len(y), len(w), n)))
        elif keptmass != 0:
            bad0 = [i for i in dropped if w[i] != 0.0]
            badk = [i for i in kept if (masked[i] != 0.0) != (w[i] != 0.0)]
            if bad0:
                mon.append(("impose_%s/designated-not-zero" % sub, "weights %r should be zero: %r (index=%r ws=%r)" % (bad0, w, index, ws)))
            if badk:
                mon.append(("impose_%s/kept-weight-zeroed" % sub, "weights %r changed zero-ness: %r (index=%r ws=%r)" % (badk, w, index, ws)))
            if finite(w) and not q_close(sum(fr(w)), sum(fr(ws)), scale):
                mon.append(("impose_%s/total-weight" % sub, "total weight %r -> %r (index=%r ws=%r)" % (float(sum(fr(ws))), float(sum(fr(w))), index, ws)))
            if finite(w) and finite(y) and sum(fr(w)) != 0 and not q_close(q_wmean(y, w), q_wmean(xs, ws), scale):
                mon.append(("impose_%s/mean-kept" % sub, "weighted mean %r -> %r (index=%r xs=%r ws=%r)" %
                            (float(q_wmean(xs, ws)), float(q_wmean(y, w)), index, xs, ws)))
            if finite(w) and not all(q_close(Fr(w[i]) * keptmass, Fr(masked[i]) * sum(fr(ws)), scale * scale) for i in kept):
                mon.append(("impose_%s/proportions" % sub, "kept weights are not rescaled proportionally: %r -> %r" % (ws, w)))
        return d, mon, "impose_%s:%s%s" % (sub, "exact" if ex else "general", "" if nullable else (":not-nullable" + (":reweighted" if masked != [ws[i] if i in kept else 0.0 for i in range(n)] else ""))), bool(dropped) and any(ws[i] for i in dropped)
    return dict(op="impose_" + sub, inputs={"index": index, "xs": xs, "ws": ws, "nullable": nullable}, line=line, obs=obs, exact=ex, check=check)


def components(n, pairs):
    """independent union-find over the pair graph; returns (root list, has_cycle)"""
    root = list(range(n))

    def find(a):
        while root[a] != a:
            root[a] = root[root[a]]; a = root[a]
        return a
    cyc = False
    for i, j in pairs:
        a, b = find(i), find(j)
        if a == b:
            cyc = True
        else:
            root[a] = b
    return [find(i) for i in range(n)], cyc


def is_star_forest(pairs):
    """every pair (i,j) has i as the centre: no node is both a first and a second element, and every second
    element has a single first element"""
    firsts = {i for i, _ in pairs}; owner = {}
    for i, j in pairs:
        if j in firsts or owner.setdefault(j, i) != i:
            return False
    return True


def pair_order_class(n, pairs):
    """independent reading of a pair selection, pair by pair in the order the code sees them:
    -> (component id per node, cyc, late)
    cyc  = some pair closes a cycle (both ends already in the same component; includes self pairs);
    late = some pair joins two components that BOTH already exist (the only situation in which the result of
           tools.connected depends on the order of the pairs: F17).
    Without cyc and late every pair either starts a new group or attaches one new node to an existing group."""
    comp = {}
    cyc = late = False
    nxt = 0
    for i, j in pairs:
        ci = comp.get(i); cj = comp.get(j)
        if i == j:
            cyc = True
            if ci is None:
                comp[i] = nxt; nxt += 1
        elif ci is None and cj is None:
            comp[i] = comp[j] = nxt; nxt += 1
        elif ci is None:
            comp[i] = cj
        elif cj is None:
            comp[j] = ci
        elif ci == cj:
            cyc = True
        else:
            late = True
            for t in [t for t, c in comp.items() if c == cj]:
                comp[t] = ci
    return comp, cyc, late


def collapse_monitor(n, pairs, xs, ws, y, w, scale):
    """the property's clause for impose_collapse, evaluated on the implementation's result (y, w) for the pair
    selection `pairs` (indices ALREADY normalised to 0..n-1 by the harness, independently of the code):
    total weight and weighted mean kept; every selected pair collapsed; and - whenever the selection is unambiguous
    (no cycle, no late merge) - exactly the designated weights are zero: in every connected group ONE survivor
    carries the group's weight, all other members are exactly 0 and sit on the survivor's position; weights outside
    the selection are untouched.  -> [(class_key, what)]"""
    mon = []
    comp, cyc, late = pair_order_class(n, pairs)
    order = "cyclic-pairs" if cyc else ("late-merge-pairs" if late else "order-safe-pairs")
    if finite(w) and not q_close(sum(fr(w)), sum(fr(ws)), scale):
        key = "impose_collapse/total-weight/cyclic-pairs" if cyc else "impose_collapse/total-weight/acyclic-pairs"
        mon.append((key, "total weight %r -> %r for pairs %r (ws=%r)" % (float(sum(fr(ws))), float(sum(fr(w))), pairs, ws)))
    if finite(w) and finite(y) and sum(fr(w)) != 0 and sum(fr(ws)) != 0 and not q_close(q_wmean(y, w), q_wmean(xs, ws), scale):
        mon.append(("impose_collapse/mean-kept", "weighted mean %r -> %r (pairs=%r xs=%r ws=%r)" %
                    (float(q_wmean(xs, ws)), float(q_wmean(y, w)), pairs, xs, ws)))
    notz = [(i, j) for i, j in pairs if i != j and w[i] != 0.0 and w[j] != 0.0]
    notp = [(i, j) for i, j in pairs if y[i] != y[j] and not (y[i] != y[i] and y[j] != y[j])]
    if notz or notp:
        key = "impose_collapse/pair-not-collapsed/" + ("late-merge-pairs" if late else order)
        mon.append((key, "pairs %r of %r keep two non-zero weights / pairs %r keep distinct positions: samples %r weights %r (from xs=%r ws=%r)" %
                    (notz, pairs, notp, y, w, xs, ws)))
    if not cyc and not late and finite(w):
        groups = {}
        for t, c in comp.items():
            groups.setdefault(c, []).append(t)
        for mem in groups.values():
            mem = sorted(mem)
            live = [t for t in mem if w[t] != 0.0]
            gw = sum(Fr(ws[t]) for t in mem)
            if len(live) > 1:
                mon.append(("impose_collapse/group-not-collapsed", "group %r of pairs %r keeps %d non-zero weights %r (from ws=%r): "
                            "exactly one survivor may carry weight" % (mem, pairs, len(live), [w[t] for t in mem], ws)))
            elif not q_close(sum(Fr(w[t]) for t in mem), gw, scale):
                mon.append(("impose_collapse/group-weight", "group %r of pairs %r carries weight %r, expected the group's weight %r (weights %r from %r)" %
                            (mem, pairs, float(sum(Fr(w[t]) for t in mem)), float(gw), w, ws)))
            elif gw != 0 and all(Fr(ws[t]) >= 0 for t in mem) and len(live) != 1:
                mon.append(("impose_collapse/group-weight", "group %r of pairs %r has no survivor: weights %r from %r" % (mem, pairs, w, ws)))
            if finite(y) and len(set(y[t] for t in mem)) > 1:
                mon.append(("impose_collapse/group-positions", "group %r of pairs %r is not on one position: %r" % (mem, pairs, [y[t] for t in mem])))
        if any(not same_num(w[t], ws[t]) for t in range(n) if t not in comp):
            mon.append(("impose_collapse/untouched-weight-changed", "weights %r from %r pairs %r" % (w, ws, pairs)))
        if finite(y):
            # positions outside the selection move rigidly (the mean-restoring shift is one constant)
            out = [t for t in range(n) if t not in comp]
            sh = [Fr(y[t]) - Fr(xs[t]) for t in out]
            if sh and any(not q_close(a, sh[0], scale) for a in sh):
                mon.append(("impose_collapse/untouched-positions", "positions outside the selection are not shifted rigidly: %r -> %r pairs %r" % (xs, y, pairs)))
    return mon, cyc, late


def fam_collapse(rng, exact):
    from mystic.math import measures as M
    from mystic.tools import connected
    n = rng.randint(2, 7)
    style = rng.choice(["stars", "stars", "random", "random", "cyclic", "alias", "alias"])
    pairs = []
    if style == "stars":
        nodes = list(range(n)); rng.shuffle(nodes)
        ncent = rng.randint(1, max(1, n // 2))
        cents = nodes[:ncent]
        for j in nodes[ncent:]:
            if rng.random() < 0.7:
                pairs.append((rng.choice(cents), j))
    elif style == "alias":
        # order-safe forests in which a node occurs in several pairs and in BOTH slots: grown pair by pair, every
        # pair attaches one new node to an already placed one (either slot) or starts a new group
        nodes = list(range(n)); rng.shuffle(nodes)
        placed = []
        for t in nodes:
            if placed and rng.random() < 0.75:
                o = rng.choice(placed)
                pairs.append((o, t) if rng.random() < 0.5 else (t, o))
                placed.append(t)
            elif rng.random() < 0.8:
                placed.append(t)
        pairs = [p for p in pairs]
    else:
        for _ in range(rng.randint(0, min(5, n))):
            i = rng.randrange(n); j = rng.randrange(n)
            if i != j:
                pairs.append((i, j))
        if style == "random":
            _, cyc = components(n, pairs)
            while cyc and pairs:                              # keep it a forest
                pairs.pop(); _, cyc = components(n, pairs)
        elif pairs and rng.random() < 0.5:
            i, j = rng.choice(pairs); pairs.append((j, i))
        elif rng.random() < 0.5:
            i = rng.randrange(n); pairs.append((i, i))
    # python-style negative spellings, independently per OCCURRENCE and per slot: the same sample is then written
    # positively in one pair and negatively in another (the code must identify them, measures.py l.1786)
    if style == "alias":
        mode = rng.choice(["second", "first", "both", "all", "mixed"])
        pneg = {"second": (0.0, 0.6), "first": (0.6, 0.0), "both": (0.4, 0.4), "all": (1.0, 1.0), "mixed": (0.2, 0.2)}[mode]
    else:
        pneg = (0.2, 0.2)
    raw = [((p[0] - n) if rng.random() < pneg[0] else p[0], (p[1] - n) if rng.random() < pneg[1] else p[1]) for p in pairs]
    as_set = rng.random() < 0.3
    if as_set:
        arg = set(raw); raw = list(arg)                        # the iteration order the code will see
        pairs = [tuple(a + n if a < 0 else a for a in p) for p in raw]
    else:
        arg = list(raw) if rng.random() < 0.7 else tuple(raw)
    ws = gen_weights(rng, n, exact, pzero=0.15)
    xs = gen_samples(rng, n, exact, ws="weighted")
    if style == "alias" and rng.random() < 0.7:
        xs = gen_samples(rng, n, exact, ws="weighted", distinct=True)
        if len(set(xs)) < n:
            xs = [x + (i if exact else 0.37 * i) for i, x in enumerate(xs)]      # all positions distinct
    ct = Cert(); ct.mean(xs, ws)
    xs_in = list(xs); ws_in = list(ws)
    o1 = call(connected, list(pairs))
    obs = call(M.impose_collapse, arg, xs_in, ws_in)
    if obs[0] == "ok":
        ct.mean(flist(obs[1][0]), flist(obs[1][1]))           # same weights total; terms x*w of the collapsed set
        ct.sum(flist(obs[1][1]))
    ex = exact and ct.ok
    line = "C18 collapse (xs %s) (ws %s) (pairs (%s))" % (fl(xs), fl(ws), " ".join("(%d %d)" % p for p in raw))
    scale = max([abs(x) for x in xs] + [abs(w) for w in ws] + [1.0]) * 4
    negs = sum(1 for p in raw for a in p if a < 0)
    aliased = len(set(a for p in raw for a in p)) > len(set(a for p in pairs for a in p))

    def check(r):
        if obs[0] == "err" or r[0] == "err":
            d = [] if (obs[0] == r[0] and obs[1] == r[1]) else ["impose_collapse: impl=%r model=%r" % (obs, r[:2])]
            return d, [], "impose_collapse:err", False
        y = flist(obs[1][0]); w = flist(obs[1][1])
        d = diff_vec("impose_collapse.samples", ex, y, r, "y", scale) + diff_vec("impose_collapse.weights", ex, w, r, "w", scale)
        # tools.connected: same dict (keys in insertion order, member sets)
        mg = [(int(g[0]), sorted(int(t) for t in g[1])) for g in r[1]["groups"]]
        ig = [(int(k), sorted(int(t) for t in v)) for k, v in o1[1].items()] if o1[0] == "ok" else o1
        if mg != ig:
            d.append("tools.connected: impl=%r model=%r" % (ig, mg))
        mon = []
        if xs_in != xs or ws_in != ws:
            mon.append(("impose_collapse/mutates-input", "the input lists were edited"))
        if len(y) != n or len(w) != n:
            mon.append(("impose_collapse/length", "lengths %d/%d for %d" % (len(y), len(w), n)))
            return d, mon, "impose_collapse:badlen", False
        m2, cyc, late = collapse_monitor(n, pairs, xs, ws, y, w, scale)
        mon += [(k, "%s [as written: %r]" % (t, raw)) for k, t in m2]
        tag = "impose_collapse:%s:%s:%s:%s" % (style, "set" if as_set else "seq",
                                            "cyclic" if cyc else ("late-merge" if late else "order-safe"),
                                            "aliased-negative" if aliased else ("negative" if negs else "positive"))
        return d, mon, tag, bool(pairs)
    return dict(op="impose_collapse", inputs={"pairs": raw, "xs": xs, "ws": ws, "as_set": as_set}, line=line, obs=obs, exact=ex, check=check)


def fam_dist(rng, exact):
    import numpy as np
    from mystic.math import distance as D
    if rng.random() < 0.35:
        # L-p norms
        n = rng.randint(1, 7)
        ws = [dyadic(rng, -4, 4, 4) for _ in range(n)] if exact else [rng.uniform(-5, 5) if rng.random() > 0.2 else 0.0 for _ in range(n)]
        if exact and rng.random() < 0.3:
            ws = [rng.choice([3.0, -4.0, 0.0, 12.0, 5.0]) for _ in range(n)]
        p = rng.choice([0, 1, 1, 2, 2, 3, 4, "inf"])
        ints = False
        if rng.random() < 0.2:
            # integer-typed samples (python ints / an integer ndarray) with powers whose int64 value would wrap
            ints = True
            ws = [float(rng.choice([-1000, 1000, 7, -20, 19, 3, 0, 250, 1, -2])) for _ in range(n)]
            p = rng.choice([2, 3, 7, 16, 25, 1, "inf"])
        ct = Cert()
        if p not in (0, "inf"):
            tot = ct.sum([abs(ct.pow(w, p)) for w in ws])
        ex = exact and ct.ok and p in (0, 1, "inf")
        if ints:
            arg = [int(w) for w in ws] if rng.random() < 0.5 else np.array([int(w) for w in ws], dtype=np.int64)
        else:
            arg = maybe_np(rng, ws)
        obs = call(D.Lnorm, arg, np.inf if p == "inf" else p)
        line = "C18 lnorm (ws %s) (p %s)" % (fl(ws), p)
        scale = max(abs(w) for w in ws) + 1.0

        def check(r):
            d = diff_scalar("Lnorm(p=%s)" % p, ex, obs, r, "v", scale)
            mon = []
            if obs[0] == "ok":
                v = float(obs[1]); q = fr(ws)
                if p == 0:
                    good = v == sum(1 for a in q if a != 0)
                elif p == "inf":
                    good = Fr(v) == max(abs(a) for a in q)
                elif p == 1:
                    good = q_close(Fr(v), sum(abs(a) for a in q), scale)
                else:
                    good = v >= 0 and q_close(Fr(v) ** p, sum(abs(a) ** p for a in q), scale ** p)
                if not good:
                    mon.append(("Lnorm/definition", "Lnorm(%r, %s) = %r" % (ws, p, v)))
            return d, mon, "Lnorm:p=%s:%s%s" % (p, "exact" if ex else "general", ":int-typed" if ints else ""), len(set(ws)) > 1
        return dict(op="Lnorm", inputs={"ws": ws, "p": p}, line=line, obs=obs, exact=ex, check=check)
    kind = rng.choice(["chebyshev", "hamming", "manhattan", "euclidean", "minkowski"])
    p = {"manhattan": 1, "euclidean": 2}.get(kind, rng.choice([1, 2, 3, 3, 4]))
    dim = rng.randint(1, 5)
    pair = rng.random() < 0.4
    nx = rng.randint(1, 4); ny = nx if pair else rng.randint(1, 4)
    X = gen_points(rng, nx, dim, exact); Y = gen_points(rng, ny, dim, exact)
    for a in X:                                              # shared coordinates (hamming, zero distances)
        for t in range(dim):
            if rng.random() < 0.25:
                a[t] = Y[rng.randrange(ny)][t]
    if exact and kind == "euclidean" and rng.random() < 0.5:
        # pythagorean offsets: exact square roots
        for a, b in zip(X, Y):
            off = rng.choice([(3.0, 4.0), (6.0, 8.0), (5.0, 12.0), (0.75, 1.0)])
            for t in range(dim):
                a[t] = b[t] + (off[t] if t < 2 else 0.0) * rng.choice([1, -1])
    ct = Cert()
    pw = p if kind in ("manhattan", "euclidean", "minkowski") else 1
    for a in X:
        for b in Y:
            ct.sum([ct.pow(abs(s - t), pw) for s, t in zip(a, b)])
    ex = exact and ct.ok and (kind in ("chebyshev", "hamming", "manhattan") or (kind == "minkowski" and p == 1))
    if exact and ct.ok and p == 2 and kind in ("euclidean", "minkowski"):
        # exact when every sum of squares is a perfect square of a dyadic (sqrt and pow(.,0.5) are then both exact)
        def perfect(a, b):
            s = math.fsum((u - v) ** 2 for u, v in zip(a, b)); rt = math.sqrt(s)
            return Fr(rt) * Fr(rt) == Fr(s)
        ex = all(perfect(a, b) for a, b in (zip(X, Y) if pair else [(a, b) for a in X for b in Y]))
    fn = getattr(D, kind)
    kw = {"p": p} if kind == "minkowski" else {}
    form = rng.choice(["2d", "2d", "1d"]) if pair else "2d"
    if pair and form == "1d" and nx == 1:
        obs = call(lambda: [float(fn(np.array(X[0]), np.array(Y[0]), pair=True, **kw))])
    elif pair:
        obs = call(lambda: fn(np.array(X), np.array(Y), pair=True, axis=1, **kw).tolist())
    else:
        obs = call(lambda: fn(np.array(X), np.array(Y), axis=0, **kw).tolist())
    line = "C18 dist (kind %s) (p %d) (x %s) (y %s) (pair %s)" % (kind, p, fll(X), fll(Y), "true" if pair else "false")
    scale = 20.0

    def textbook_ok(v, a, b):
        qa = fr(a); qb = fr(b); dq = [abs(s - t) for s, t in zip(qa, qb)]
        if kind == "chebyshev":
            return q_close(Fr(v), max(dq), scale)           # |a-b| is one rounded subtraction
        if kind == "hamming":
            return v == sum(1 for t in dq if t != 0)
        return v >= 0 and q_close(Fr(v) ** p, sum(t ** p for t in dq), scale ** p)

    def check(r):
        if obs[0] == "err" or r[0] == "err":
            dd = [] if (obs[0] == r[0] and obs[1] == r[1]) else ["%s: impl=%r model=%r" % (kind, obs, r[:2])]
            return dd, [], "%s:err" % kind, False
        mon = []
        if pair:
            iv = flist(obs[1]); dd = diff_vec(kind, ex, iv, r, "d", scale)
            cells = [(iv[i], X[i], Y[i]) for i in range(min(len(iv), nx))]
            if len(iv) != nx:
                mon.append(("%s/shape" % kind, "pairwise result has %d entries for %d pairs" % (len(iv), nx)))
        else:
            iv = [flist(row) for row in obs[1]]; mv = [floats_of(row) for row in r[1]["d"]]
            dd = []
            if len(iv) != len(mv) or any(not cmp_vec(ex, a, b, scale) for a, b in zip(iv, mv)):
                dd.append("%s: impl=%r model=%r" % (kind, iv, mv))
            cells = [(iv[i][j], X[i], Y[j]) for i in range(min(nx, len(iv))) for j in range(min(ny, len(iv[i])))]
            if len(iv) != nx or any(len(row) != ny for row in iv):
                mon.append(("%s/shape" % kind, "result shape is not %dx%d" % (nx, ny)))
        for v, a, b in cells:
            if not textbook_ok(v, a, b):
                mon.append(("%s/definition" % kind, "%s(%r, %r%s) = %r" % (kind, a, b, (", p=%d" % p) if kind == "minkowski" else "", v)))
                break
        return dd, mon, "%s:p=%d:%s:%s" % (kind, p, "pair" if pair else "matrix", "exact" if ex else "general"), dim > 1
    return dict(op=kind, inputs={"x": X, "y": Y, "p": p, "pair": pair}, line=line, obs=obs, exact=ex, check=check)


def fam_approx(rng, exact):
    from mystic.math import approx as A
    if rng.random() < 0.4:
        x = common.gfloat(rng); tol = rng.choice([1e-15, 0.0, 0.5]); rel = rng.choice([1e-15, 0.25, 0.0])
        obs = call(A.tolerance, x, tol, rel)
        line = "C18 tolerance (x %s) (tol %s) (rel %s)" % (f2b(x), f2b(tol), f2b(rel))

        def check(r):
            d = diff_scalar("tolerance", True, obs, r)
            mon = []
            if obs[0] == "ok" and Fr(float(obs[1])) != Fr(tol + abs(x) * rel):
                mon.append(("tolerance/definition", "tolerance(%r,%r,%r)=%r" % (x, tol, rel, obs[1])))
            return d, mon, "tolerance", True
        return dict(op="tolerance", inputs={"x": x, "tol": tol, "rel": rel}, line=line, obs=obs, exact=True, check=check)
    n = rng.randint(1, 4)
    y = [dyadic(rng, -4, 4, 4) for _ in range(n)]
    tol = rng.choice([0.0, 0.125, 0.5]); rel = rng.choice([0.0, 0.25, 0.5])
    x = []
    for b in y:
        band = tol + rel * abs(b)                            # exact in dyadics
        k = rng.random()
        dlt = band if k < 0.3 else (common.ulp_up(band) if k < 0.5 else (band / 2 if k < 0.7 else band + 0.5))
        x.append(b + dlt * rng.choice([1, -1]))
    obs = call(lambda: bool(A.almostEqual(x, y, tol, rel)))
    line = "C18 almost (x %s) (y %s) (tol %s) (rel %s)" % (fl(x), fl(y), f2b(tol), f2b(rel))

    def check(r):
        d = []
        if r[0] != "ok" or obs[0] != "ok" or (r[1]["b"] == "true") != obs[1]:
            d.append("almostEqual: impl=%r model=%r" % (obs, r[:2]))
        want = all(abs(Fr(a) - Fr(b)) <= Fr(tol) + Fr(rel) * abs(Fr(b)) for a, b in zip(x, y))
        mon = []
        # numpy evaluates |a-b| in floats: only flag when the exact rational verdict is not at a rounding boundary
        if obs[0] == "ok" and obs[1] != want and all(Fr(abs(a - b)) == abs(Fr(a) - Fr(b)) for a, b in zip(x, y)):
            mon.append(("almostEqual/definition", "almostEqual(%r,%r,%r,%r)=%r" % (x, y, tol, rel, obs[1])))
        return d, mon, "almostEqual:%s" % obs[1], True
    return dict(op="almostEqual", inputs={"x": x, "y": y, "tol": tol, "rel": rel}, line=line, obs=obs, exact=True, check=check)


def fam_robust(rng, exact):
    """median / mad: monitor-only stream on distinct samples: the imposers reach their targets, as measured by the
    implementation's own median / mad AND by an independent textbook median (the modelled stream is fam_median; the
    trimmed variants are fam_trim)."""
    from mystic.math import measures as M
    sub = rng.choice(["median", "mad"])
    n = rng.randint(2, 8)
    xs = rng.sample([i / 4.0 for i in range(-32, 33)], n) if exact else [rng.uniform(-10, 10) for _ in range(n)]   # distinct
    ws = None if rng.random() < 0.5 else [float(rng.randint(1, 4)) for _ in range(n)]
    t = dyadic(rng, 0, 6, 4) + 0.25 if sub != "median" else dyadic(rng, -6, 6, 4)
    scale = 50.0
    mon = []
    with warnings.catch_warnings():
        warnings.simplefilter("ignore")
        try:
            if sub == "median":
                y = M.impose_median(t, xs, ws)
                got = M.median(y, ws)
                if not close(got, t, scale):
                    mon.append(("impose_median/target", "median of result %r, target %r (xs=%r ws=%r)" % (got, t, xs, ws)))
                if ws is None:
                    srt = sorted(y); mid = srt[n // 2] if n % 2 else (srt[n // 2 - 1] + srt[n // 2]) / 2
                    if not close(mid, t, scale):
                        mon.append(("impose_median/textbook", "textbook median of result %r, target %r (xs=%r)" % (mid, t, xs)))
                    m0 = sorted(xs); m0 = m0[n // 2] if n % 2 else (m0[n // 2 - 1] + m0[n // 2]) / 2
                    if not close(M.median(xs), m0, scale):
                        mon.append(("median/definition", "median(%r) = %r, textbook %r" % (xs, M.median(xs), m0)))
                if not close(max(y) - min(y), max(xs) - min(xs), scale):
                    mon.append(("impose_median/spread-kept", "spread changed (xs=%r)" % (xs,)))
            elif sub == "mad":
                if M.mad(xs, ws):
                    y = M.impose_mad(t, xs, ws)
                    if not close(M.mad(y, ws), t, scale):
                        # the weighted median of an even number of points is discontinuous where two equal values carry
                        # different weights (it depends on their order): one rounding error in the rescaled deviations
                        # then moves the result by a finite amount.  Narrow class for exactly that mechanism:
                        dv = [abs(a - float(M.median(xs, ws))) for a in xs]
                        tied = ws is not None and any(abs(dv[i] - dv[j]) <= 1e-9 * (1 + abs(dv[i])) and ws[i] != ws[j]
                                                      for i in range(n) for j in range(i))
                        mon.append(("impose_mad/target" + ("/tied-deviations-different-weights" if tied else ""),
                                    "mad of result %r, target %r (xs=%r ws=%r)" % (float(M.mad(y, ws)), t, xs, ws)))
                    if not close(M.median(y, ws), M.median(xs, ws), scale):
                        mon.append(("impose_mad/median-kept", "median %r -> %r (xs=%r ws=%r)" % (M.median(xs, ws), M.median(y, ws), xs, ws)))
                    if ws is None:
                        med = lambda v: (sorted(v)[n // 2] if n % 2 else (sorted(v)[n // 2 - 1] + sorted(v)[n // 2]) / 2)
                        tb = med([abs(a - med(y)) for a in y])
                        if not close(tb, t, scale):
                            mon.append(("impose_mad/textbook", "textbook mad of result %r, target %r (xs=%r)" % (tb, t, xs)))
        except Exception as exc:      # noqa
            mon.append(("%s/raises" % sub, "%s raised %r (xs=%r ws=%r t=%r)" % (sub, exc, xs, ws, t)))

    def check(r):
        return [], mon, "robust:%s:%s" % (sub, "weighted" if ws is not None else "plain"), True
    return dict(op="robust/" + sub, inputs={"xs": xs, "ws": ws, "t": t}, line=None, obs=None, exact=False, check=check)


# ------------------------------------------------------------------ trimmed / winsorised statistics
def tb_trim(xs, ws, klo, khi, clip):
    """INDEPENDENT textbook trimmed / winsorised weights, in exact rationals.  The samples are sorted; sample i owns the
    interval (W_{i-1}, W_i] of the cumulative normalised weight; trimming klo% / khi% keeps the part of that interval
    inside [a, b] = [klo/100, 1 - khi/100]; winsorising moves the mass below a onto the a-quantile sample and the
    mass above b onto the b-quantile sample.  A cut that falls EXACTLY between two samples makes the quantile of a
    winsorised sample ambiguous: both conventions are returned.
    -> None (undefined: negative weights, zero total, nothing retained) or
       dict(x=[sorted samples], r=[alternative retained-mass lists], margin=distance of the nearest non-coincident cut)"""
    n = len(xs)
    w = [Fr(1)] * n if ws is None else fr(ws)
    if any(a < 0 for a in w) or sum(w) <= 0:
        return None
    prs = sorted(zip(fr(xs), w), key=lambda p: p[0])
    x = [p[0] for p in prs]; w = [p[1] for p in prs]
    T = sum(w)
    a = Fr(float(klo)) / 100; b = 1 - Fr(float(khi)) / 100
    if not (0 <= a < b <= 1):
        return None
    W = [Fr(0)]
    for t in w:
        W.append(W[-1] + t / T)
    r = [max(Fr(0), min(W[i + 1], b) - max(W[i], a)) for i in range(n)]
    if sum(r) <= 0:
        return None
    cuts = [abs(c - e) for c in W[1:-1] for e in (a, b) if c != e]
    margin = min(cuts) if cuts else Fr(1)
    alts = [r]
    if clip:
        own = [i for i in range(n) if w[i] > 0]
        # a-quantile: first sample whose interval reaches beyond a (upper convention) / contains a (lower convention)
        lo_up = min(i for i in own if W[i + 1] > a); lo_dn = min(i for i in own if W[i + 1] >= a) if a > 0 else lo_up
        hi_dn = max(i for i in own if W[i] < b); hi_up = max(i for i in own if W[i] <= b) if b < 1 else hi_dn
        alts = []
        for lo in {lo_up, lo_dn}:
            for hi in {hi_dn, hi_up}:
                q = list(r); q[lo] += a; q[hi] += 1 - b
                alts.append(q)
    return dict(x=x, r=alts, margin=margin)


def tb_stats(tb):
    """[(trimmed mean, trimmed variance)] for every admissible reading"""
    out = []
    for r in tb["r"]:
        R = sum(r)
        m = sum(p * q for p, q in zip(tb["x"], r)) / R
        v = sum(q * (p - m) ** 2 for p, q in zip(tb["x"], r)) / R
        out.append((m, v))
    return out


def fam_trim(rng, exact):
    """_sort / _k / tmean / tvariance / tstd / impose_tmean / impose_tvariance / impose_tstd against the model
    (Model/Trimmed.lean: bit-exact on ALL floats - sequential and CPython-compensated sums, numpy round(15), negative
    index wrap and IndexError are modelled) and against an independent textbook definition (tb_trim)."""
    import numpy as np
    from mystic.math import measures as M
    sub = rng.choice(["k", "stat", "stat", "impose_tmean", "impose_tvariance", "impose_tvariance", "impose_tstd"])
    n = rng.randint(1, 9)
    if exact:
        xs = [dyadic(rng, -8, 8, 4) for _ in range(n)] if rng.random() < 0.6 else [float(rng.randint(-4, 4)) for _ in range(n)]
    else:
        xs = [rng.uniform(-10, 10) for _ in range(n)]
    if rng.random() < 0.5 and n >= 3:
        # skewed data: the trimmed core is asymmetric (a mean trimmed twice differs from the trimmed mean)
        xs = sorted(xs); xs[-1] += (8.0 if exact else rng.uniform(5, 20)); xs[0] -= (0.5 if exact else rng.uniform(0, 1))
        rng.shuffle(xs)
    u = rng.random()
    if u < 0.35:
        ws = None
    elif u < 0.7:
        ws = [float(rng.choice([0, 1, 1, 2, 3, 4])) for _ in range(n)]
    else:
        ws = [0.0 if rng.random() < 0.15 else (dyadic(rng, 0, 3, 3) + 0.125 if exact else rng.uniform(0.05, 3.0)) for _ in range(n)]
    if ws is not None and not any(ws) and rng.random() < 0.9:
        ws[rng.randrange(n)] = 1.0
    wl = [1.0] * n if ws is None else ws
    tot = sum(Fr(a) for a in wl)
    v = rng.random()
    if v < 0.55:
        k = rng.choice([0, 0, 10, 25, 25, 12.5, 20, 30, 40, 5, (10, 20), (0, 30), (25, 0), (20, 40), (12.5, 25), (40, 10)])
    elif v < 0.75 and tot > 0:
        # a cut that falls exactly between two samples (in exact arithmetic): k = 100 * W_i
        order = sorted(range(n), key=lambda i: xs[i])
        i = rng.randrange(n); j = rng.randrange(n)
        klo = float(100 * sum(Fr(wl[t]) for t in order[:i]) / tot); khi = float(100 * sum(Fr(wl[t]) for t in order[n - j:]) / tot) if j else 0.0
        k = (klo, khi) if rng.random() < 0.7 else (klo, rng.choice([0, 10, 25]))
    elif v < 0.88:
        k = (rng.uniform(0, 50), rng.uniform(0, 50)) if rng.random() < 0.7 else round(rng.uniform(0, 50), 1)
    else:
        k = rng.choice([50, 100, (30, 70), (100, 0), (0, 100), (50, 50), (60, 40), (99, 1), (-1, 5), (5, -0.5), (60, 50), 50.5])
    klo, khi = k if isinstance(k, tuple) else (k, k)
    clip = rng.random() < 0.4
    norm = rng.random() < 0.3
    t = dyadic(rng, -6, 6, 4)
    if sub in ("impose_tvariance", "impose_tstd"):
        t = dyadic(rng, 0, 6, 4) + (0.25 if rng.random() < 0.9 else 0.0)

    def ties(vals):
        if ws is None:
            return False
        seen = {}
        return any(seen.setdefault(float(a), c) != c for a, c in zip(vals, ws))
    skip = ties(xs)
    mon = []
    own = {}
    with warnings.catch_warnings():
        warnings.simplefilter("ignore")
        ax = maybe_np(rng, xs); aw = maybe_np(rng, ws)
        if sub == "k":
            obs = call(lambda: (lambda sw: (flist(sw[0]), flist(M._k(sw[1], k, clip, norm))))(M._sort(ax, aw)))
        elif sub == "stat":
            obs = call(lambda: (float(M.tmean(ax, aw, k=k, clip=clip)), float(M.tvariance(ax, aw, k=k, clip=clip)), float(M.tstd(ax, aw, k=k, clip=clip))))
        elif sub == "impose_tmean":
            obs = call(lambda: flist(M.impose_tmean(t, ax, aw, k=k, clip=clip)))
        else:
            fn = M.impose_tvariance if sub == "impose_tvariance" else M.impose_tstd
            obs = call(lambda: flist(fn(t, ax, aw, k=k, clip=clip)))
            try:
                tv0 = float(M.tvariance(xs, ws, k=k, clip=clip)); vv = t * t if sub == "impose_tstd" else t
                if tv0:
                    skip = skip or ties((np.asarray(xs) * np.sqrt(float(vv) / tv0)).tolist())
            except Exception:      # noqa
                pass
        # the implementation's own statistics of input and result (self-consistency, as far as they are defined)
        try:
            own["m0"] = float(M.tmean(xs, ws, k=k, clip=clip)); own["v0"] = float(M.tvariance(xs, ws, k=k, clip=clip))
            if obs[0] == "ok" and sub.startswith("impose"):
                own["m1"] = float(M.tmean(obs[1], ws, k=k, clip=clip)); own["v1"] = float(M.tvariance(obs[1], ws, k=k, clip=clip))
        except Exception:      # noqa
            own = {}
    line = "C18 trim (kind %s) (xs %s) (ws %s) (klo %s) (khi %s) (clip %s) (norm %s) (t %s)" % (
        sub, fl(xs), wtok(ws), f2b(float(klo)), f2b(float(khi)), "true" if clip else "false", "true" if norm else "false", f2b(t))
    scale = max([abs(a) for a in xs] + [abs(t), 1.0]) * 4
    sc2 = scale * scale
    tb = tb_trim(xs, ws, klo, khi, clip) if (0 <= klo and 0 <= khi and klo + khi < 100) else None
    what = "xs=%r ws=%r k=%r clip=%r" % (xs, ws, k, clip)

    def near(q, wants, sc):
        return any(q_close(q, wnt, sc) for wnt in wants)

    def check(r):
        tag = "trim:%s:%s" % (sub, "clip" if clip else "trim")
        # ---- correspondence (bit-exact; not for equal samples carrying different weights: numpy's argsort order)
        d = []
        if skip:
            tag += ":tie-skipped"
        elif obs[0] == "err" or r[0] == "err":
            if not (obs[0] == r[0] and obs[1] == r[1]):
                d.append("%s: impl=%r model=%r" % (sub, obs, r[:2]))
            tag += ":err-" + (obs[1] if obs[0] == "err" else "model")
        elif sub == "k":
            d += diff_vec("_sort.samples", True, obs[1][0], r, "x") + diff_vec("_k", True, obs[1][1], r, "w")
        elif sub == "stat":
            d += (diff_scalar("tmean", True, ("ok", obs[1][0]), r, "tmean") + diff_scalar("tvariance", True, ("ok", obs[1][1]), r, "tvar")
                  + diff_scalar("tstd", True, ("ok", obs[1][2]), r, "tstd"))
        else:
            d += diff_vec(sub, True, obs[1], r, "y")
        # ---- monitor: the textbook definition, independent of model and implementation
        if tb is None or obs[0] != "ok":
            if tb is not None and obs[0] == "err":
                mon.append(("%s/raises" % sub, "%s raised %s although the trimmed statistic is defined (%s)" % (sub, obs[1], what)))
            return d, mon, tag + ":undefined", False
        if clip and tb["margin"] < Fr(1, 10 ** 9):
            return d, mon, tag + ":near-cut", False         # quantile of a winsorised sample within rounding of a jump
        st0 = tb_stats(tb)
        m0s = [p[0] for p in st0]; v0s = [p[1] for p in st0]
        if sub == "k":
            x = obs[1][0]; w = obs[1][1]
            if finite(w):
                T = sum(Fr(a) for a in wl)
                f = Fr(1) if norm else T
                def per_value(vals, masses):             # equal samples are one atom: their order is immaterial
                    acc = {}
                    for a, c in zip(vals, masses):
                        acc[Fr(a)] = acc.get(Fr(a), Fr(0)) + Fr(c)
                    return acc
                got = per_value(x, w)
                if len(x) != n or not any(all(q_close(got.get(a, Fr(0)), c * f, float(T) + 1.0) for a, c in per_value(tb["x"], q).items())
                                          for q in tb["r"]):
                    mon.append(("_k/definition", "_k gives %r, textbook retained mass %r (%s norm=%r)" % (w, [float(a * f) for a in tb["r"][0]], what, norm)))
            if x != sorted(xs):
                mon.append(("_sort/definition", "_sort gives %r for %r" % (x, xs)))
        elif sub == "stat":
            tm, tv, ts = obs[1]
            if not (tm == tm) or not near(Fr(tm), m0s, scale):
                mon.append(("tmean/definition", "tmean = %r, textbook trimmed mean %r (%s)" % (tm, float(m0s[0]), what)))
            if not (tv == tv) or not near(Fr(tv), v0s, sc2):
                mon.append(("tvariance/definition", "tvariance = %r, textbook trimmed variance %r (%s)" % (tv, float(v0s[0]), what)))
            if not (ts == ts) or ts < 0 or not near(Fr(ts) * Fr(ts), v0s, sc2):
                mon.append(("tstd/definition", "tstd = %r, textbook trimmed variance %r (%s)" % (ts, float(v0s[0]), what)))
        else:
            y = obs[1]
            if len(y) != n:
                mon.append(("%s/length" % sub, "returned %d points for %d samples" % (len(y), n)))
                return d, mon, tag, False
            nondeg = min(v0s) >= Fr(1, 1000)
            if sub != "impose_tmean" and not nondeg:
                return d, mon, tag + ":degenerate", False    # the property excludes (near-)degenerate variance
            if not finite(y):
                mon.append(("%s/non-finite" % sub, "result %r (%s t=%r)" % (y, what, t)))
                return d, mon, tag, False
            tb1 = tb_trim(y, ws, klo, khi, clip)
            if tb1 is None or (clip and tb1["margin"] < Fr(1, 10 ** 9)):
                return d, mon, tag + ":near-cut", False
            st1 = tb_stats(tb1); m1s = [p[0] for p in st1]; v1s = [p[1] for p in st1]
            if sub == "impose_tmean":
                if not any(q_close(a, t, scale) for a in m1s):
                    mon.append(("impose_tmean/target", "textbook trimmed mean of the result is %r, target %r (%s)" % (float(m1s[0]), t, what)))
                if not any(near(a, v0s, sc2) for a in v1s):
                    mon.append(("impose_tmean/tvariance-kept", "textbook trimmed variance %r -> %r (%s)" % (float(v0s[0]), float(v1s[0]), what)))
                if own and own["m1"] == own["m1"] and not close(own["m1"], t, scale):
                    mon.append(("impose_tmean/target-own", "tmean of the result is %r, target %r (%s)" % (own["m1"], t, what)))
            else:
                want = Fr(t) * Fr(t) if sub == "impose_tstd" else Fr(t)
                if not any(q_close(a, want, sc2) for a in v1s):
                    mon.append(("%s/target" % sub, "textbook trimmed variance of the result is %r, target %r (%s)" % (float(v1s[0]), float(want), what)))
                if not any(near(a, m0s, scale) for a in m1s):
                    mon.append(("%s/tmean-kept" % sub, "textbook trimmed mean %r -> %r (%s)" % (float(m0s[0]), float(m1s[0]), what)))
                if own and own["v1"] == own["v1"] and not close(own["v1"], float(want), sc2):
                    mon.append(("%s/target-own" % sub, "tvariance of the result is %r, target %r (%s)" % (own["v1"], float(want), what)))
        nt = n >= 3 and (klo > 0 or khi > 0) and len(set(xs)) > 1
        return d, mon, tag, nt
    return dict(op="trim/" + sub, inputs={"xs": xs, "ws": ws, "k": list(k) if isinstance(k, tuple) else k, "clip": clip, "norm": norm, "t": t},
                line=line, obs=obs, exact=True, check=check)


def fam_median(rng, exact):
    """median / mad / impose_median / impose_mad against the model (sorting, cumulative weights, selection).
    Sort order among EQUAL samples carrying DIFFERENT weights is an implementation detail of numpy's argsort:
    such cases are not compared (tag `tie-skipped`)."""
    import numpy as np
    from mystic.math import measures as M
    sub = rng.choice(["median", "median", "impose_median", "impose_mad"])
    n = rng.randint(1, 9)
    if exact:
        xs = [dyadic(rng, -8, 8, 4) for _ in range(n)] if rng.random() < 0.5 else [float(rng.randint(-3, 3)) for _ in range(n)]
    else:
        xs = [rng.uniform(-10, 10) for _ in range(n)]
    ws = None if rng.random() < 0.4 else [float(rng.choice([0, 1, 1, 2, 3, 4])) for _ in range(n)]
    if ws is not None and not any(ws):
        ws[rng.randrange(n)] = 1.0
    t = dyadic(rng, -6, 6, 4) if sub != "impose_mad" else dyadic(rng, 0, 6, 4) + 0.25

    def ties(vals):
        if ws is None:
            return False
        seen = {}
        for v, w in zip(vals, ws):
            if seen.setdefault(float(v), w) != w:
                return True
        return False
    with warnings.catch_warnings():
        warnings.simplefilter("ignore")
        skip = ties(xs)
        try:
            med = float(M.median(xs, ws))
            skip = skip or ties([abs(x - med) for x in xs])
            if sub == "median":
                obs = ("ok", (med, float(M.mad(xs, ws))))
            elif sub == "impose_median":
                obs = ("ok", flist(M.impose_median(t, maybe_np(rng, xs), ws)))
            else:
                md = float(M.mad(xs, ws))
                if md:
                    sc = np.asarray(xs) * (float(t) / md)
                    skip = skip or ties(sc.tolist())
                obs = ("ok", flist(M.impose_mad(t, xs, ws)))
        except Exception as exc:      # noqa
            obs = ("err", err_enum(exc))
    line = "C18 robust (kind %s) (xs %s) (ws %s) (t %s)" % (sub, fl(xs), wtok(ws), f2b(t))

    def check(r):
        tag = "median-model:%s:%s" % (sub, "weighted" if ws is not None else "plain")
        if skip:
            return [], [], tag + ":tie-skipped", False
        if obs[0] == "err" or r[0] == "err":
            d = [] if (obs[0] == r[0] and obs[1] == r[1]) else ["%s: impl=%r model=%r" % (sub, obs, r[:2])]
            return d, [], tag + ":err", False
        if sub == "median":
            d = diff_scalar("median", True, ("ok", obs[1][0]), r, "v") + diff_scalar("mad", True, ("ok", obs[1][1]), r, "mad")
        else:
            d = diff_vec(sub, True, obs[1], r, "y")
        return d, [], tag, n > 1
    return dict(op="robust-model/" + sub, inputs={"xs": xs, "ws": ws, "t": t}, line=line, obs=obs, exact=True, check=check)


def fam_malformed(rng, exact):
    """small malformed stream: compared on the error enum only"""
    from mystic.math import measures as M
    from mystic.math import distance as D
    import numpy as np
    sub = rng.choice(["mean-empty", "spread-empty", "impose-empty", "ess-empty-support", "collapse-index", "lnorm-empty", "variance-empty"])
    if sub == "mean-empty":
        obs = call(M.mean, []); line = "C18 mean (xs ()) (ws none) (tol 0)"
    elif sub == "variance-empty":
        obs = call(M.variance, []); line = "C18 variance (xs ()) (ws none)"
    elif sub == "spread-empty":
        obs = call(M.spread, []); line = "C18 spread (xs ())"
    elif sub == "impose-empty":
        kind = rng.choice(["mean", "variance", "spread"])
        obs = call({"mean": M.impose_mean, "variance": M.impose_variance, "spread": M.impose_spread}[kind], 1.0, [])
        line = "C18 impose (kind %s) (t %s) (xs ()) (ws none)" % (kind, f2b(1.0))
    elif sub == "ess-empty-support":
        n = rng.randint(1, 3); pts = gen_points(rng, n, 1, True)
        kind = rng.choice(["max", "min", "ptp"])
        fn = {"max": M.ess_maximum, "min": M.ess_minimum, "ptp": M.ess_ptp}[kind]
        ws = [0.0] * n; tol = 0.0
        if rng.random() < 0.5:
            ws = [0.5] * n; tol = 0.5
        obs = call(fn, lambda p: p[0], pts, ws, tol)
        line = "C18 ess (kind %s) (f (x 0)) (pts %s) (ws %s) (tol %s)" % (kind, fll(pts), fl(ws), f2b(tol))
    elif sub == "lnorm-empty":
        obs = call(D.Lnorm, [], np.inf); line = "C18 lnorm (ws ()) (p inf)"
    else:
        n = rng.randint(2, 4); xs = [float(i) for i in range(n)]; ws = [1.0] * n
        bad = rng.choice([n, n + 2, -2 * n - 1, -3 * n])
        pairs = [(0, 1), (rng.randrange(n), bad)]
        rng.shuffle(pairs)
        obs = call(M.impose_collapse, pairs, xs, ws)
        line = "C18 collapse (xs %s) (ws %s) (pairs (%s))" % (fl(xs), fl(ws), " ".join("(%d %d)" % p for p in pairs))

    def check(r):
        io = obs[1] if obs[0] == "err" else "ok"
        mo = r[1] if r[0] == "err" else "ok"
        d = [] if io == mo else ["malformed %s: impl=%r model=%r" % (sub, io, mo)]
        return d, [], "malformed:%s:%s" % (sub, io), False
    return dict(op="malformed/" + sub, inputs={"line": line}, line=line, obs=obs, exact=True, check=check)


FAMILIES = [("stat", fam_stat, 5), ("ess", fam_ess, 4), ("impose", fam_impose, 7), ("weights", fam_weights, 4),
            ("surgery", fam_surgery, 4), ("collapse", fam_collapse, 4), ("dist", fam_dist, 5), ("approx", fam_approx, 1),
            ("robust", fam_robust, 1), ("median", fam_median, 3), ("trim", fam_trim, 6), ("malformed", fam_malformed, 1)]
import c18x, c18r
FAMILIES = FAMILIES + c18x.FAMILIES_X + c18r.FAMILIES_R
_FAM_BAG = [f for f in FAMILIES for _ in range(f[2])]


def build_case(seed, shard, k, pid=PID):
    rng = case_rng(pid, seed, shard, k)
    name, fn, _ = rng.choice(_FAM_BAG)
    exact = rng.random() < 0.6
    c = fn(rng, exact)
    c["family"] = name
    c["id"] = {"seed": seed, "shard": shard, "k": k}
    return c


def judge(c, rep):
    """-> (findings, tag, nontrivial)"""
    r = parse_reply(rep) if rep is not None else ("none",)
    desc = {"id": c["id"], "op": c["op"], "inputs": c["inputs"], "request": c["line"],
            "impl": repr(c["obs"]), "model": rep, "regime": "exact" if c["exact"] else "general"}
    if r[0] == "bad-op":
        raise leandrv.DriverError("driver answered bad-op to %r" % (c["line"],))
    diffs, mon, tag, nt = c["check"](r)
    out = []
    if diffs:
        out.append(Finding("correspondence", "%s/diverges" % c["op"], "; ".join(diffs), desc))
    for key, what in mon:
        out.append(Finding("monitor", key, what, desc))
    return out, tag, nt


def run_shard(pid, seed, shard, ncases, tier, extra):
    common.import_mystic()
    cases = [build_case(seed, shard, k) for k in range(ncases)]
    lined = [c for c in cases if c["line"] is not None]
    replies = leandrv.run_driver([c["line"] for c in lined])
    rep_of = {id(c): r for c, r in zip(lined, replies)}
    findings = []; hist = {}; nontrivial = 0; samples = []
    nexact = 0
    for c in cases:
        fs, tag, nt = judge(c, rep_of.get(id(c)))
        findings.extend(fs)
        hist[tag] = hist.get(tag, 0) + 1
        hist["_regime:" + ("exact" if c["exact"] else "general")] = hist.get("_regime:" + ("exact" if c["exact"] else "general"), 0) + 1
        if nt:
            nontrivial += 1
            if len(samples) < 2 and c["line"] is not None:
                samples.append({"op": c["op"], "inputs": common.jsonable(c["inputs"]), "request": c["line"],
                                "impl": repr(c["obs"]), "model": rep_of.get(id(c)), "regime": "exact" if c["exact"] else "general"})
    return {"evaluations": len(cases), "nontrivial": nontrivial, "model_lines": len(lined), "findings": findings,
            "samples": samples, "hist": hist}


# ------------------------------------------------------------------ known-finding witnesses (run first)
def witnesses():
    """the recorded defects of impose_collapse / tools.connected, re-confirmed on fixed inputs"""
    common.import_mystic()
    from mystic.math import measures as M
    out = []
    for pairs in ([(0, 1), (1, 0)], [(0, 5), (1, 2), (0, 1)], [(2, 3), (0, 1), (1, 2)]):
        n = 6; xs = [1.0, 2.0, 3.0, 4.0, 5.0, 6.0]; ws = [1.0] * n

        class _R:                                            # a fixed "generator" for fam_collapse's checker
            pass
        obs = call(M.impose_collapse, list(pairs), list(xs), list(ws))
        line = "C18 collapse (xs %s) (ws %s) (pairs (%s))" % (fl(xs), fl(ws), " ".join("(%d %d)" % p for p in pairs))
        rep = leandrv.run_driver([line])[0]
        r = parse_reply(rep)
        desc = {"op": "impose_collapse", "inputs": {"pairs": pairs, "xs": xs, "ws": ws}, "request": line, "impl": repr(obs), "model": rep}
        if obs[0] != "ok" or r[0] != "ok":
            out.append(Finding("correspondence", "impose_collapse/witness", "witness did not run: %r %r" % (obs, rep), desc)); continue
        y = flist(obs[1][0]); w = flist(obs[1][1])
        if not (cmp_vec(True, y, floats_of(r[1]["y"])) and cmp_vec(True, w, floats_of(r[1]["w"]))):
            out.append(Finding("correspondence", "impose_collapse/diverges", "witness %r: impl=%r model=%r" % (pairs, obs, rep), desc))
        m2, cyc, late = collapse_monitor(n, list(pairs), xs, ws, y, w, 24.0)
        for key, what in m2:
            out.append(Finding("monitor", key, what, desc))
    # F18: impose_mad with tied deviations of different weights
    xs = [0.25, -3.75, 6.25, -2.0]; ws = [4.0, 1.0, 2.0, 1.0]; t = 3.5
    with warnings.catch_warnings():
        warnings.simplefilter("ignore")
        y = flist(M.impose_mad(t, xs, ws)); got = float(M.mad(y, ws)); med = float(M.median(y, ws))
    desc = {"op": "impose_mad", "inputs": {"t": t, "xs": xs, "ws": ws}, "impl": repr(y), "mad_of_result": got}
    if not close(got, t, 50.0):
        out.append(Finding("monitor", "impose_mad/target/tied-deviations-different-weights",
                           "mad of result %r, target %r (xs=%r ws=%r)" % (got, t, xs, ws), desc))
    if not close(med, float(M.median(xs, ws)), 50.0):
        out.append(Finding("monitor", "impose_mad/median-kept", "median %r -> %r (xs=%r ws=%r)" % (M.median(xs, ws), med, xs, ws), desc))
    # second deepening: impose_product on an even number of weights with the wrong sign, minkowski's numpy error state
    # after an exception, minkowski on integer-typed arrays
    for key, what, desc in c18x.witnesses() + c18r.witnesses():
        out.append(Finding("monitor", key, what, desc))
    return out


RULE = ("cases: random calls of mean/moment/variance/std/spread/support(_index)/ess_*/expectation/_expected_moment, "
        "impose_mean/variance/std/spread, normalize/impose_sum/impose_weight_norm (numeric and 'l<p>' mass, zsum), "
        "impose_support/impose_unweighted (negative, duplicate and out-of-range indices, list/tuple/set), impose_collapse + "
        "tools.connected (stars, chains, cyclic and self pairs, order-safe forests whose nodes occur in several pairs and in both slots, "
        "negative spellings per occurrence and per slot that alias positively written indices of the same sample, list/tuple/set), Lnorm (p=0,1,2,3,4,inf), chebyshev/hamming/"
        "manhattan/euclidean/minkowski (matrix axis=0 and pairwise axis=1 forms), approx.tolerance/almostEqual (band edges +-1ulp); "
        "lengths 1-7, zero / negative weights, ties, all-equal samples, tolerance cuts equal to a weight; plus a monitor-only "
        "stream for median/mad imposers, a modelled median/mad/impose_median/impose_mad stream (bit-exact), a modelled trimmed stream "
        "(_sort/_k/tmean/tvariance/tstd/impose_tmean/impose_tvariance/impose_tstd: number and tuple k, trimming and winsorising, norm, skewed "
        "samples, integer / dyadic / general weights with zeros, cuts that fall exactly between two samples, k=0, klo+khi=100, 100%, negative "
        "and >100 percentages, all-zero weights: bit-exact on ALL floats, plus an independent exact-rational textbook trimmed / winsorised "
        "mean and variance from the retained mass per sorted sample) and a malformed stream (empty input, empty support, bad pair index) compared on "
        "the error enum. Second deepening (harness/c18x.py): the distance metrics through their shape logic (0-d / 1-D / 2-D and mixed shapes, "
        "zero-length arrays, dmin 0-3, pair, axis None / 0 / 1 / 2 / negative / out of range, p in 0,1,2,3,4,7,inf, xp=None, python-int and "
        "int64-ndarray arguments, inf / nan / 1e200 coordinates incl. the overflow fall-back), standard_moment / skewness / kurtosis / "
        "expected_variance / expected_std (designed two-point families with perfect-square variance, zero / negative / cancelling weights, tol "
        "cuts), impose_moment (orders 0-5, skew None/True/False, tol, targets of either sign and 0, degenerate moments), impose_product (lengths "
        "0-5, negative weights, targets of either sign and 0, zsum / zmass), integer-typed normalize / impose_sum / impose_weight_norm / 'l<p>'. "
        "Third deepening (harness/c18r.py): every metric (p = 1..7, inf) through the matrix / pairwise / single-pair interfaces and Lnorm (p = 0..7, inf) "
        "on coordinates drawn from magnitude classes over the whole float range (0, denormal, 1e-300..1e-100, 1e-100..1e-3, ordinary, 1e3..1e100, "
        "1e100..1e300, the p-dependent boundaries where the p-th power becomes denormal / vanishes / overflows, a little and far either side), "
        "column-wise correlated so that underflowing and overflowing differences occur alone and next to ordinary ones; judged scale-free "
        "(rel 1e-9 in the p-th power + the absolute rounding of gradual underflow). "
        "60% of the cases are drawn in the exactness regime (dyadic data, certified per case: every summed term "
        "list is a multiple of 2^-40 bounded by 256) and compared bit-exactly; the rest are general floats compared at rel 1e-9. "
        "non-trivial = the operation had something to do (>= 2 distinct samples / a weight actually dropped or rescaled / a pair "
        "actually collapsed / dimension > 1)")
TRUSTED = ["Lean 4.33 kernel; axioms per theorem listed under coverage.theorems",
           "hand-written model Model/Measures.lean tied to mystic/math/measures.py, distance.py, tools.connected, approx.py by this differential run only",
           "summation order (python compensated sum, numpy pairwise sum) is not modelled: bit-exact comparison only where every sum is exact; libm pow for p-th roots (p >= 3) compared at rel 1e-9 only",
           "median/mad/impose_median/impose_mad and _sort/_k/tmean/tvariance/tstd/impose_tmean/impose_tvariance/impose_tstd are modelled with a STABLE insertion sort: cases where equal samples carry different weights (numpy's argsort order is then an implementation detail) are not compared bit-exactly (the textbook monitor still applies); impose_moment, impose_product, the *reweighted* and optimizer-based imposers are not covered",
           "trimmed family: numpy's ndarray.round(15) = rint(x*1e15)/1e15 (round-half-even), CPython 3.12's compensated float sum and numpy's sequential cumsum are re-implemented in the driver / model and tied to the real ones by the bit-exact comparison only; a winsorised quantile that falls within 1e-9 of a jump of the cumulative weight is not judged by the textbook monitor (either neighbouring sample is accepted at an exact jump)",
           "DSL twins harness/dsl.py and Model/Dsl.lean for the function argument of expectation / ess_*",
           "float-range stream: the overflow decision of the model (repeated multiplication) and of numpy (libm pow) is not compared when a power or a lane sum lies within 1e-6 of 2^1024 (the monitor accepts the p-norm or the infinity norm there); a p-norm whose every power underflows is accepted as 0 (absolute allowance n*2^-1060 in the p-th power: rounding of gradual underflow, not a defect of the definition)",
           "distance.py: numpy's broadcasting, transposes, newaxis slices, axis handling (incl. axis=0/-1 on 0-d arrays) and the rule 'max over an axis of length 0 raises' are re-implemented in Model/MeasuresX.lean (NArr) and tied to numpy by the bit-exact comparison only; the overflow FloatingPointError is modelled as 'a finite distance whose power is not finite, or a non-finite sum of finite powers' and exercised only far from the overflow boundary; integer-typed inputs are generated below the int64 wrap; libm pow is trusted to return exactly representable roots exactly (roots are compared bit-exactly only for perfect powers)"]
ASSUME = ["IEEE binary64 + - * / sqrt and comparisons agree between Lean Float and CPython/numpy",
          "the sign of a zero and NaN payloads are not compared",
          "theorems are over a linearly ordered field; rounding is outside them (the monitor uses rel 1e-9)"]


def _private_driver():
    """other builders relink lean/.lake/build/bin/mvdrv while this check runs: work on a private copy"""
    import os, shutil, tempfile, subprocess
    dst = os.path.join(tempfile.gettempdir(), "mvdrv.C18.%d" % os.getpid())
    for _ in range(20):
        try:
            shutil.copy2(common.MVDRV, dst)
            p = subprocess.run([dst], input="ping\n", stdout=subprocess.PIPE, stderr=subprocess.PIPE, text=True, timeout=60)
            if p.returncode == 0 and p.stdout.strip() == "ok pong":
                leandrv.MVDRV = dst
                return dst
        except Exception:      # noqa
            pass
        time.sleep(3)
        leandrv.lake_build(["mvdrv"])
    return None


def main(tier, seed):
    t0 = time.time()
    proof = framework.proof_stage(PID, MODULE, THEOREMS, tier)
    priv = _private_driver()
    try:
        return _main(tier, seed, t0, proof)
    finally:
        if priv:
            try:
                import os
                os.remove(priv)
            except OSError:
                pass


def _main(tier, seed, t0, proof):
    nshards, per = (16, 500) if tier == "quick" else (64, 30000)
    run = framework.run_shards("c18", "run_shard", PID, seed, nshards, per, tier)
    if not run["crashes"]:
        run["findings"] = witnesses() + run["findings"]

    def search_more():
        r = framework.run_shards("c18", "run_shard", PID, seed + 7919, 32, 600, tier)
        return r["findings"]
    return framework.finish(PID, tier, seed, t0, proof, run, RULE, TRUSTED, ASSUME, search_more=search_more)


def replay(path):
    """re-execute one stored case (implementation and model) and reprint the verdict"""
    common.import_mystic()
    data = json.load(open(path))
    case = data.get("case") or (data.get("correspondence_not_checking") or [{}])[0].get("case") or {}
    cid = case.get("id")
    if not cid:
        # a fixed witness: re-run the witnesses
        fs = [f for f in witnesses() if f["class_key"] == data.get("class_key")]
    else:
        c = build_case(cid["seed"], cid["shard"], cid["k"])
        rep = leandrv.run_driver([c["line"]])[0] if c["line"] is not None else None
        fs, _, _ = judge(c, rep)
        print("case %r op=%s regime=%s" % (cid, c["op"], "exact" if c["exact"] else "general"))
        print(" request:", c["line"]); print(" impl   :", repr(c["obs"])); print(" model  :", rep)
    known = {e["class_key"] for e in framework.load_known(PID)}
    rc = 0
    for f in fs:
        if f["kind"] == "monitor" and f["class_key"] in known:
            print("KNOWN-FINDING: property=%s %s [%s]" % (PID, f["what"], f["class_key"]))
        else:
            print("VIOLATION property=%s replay=%s%s" % (PID, path, "" if f["kind"] == "monitor" else " no-failing-input-found"))
            print("  %s [%s]: %s" % (f["kind"], f["class_key"], f["what"]))
            rc = 1
    if not fs:
        print("replay: no finding reproduced")
    return rc
