"""C16 - constraint transforms land in their target set and leave conforming input alone.
Correspondence: real `decorator(...)(identity)(x)` (mystic.constraints / mystic.tools) vs lean Model/Transforms
(bit-exact; random draws of unique / bounded recorded from the real run and replayed by the model).
Monitor: the property itself (in-target, frame, idempotence, tie rules, exact statistics targets and their degenerate inputs,
last-write-wins, KeyError guard, nearest interval) evaluated on what the real code returns, plus the aliasing monitor
(argument unchanged, result does not share storage with it, no state carried from call to call)."""
import sys, time, math, copy, json, random as _random
import common
from common import case_rng, fl, fll, f2b, b2f, same_float, same_vec, dyadic, parse_reply, floats_of
import framework, leandrv
from framework import Finding

PID = "C16"
MODULE = "MysticVerif.Props.C16"


def _listed_theorems():
    """every public theorem of Props/C16.lean and of the part files Props/C16/*.lean (all imported by Props/C16.lean, all
    in namespace MysticVerif.C16) is a property theorem (helper lemmas live in Proofs/Transforms.lean, Proofs/TransformsExt.lean)"""
    import os, re, glob
    base = os.path.join(common.LEAN, "MysticVerif", "Props")
    top = open(os.path.join(base, "C16.lean")).read()
    imported = set(re.findall(r"^import\s+MysticVerif\.Props\.C16\.([A-Za-z0-9_]+)", framework.strip_comments(top), re.M))
    out = []
    for path in [os.path.join(base, "C16.lean")] + sorted(glob.glob(os.path.join(base, "C16", "*.lean"))):
        if os.path.dirname(path) != base and os.path.basename(path)[:-5] not in imported:
            continue                                         # a part file that is not (yet) imported is not built: not listed
        src = framework.strip_comments(open(path).read())
        out += ["MysticVerif.C16." + m for m in re.findall(r"^theorem\s+([A-Za-z0-9_'.]+)", src, re.M)]
    return out


THEOREMS = _listed_theorems()


class Hang(Exception):
    pass


ERR = {IndexError: "index", ValueError: "value", TypeError: "type", ZeroDivisionError: "zerodiv", KeyError: "key"}
INF = math.inf
NAN = math.nan
ident = lambda x: x


# ------------------------------------------------------------------ generators
def gval(rng, special=True):
    k = rng.random()
    if k < 0.22:
        return float(rng.randint(-6, 6))
    if k < 0.36:
        return rng.randint(-12, 12) / 2.0                  # half integers: rint ties
    if k < 0.55:
        return dyadic(rng, -8, 8, 8)
    if k < 0.60:
        return rng.choice([0.0, -0.0])
    if special and k < 0.63:
        return rng.choice([INF, -INF, NAN])
    if k < 0.68:
        return rng.uniform(-1, 1) * 10.0 ** rng.randint(-9, 3)
    return rng.uniform(-10, 10)


def gvec(rng, n, special=True):
    return [gval(rng, special) for _ in range(n)]


def glen(rng):
    return rng.choice([0, 1, 1, 2, 2, 3, 3, 4, 4, 5, 6, 7, 8, 9, 10, 12])


def gbidx(rng, n, valid=False):
    """an index on / one beside the ends of the valid range -len(x) .. len(x)-1: the first entry named from the end (-len),
    the last one (len-1, -1), the first (0), and the first values outside (len, -len-1) and their neighbours"""
    if valid:
        return rng.choice([-n, -n, -1, 0, n - 1, 1 - n]) if n else 0
    return rng.choice([-n, -n, -n - 1, -n + 1, -1, 0, n - 1, n, n + 1])


def gindex(rng, n, allow_none=True):
    """index selection: None / single int / tuple with negatives, out-of-range, duplicates, empty, boundary (-len, -1, 0,
    len-1 in range; len, -len-1 just outside)"""
    k = rng.random()
    if allow_none and k < 0.2:
        return None, "none"
    if k > 0.86:
        if n == 0 or rng.random() < 0.25:
            return gbidx(rng, n), "boundary-single"
        # distinct slots, each named from the front or from the end
        slots = rng.sample([0, n - 1] + list(range(n)), min(n, rng.randint(1, 3)))
        slots = list(dict.fromkeys(slots))
        idx = [w - n if rng.random() < 0.6 else w for w in slots]
        if 0 in slots and rng.random() < 0.7:
            idx[slots.index(0)] = -n
        tag = "boundary"
        if rng.random() < 0.3:
            idx.insert(rng.randrange(len(idx) + 1), rng.choice([n, -n - 1]))
            tag = "boundary-outside"
        return tuple(idx), tag
    if k < 0.3:
        i = rng.randint(-n - 1, n) if rng.random() < 0.4 else (rng.randrange(n) if n else 0)
        return i, "single"
    if k < 0.34:
        return (), "empty"
    m = rng.randint(1, max(1, min(n, 5)))
    pool = list(range(n)) if n else [0]
    idx = rng.sample(pool, min(m, len(pool)))
    tag = "tuple"
    if rng.random() < 0.4 and n:
        idx = [i - n if rng.random() < 0.5 else i for i in idx]
        tag = "negative"
    if rng.random() < 0.15:
        idx.append(rng.choice([n, n + 1, n + 3, -n - 1, -n - 2]))
        rng.shuffle(idx)
        tag = "out-of-range"
    elif rng.random() < 0.06 and idx:
        idx.append(idx[0]); tag = "duplicate"
    return tuple(idx), tag


def idx_list(index):
    """the index as the decorators normalise it (Integral -> 1-tuple)"""
    if index is None:
        return None
    if isinstance(index, int):
        return [index]
    return list(index)


def idx_sexp(index):
    il = idx_list(index)
    return "none" if il is None else "(" + " ".join(str(i) for i in il) + ")"


def wrap(n, i):
    if 0 <= i < n:
        return i
    if -n <= i < 0:
        return n + i
    return None


def sel_mask(n, index):
    """selection of the mask family as fixed in DESIGN C16: None = all; negative wraps;
    any out-of-range index empties the selection"""
    il = idx_list(index)
    if il is None:
        return set(range(n))
    ws = [wrap(n, i) for i in il]
    if any(w is None for w in ws):
        return set()
    return set(ws)


def sel_each(n, index):
    """selection of the per-index family: every in-range index (negative wraps) individually"""
    il = idx_list(index)
    if il is None:
        return set(range(n))
    return set(w for w in (wrap(n, i) for i in il) if w is not None)


def container(rng, x, kinds=("list", "list", "array")):
    import numpy as np
    k = rng.choice(kinds)
    if k == "array":
        return np.array(x, dtype=float), k
    if k == "tuple":
        return tuple(x), k
    return list(x), k


def tolist(y):
    return [float(v) for v in y]


def canon0(v):
    return [0.0 if a == 0 else a for a in v]


def isfin(a):
    return a == a and a not in (INF, -INF)


# ------------------------------------------------------------------ draw recorders
class Patch:
    """temporarily replace module-level names of mystic.constraints"""

    def __init__(self, **repl):
        self.repl = repl

    def __enter__(self):
        from mystic import constraints as C
        self.C = C
        self.old = {k: getattr(C, k) for k in self.repl}
        for k, v in self.repl.items():
            setattr(C, k, v)
        return self

    def __exit__(self, *a):
        for k, v in self.old.items():
            setattr(self.C, k, v)


# ------------------------------------------------------------------ one case = dict(op, cfg, x, kind)
OPS = ["discrete", "integers", "rounded", "precision", "bounds", "bounded", "unique", "sorting", "monotonic",
       "at", "as", "partial", "sync", "clipped", "suppress", "masked", "mean", "spread", "norm", "var"]
WEIGHTS = [10, 9, 7, 4, 12, 6, 9, 8, 8, 8, 8, 5, 6, 5, 5, 5, 5, 4, 5, 3]


def gen_intervals(rng):
    k = rng.random()
    if k < 0.45:
        lo = dyadic(rng, -6, 6, 4); hi = lo + abs(dyadic(rng, 0, 6, 4))
        if rng.random() < 0.08:
            lo, hi = hi + 1.0, lo                            # malformed min > max
        if rng.random() < 0.1:
            lo = None
        elif rng.random() < 0.1:
            hi = None
        return [(lo, hi)], "one"
    m = rng.choice([2, 2, 3])
    ivs = []
    a = dyadic(rng, -8, 0, 4)
    for _ in range(m):
        w = abs(dyadic(rng, 0, 3, 4))
        ivs.append((a, a + w))
        a = a + w + abs(dyadic(rng, 0, 3, 4)) * (0 if rng.random() < 0.1 else 1)
    if rng.random() < 0.3:
        rng.shuffle(ivs)
    if rng.random() < 0.12:                                   # overlapping / nested
        ivs.append((ivs[0][0] - 1.0, ivs[-1][1] + 0.5))
    return ivs, "multi"


def near_values(rng, marks, n, special=True):
    """vector concentrated on / one ulp around the given marks, their midpoints, and far away"""
    marks = [m for m in marks if m is not None and isfin(m)]
    out = []
    for _ in range(n):
        k = rng.random()
        if marks and k < 0.25:
            out.append(rng.choice(marks))
        elif marks and k < 0.4:
            m = rng.choice(marks); out.append(math.nextafter(m, rng.choice([INF, -INF])))
        elif len(marks) > 1 and k < 0.55:
            a, b = rng.sample(marks, 2); out.append((a + b) / 2.0)
        else:
            out.append(gval(rng, special))
    return out


# ------------------------------------------------------------------ impose_as masks
AS_SHAPES = ["forest", "forest", "chain", "any", "shared", "shared", "star", "layered", "layered", "dag", "dag", "doc"]
AS_OFFSETS = [None, 0.0, 1.0, -0.5, 10.0, 0.1, -2.5, 0.25, -3.0, 2.0]
DOC_MASK = [(0, 1), (3, 1), (4, 5), (5, 6), (5, 7)]          # the mask of impose_as's docstring (constraints.py l.1632 / l.1642)


def dacyclic(pairs):
    """drop self pairs and pairs that would close a DIRECTED cycle by index value (such a mask never terminates in the
    code: witness only); repeated pairs, shared trackers, shared partners and undirected cycles (diamonds) all stay"""
    out = []; succ = {}

    def reaches(a, b):
        seen = set(); todo = [a]
        while todo:
            u = todo.pop()
            if u == b:
                return True
            if u in seen:
                continue
            seen.add(u); todo.extend(succ.get(u, ()))
        return False
    for i, j in pairs:
        if i == j or reaches(j, i):
            continue
        succ.setdefault(i, []).append(j)
        out.append((i, j))
    return out


def gen_as_shape(rng, shape, nn):
    """pairs (partner, tracker) over the labels 0..nn-1, listed partners-first (a listing in which tools.connected finds
    one group per component, keyed by a label that tracks nothing) unless the caller shuffles"""
    pairs = []
    lab = list(range(nn))
    if rng.random() < 0.6:
        rng.shuffle(lab)                                     # which label plays which role: i < j is NOT a rule of the mask
    if shape in ("forest", "chain", "any"):
        for _ in range(rng.randint(0, 5)):
            if shape == "chain" and pairs:
                i = pairs[-1][1]; j = i + 1
            else:
                i = rng.randrange(nn); j = rng.randrange(nn)
            if i == j:
                continue
            if shape != "any" and i > j:
                i, j = j, i
            if shape == "forest" and any(p[1] == j for p in pairs):
                continue
            pairs.append((i, j))
        return acyclic(pairs) if shape == "any" else pairs
    if shape == "shared":
        # several partners of ONE tracker; sometimes the tracker is tracked further (a chain below it), sometimes one of the
        # partners tracks a further entry itself (then the partners sit at unequal depths)
        k = min(nn - 1, rng.choice([2, 2, 3, 4]))
        t, ps, rest = lab[0], lab[1:1 + k], lab[1 + k:]
        pairs = [(p, t) for p in ps]
        for _ in range(rng.choice([0, 0, 1, 2])):
            if rest:
                pairs.append((t, rest.pop())); t = pairs[-1][1]
        if rest and rng.random() < 0.25:
            pairs.insert(0, (rest.pop(), rng.choice(ps)))
        if rest and len(rest) > 1 and rng.random() < 0.3:     # an independent pair beside it
            pairs.append((rest.pop(), rest.pop()))
        return pairs
    if shape == "star":
        k = min(nn - 1, rng.choice([2, 2, 3, 4]))
        p, ts, rest = lab[0], lab[1:1 + k], lab[1 + k:]
        pairs = [(p, t) for t in ts]
        if rest and rng.random() < 0.5:
            pairs.append((rng.choice(ts), rest.pop()))
        if rest and rng.random() < 0.3:
            pairs.insert(0, (rest.pop(), p))
        return pairs
    if shape == "layered":
        # levels 0..d, every pair leads from a level to the next: shared trackers with partners at EQUAL depth, fan-out,
        # diamonds.  A satisfiable system for every offset.
        k = min(nn, rng.randint(3, 7))
        nodes = lab[:k]
        d = rng.randint(1, min(3, k - 1))
        lev = [[] for _ in range(d + 1)]
        for r, a in enumerate(nodes):
            lev[r if r <= d else rng.randint(0, d)].append(a)
        for l in range(1, d + 1):
            for a in lev[l]:
                for p in rng.sample(lev[l - 1], min(len(lev[l - 1]), rng.choice([1, 1, 2, 3]))):
                    pairs.append((p, a))
        return pairs
    if shape == "dag":
        k = min(nn, rng.randint(3, 6))
        nodes = lab[:k]
        for _ in range(rng.randint(2, 6)):
            a, b = sorted(rng.sample(range(k), 2))
            pairs.append((nodes[a], nodes[b]))                # repeated pairs and triangles may occur
        return pairs
    raise AssertionError(shape)


def gen_as(rng, c, n):
    shape = rng.choice(AS_SHAPES)
    if shape not in ("forest", "chain", "any") and n < 4 and rng.random() < 0.75:
        n = rng.choice([4, 5, 6, 7, 9])
    nn = max(n, 2)
    if shape == "doc":
        pairs = list(DOC_MASK)
        n = rng.choice([4, 6, 7, 9, 9, 10, n])
        nn = max(n, 2)
    else:
        pairs = gen_as_shape(rng, shape, nn)
    feats = []
    if pairs and rng.random() < 0.15:                         # the same pair listed again
        for _ in range(rng.choice([1, 1, 2])):
            pairs.insert(rng.randrange(len(pairs) + 1), rng.choice(pairs))
        feats.append("repeated-pair")
    if pairs and rng.random() < 0.12:                         # one out-of-range / negative tracker
        k = rng.randrange(len(pairs)); i, j = pairs[k]
        pairs[k] = (i, rng.choice([j - nn, nn + 1, -nn - 2]))
    elif pairs and rng.random() < 0.06:                       # one out-of-range partner
        k = rng.randrange(len(pairs)); i, j = pairs[k]
        pairs[k] = (rng.choice([nn + 2, -nn - 1, nn]), j)
    elif pairs and n and rng.random() < 0.1:                  # one entry addressed from the end, in every pair that lists it
        v = rng.choice([a for p in pairs for a in p])
        if 0 <= v < n:
            pairs = [tuple(a - n if a == v else a for a in p) for p in pairs]
    if rng.random() < 0.3:
        rng.shuffle(pairs)
    # a mask with a cycle (by index VALUE) never terminates in the code: witness only
    pairs = acyclic(pairs) if shape in ("forest", "chain", "any") else dacyclic(pairs)
    c["mask"] = pairs
    c["offset"] = rng.choice(AS_OFFSETS)
    x = gvec(rng, n)
    if pairs and rng.random() < 0.3:
        x = as_conforming(rng, pairs, c["offset"] or 0.0, x)
    c["x"] = x
    c["shape"] = shape
    c["itag"] = shape
    c["kinds"] = ("list", "list", "array")


def as_conforming(rng, pairs, off, x):
    """overwrite the addressed entries of x so that x[j] = x[i] + off holds exactly (dyadic values) for every in-range pair,
    where such an assignment exists; otherwise x is returned as it is"""
    n = len(x)
    x = list(x)
    adj = {}
    for i, j in pairs:
        wi, wj = wrap(n, i), wrap(n, j)
        if wi is None or wj is None:
            continue
        adj.setdefault(wi, []).append((wj, 1)); adj.setdefault(wj, []).append((wi, -1))
    pot = {}
    for s in sorted(adj):
        if s in pot:
            continue
        pot[s] = (s, 0); todo = [s]
        while todo:
            u = todo.pop()
            for v, d in adj[u]:
                if v not in pot:
                    pot[v] = (s, pot[u][1] + d); todo.append(v)
    base = {}
    for s, (r, d) in pot.items():
        if r not in base:
            base[r] = float(rng.randint(-6, 6)) if rng.random() < 0.5 else dyadic(rng, -8, 8, 4)
        x[s] = base[r] + d * off
    return x


def gen_case(rng):
    op = rng.choices(OPS, WEIGHTS)[0]
    n = glen(rng)
    c = {"op": op}
    if op == "discrete":
        m = rng.choice([0, 1, 2, 3, 4, 6]) if rng.random() < 0.1 else rng.choice([1, 2, 3, 4, 6])
        s = [dyadic(rng, -6, 6, 4) if rng.random() < 0.7 else rng.uniform(-6, 6) for _ in range(m)]
        if m > 1 and rng.random() < 0.2:
            s[-1] = s[0]
        s = [0.0 if v == 0 else v for v in s]
        c["samples"] = s
        c["x"] = near_values(rng, s, n)
        c["index"], c["itag"] = gindex(rng, n)
        c["kinds"] = ("list", "list", "array", "tuple")
    elif op == "integers":
        c["ints"] = rng.choice(["float", "float", "True", "int", "False"])
        special = c["ints"] in ("float", "False")
        c["x"] = gvec(rng, n, special)
        c["index"], c["itag"] = gindex(rng, n)
        c["kinds"] = ("list", "list", "array", "tuple")
    elif op in ("rounded", "precision"):
        c["digits"] = rng.choice([None, 0, 1, 1, 2, 3, -1, -2, 5])
        d = c["digits"] or 0
        xs = []
        for v in gvec(rng, n):
            k = rng.random()
            if k < 0.5:
                xs.append(v)
            elif k < 0.75:                                   # exact ties of numpy.round at this number of digits
                xs.append(tie_value(rng, d))
            else:
                xs.append(round(rng.uniform(-500, 500), rng.randint(0, 4)) + rng.choice([0, 0.05, 0.005, 0.5, 5.0]))
        c["x"] = xs
        c["index"], c["itag"] = gindex(rng, n)
        c["kinds"] = ("list", "list", "array", "tuple")
    elif op == "bounds":
        form = rng.choice(["plain", "plain", "plain", "dict", "dict+index"])
        c["form"] = form
        if form == "plain":
            ivs, tag = gen_intervals(rng)
            c["ivs"] = ivs; c["ivtag"] = tag
            if rng.random() < 0.06:
                c["ivs"] = []
            c["index"], c["itag"] = gindex(rng, n)
            marks = [e for iv in ivs for e in iv]
        else:
            d = {}
            marks = []
            for i in set((gbidx(rng, n) if rng.random() < 0.2 else rng.randrange(-1, n + 2)) for _ in range(rng.randint(1, 4))):
                ivs, _ = gen_intervals(rng); d[i] = ivs; marks += [e for iv in ivs for e in iv]
            c["dict"] = d
            c["index"], c["itag"] = (gindex(rng, n, allow_none=False) if form == "dict+index" else (None, "none"))
            if isinstance(c["index"], tuple) and len(c["index"]) == 0:
                c["index"] = (0,)
        c["x"] = near_values(rng, marks, n)
        c["kinds"] = ("list", "list", "array", "tuple")
    elif op == "bounded":
        ivs, tag = gen_intervals(rng)
        c["ivs"] = ivs; c["ivtag"] = tag
        c["mode"] = rng.choice(["pick", "randnear", "randpick", "near"])
        c["index"], c["itag"] = gindex(rng, n)
        c["x"] = near_values(rng, [e for iv in ivs for e in iv], n, special=False)
        c["kinds"] = ("list", "array")
    elif op == "unique":
        # the allowed values: a sorted list without repeats, a list in any order, a list / tuple in which members are
        # listed several times (assembled from several sources), a set, a range
        m = rng.randint(0, 8)
        base = sorted(set(dyadic(rng, -4, 8, 2) for _ in range(m)))
        base = [0.0 if v == 0 else v for v in base]
        form = rng.choice(["sorted", "shuffled", "repeats", "repeats", "repeats", "tuple-repeats", "set", "range"])
        if form == "range":
            lo = rng.randint(-3, 3); hi = lo + rng.randint(0, 9)
            c["range"] = [lo, hi]
            base = [float(v) for v in range(lo, hi)]
        full = list(base)
        if form in ("repeats", "tuple-repeats") and base:
            for _ in range(rng.randint(1, 5)):
                full.insert(rng.randrange(len(full) + 1), rng.choice(base))
        if form in ("shuffled", "repeats", "tuple-repeats"):
            rng.shuffle(full)
        c["full"] = full; c["form"] = form; c["itag"] = form
        k = rng.random()
        if base and k < 0.6:
            n = rng.randint(0, len(base) + (1 if rng.random() < 0.15 else 0))     # mostly: a distinct vector exists
        src = list(base)
        if base and rng.random() < 0.55:
            src = rng.sample(base, min(len(base), rng.randint(1, 3)))       # few different values: many repeats to replace
        pool = src + ([99.5] if rng.random() < 0.05 else [])
        x = [rng.choice(pool) for _ in range(n)] if pool else []
        if base and rng.random() < 0.12:
            x = rng.sample(base, min(len(base), n))                         # conforming: pairwise distinct allowed values
        c["x"] = x
        c["via"] = rng.choice(["unique", "impose_unique"])
        c["kinds"] = ("list", "list", "tuple", "array")
        if rng.random() < 0.14:
            # full = int (or no `full` at all and integer entries): the allowed values are range(min(x), max(x)+1)
            # (constraints.py l.1107-1110, l.1143-1146); the entries are handed over as python ints, at least one of them
            form = rng.choice(["int-type", "none-int"])
            lo = rng.randint(-3, 3); span = rng.randint(0, 8)
            xi = [rng.randint(lo, lo + span) for _ in range(rng.randint(1, span + 2))]
            if rng.random() < 0.5:
                xi[rng.randrange(len(xi))] = lo + span; xi[rng.randrange(len(xi))] = lo      # the whole span is allowed
            c["x"] = [float(v) for v in xi]
            c["full"] = [float(v) for v in range(min(xi), max(xi) + 1)]
            c["form"] = c["itag"] = form
            c["kinds"] = ("list", "list", "tuple")
    elif op in ("sorting", "monotonic"):
        c["asc"] = rng.random() < 0.6
        c["outer"] = rng.random() < 0.3
        x = gvec(rng, n, special=False)
        if rng.random() < 0.25:
            x = sorted(x, reverse=not c["asc"])                # conforming input
        if n > 1 and rng.random() < 0.3:
            x[rng.randrange(n)] = x[rng.randrange(n)]            # ties
        c["x"] = x
        c["index"], c["itag"] = gindex(rng, n)
        c["kinds"] = ("list", "list", "array")
    elif op == "at":
        m = rng.randint(0, 5)
        index = []
        for _ in range(m):
            k = rng.random()
            index.append(gbidx(rng, n) if k < 0.2 else (rng.randint(-n - 1, n + 2) if k < 0.4 else (rng.randrange(n) if n else 0)))
        if m and rng.random() < 0.12:                         # only boundary addresses that exist, e.g. [-len] or [-len, len-1]
            index = list(dict.fromkeys(gbidx(rng, n, valid=True) for _ in range(rng.randint(1, 2))))
        if rng.random() < 0.7:
            index = list(dict.fromkeys(index))
        elif n and index and rng.random() < 0.5:             # the same slot addressed twice, once from the end
            i = rng.choice(index)
            if 0 <= i < n:
                index.insert(rng.randrange(len(index) + 1), i - n)
        c["index"] = index
        if rng.random() < 0.55:
            c["target"] = gval(rng)
        else:
            kept = [i for i in index if i < n]
            L = len(kept) if rng.random() < 0.7 else rng.choice([len(index), 1, len(kept) + 1])
            c["targets"] = gvec(rng, L)
        c["x"] = gvec(rng, n)
        c["kinds"] = ("list", "list", "array", "tuple")
    elif op == "as":
        gen_as(rng, c, n)
    elif op == "partial":
        m = rng.randint(0, 4)
        gk = lambda k: gbidx(rng, n) if k < 0.2 else (rng.randint(-n - 1, n + 1) if k < 0.4 else (rng.randrange(n) if n else 0))
        c["mask"] = {gk(rng.random()): gval(rng) for _ in range(m)}
        c["x"] = gvec(rng, n)
        c["kinds"] = ("list", "list", "array")
    elif op == "sync":
        m = rng.randint(0, 4)
        mask = {}
        for _ in range(m):
            gk = lambda k: gbidx(rng, n) if k < 0.15 else (rng.randint(-n - 1, n + 1) if k < 0.35 else (rng.randrange(n) if n else 0))
            i = gk(rng.random()); j = gk(rng.random())
            if rng.random() < 0.3:
                mask[i] = (j, rng.choice([2.0, -1.0, 0.5, 1.0, 0.0]))
            else:
                mask[i] = j
        c["mask"] = mask
        c["x"] = gvec(rng, n)
        c["kinds"] = ("list", "list", "array")
    elif op == "clipped":
        lo = dyadic(rng, -6, 6, 4); hi = lo + abs(dyadic(rng, 0, 6, 4))
        if rng.random() < 0.08:
            lo, hi = hi + 0.5, lo
        c["lo"] = None if rng.random() < 0.15 else lo
        c["hi"] = None if rng.random() < 0.15 else hi
        c["exit"] = rng.random() < 0.3
        c["x"] = near_values(rng, [lo, hi], n)
        c["kinds"] = ("list", "list", "array", "tuple")
    elif op == "suppress":
        c["tol"] = rng.choice([1e-8, 1e-8, 0.5, 0.25, 1.0, 0.0, 3.0])
        c["clip"] = rng.random() < 0.6
        c["exit"] = rng.random() < 0.3
        x = near_values(rng, [c["tol"], -c["tol"]], n, special=c["clip"])
        if not c["clip"]:
            x = [dyadic(rng, -4, 4, 8) if rng.random() < 0.8 else v for v in x]
        c["x"] = x
        c["kinds"] = ("list", "list", "array", "tuple")
    elif op == "masked":
        m = rng.randint(0, 4)
        tot = n + m
        keys = rng.sample(range(tot + 1), m) if tot + 1 >= m else []       # any listing order; `tot` is one beyond
        if keys and rng.random() < 0.25:
            keys[rng.randrange(m)] = tot - 1                 # the largest admissible key
            keys = list(dict.fromkeys(keys))
        if rng.random() < 0.1 and keys:
            keys[0] = rng.choice([-1, tot + 2, -tot - 1])
        c["mask"] = {k: gval(rng) for k in keys}
        c["x"] = gvec(rng, n)
        c["kinds"] = ("list", "list", "array", "tuple")
    elif op in ("mean", "spread", "norm", "var"):
        exact = rng.random() < 0.6
        c["exact"] = exact
        if exact:
            x = [dyadic(rng, -8, 8, 8) for _ in range(n)]
        else:
            x = [rng.uniform(-10, 10) for _ in range(n)]
        t = dyadic(rng, -4, 6, 4) if exact else rng.uniform(-5, 8)
        if op == "mean":
            if n and exact and rng.random() < 0.4:           # guard region (exact stream only: the sum order is not replicated)
                m = sum(x) / n
                t = rng.choice([m, m * (1 + 1e-7), m * (1 + 1.0000001e-7), m * (1 - 1e-7), math.nextafter(m, INF), m + 1e-9])
        elif op == "spread":
            t = abs(t)
            if n and exact and max(x) != min(x):
                t = (max(x) - min(x)) * rng.choice([0.5, 2.0, 0.25, 1.5, 4.0, 1.0, 0.75])
            if n > 1 and rng.random() < 0.12:
                x = [x[0]] * n                                # zero spread
                if rng.random() < 0.4:
                    t = 0.0
            k = rng.random()
            if k < 0.08:
                t = -t                                        # a negative target cannot be met: |target| is
            elif k < 0.14:
                t = 0.0
        elif op == "norm":
            t = rng.choice([1.0, 1.0, 2.0, 0.5, 0.0, -1.0, t])
            if n and rng.random() < 0.12:
                x = [v - x[0] for v in x] if rng.random() < 0.5 else [0.0] * n
            if n > 1 and rng.random() < 0.1:
                x[-1] = -sum(x[:-1])                           # zero sum
            if n and rng.random() < 0.15:
                s = sum(x)
                if s and isfin(t / s):
                    x = [v * (t / s) for v in x]               # already normalised (up to rounding)
        else:
            t = abs(t)
            if n > 1 and rng.random() < 0.15:
                x = [x[0]] * n
                t = rng.choice([t, 0.0])
            c["std"] = rng.random() < 0.3
            c["sneg"] = c["std"] and rng.random() < 0.3       # with_std(-s) == with_std(s)
            k = rng.random()
            if k < 0.06 and not c["std"]:
                t = -t                                        # negative variance: sqrt gives NaN
            elif k < 0.12:
                t = 0.0
        c["target"] = t
        c["x"] = x
        c["kinds"] = ("list", "list", "array", "tuple")
    c["xin"], c["kind"] = None, None
    return c


def tie_value(rng, d):
    """a float that numpy.round(., d) sees as an exact tie: x*10^d (d>0), x (d=0), x/10^-d (d<0) is n + 1/2 in floats"""
    m = rng.randint(-40, 40)
    if d <= 0:
        return (m + 0.5) * 10.0 ** (-d)
    p = 10.0 ** d
    for _ in range(8):
        v = (m + 0.5) / p
        if v * p == m + 0.5:
            return v
        m += 1
    return (m + 0.5) / p


def acyclic(pairs):
    """drop pairs that would close a directed or undirected cycle (a cyclic mask makes impose_as loop forever)"""
    out = []; comp = {}

    def find(a):
        while comp.get(a, a) != a:
            a = comp[a]
        return a
    for i, j in pairs:
        a, b = find(i), find(j)
        if a == b:
            continue
        comp[a] = b
        out.append((i, j))
    return out


# ------------------------------------------------------------------ run the real code
def build_dec(c, extra):
    """a FRESH decorator object for the configuration (deterministic: every call builds an equal one)"""
    import numpy as np
    from mystic import constraints as C, tools as T
    op = c["op"]
    if op == "discrete":
        dec = C.discrete(list(c["samples"]), index=c["index"])
    elif op == "integers":
        ints = {"float": float, "True": True, "int": int, "False": False}[c["ints"]]
        dec = C.integers(ints=ints, index=c["index"])
    elif op == "rounded":
        dec = C.rounded(digits=c["digits"], index=c["index"])
    elif op == "precision":
        dec = C.precision(digits=c["digits"], index=c["index"])
    elif op == "bounds":
        if c["form"] == "plain":
            ivs = c["ivs"]
            b = ivs[0] if (len(ivs) == 1 and c.get("single_form")) else ivs
            dec = C.impose_bounds(b, index=c["index"])
        else:
            d = {k: (v[0] if len(v) == 1 else v) for k, v in c["dict"].items()}
            dec = C.impose_bounds(d, index=c["index"])
    elif op == "sorting":
        dec = C.sorting(ascending=c["asc"], outer=c["outer"], index=c["index"])
    elif op == "monotonic":
        dec = C.monotonic(ascending=c["asc"], outer=c["outer"], index=c["index"])
    elif op == "at":
        dec = C.impose_at(list(c["index"]), c["target"] if "target" in c else list(c["targets"]))
    elif op == "as":
        m = list(c["mask"])
        dec = C.impose_as(m) if c["offset"] is None else C.impose_as(m, c["offset"])
    elif op == "partial":
        dec = T.partial(dict(c["mask"]))
    elif op == "sync":
        dec = T.synchronized(dict(c["mask"]))
    elif op == "clipped":
        dec = T.clipped(c["lo"], c["hi"], exit=c["exit"])
    elif op == "suppress":
        dec = T.suppressed(c["tol"], exit=c["exit"], clip=c["clip"])
    elif op == "masked":
        dec = T.masked(dict(c["mask"]))
    elif op == "mean":
        dec = C.with_mean(c["target"])
    elif op == "spread":
        dec = C.with_spread(c["target"])
    elif op == "norm":
        dec = C.normalized(c["target"])
    elif op == "var":
        if c.get("std"):
            sd = -math.sqrt(c["target"]) if c.get("sneg") else math.sqrt(c["target"])
            dec = C.with_std(sd)
            extra["v"] = sd ** 2
        else:
            dec = C.with_variance(c["target"])
    return dec


def full_object(c):
    """the `full` argument of unique / impose_unique in the form the case asks for (a fresh object every time)"""
    form = c.get("form", "sorted")
    if form == "int-type":
        return int
    if form == "none-int":
        return None
    if form == "range":
        return range(int(c["range"][0]), int(c["range"][1]))
    if form == "set":
        return set(c["full"])
    if form == "tuple-repeats":
        return tuple(c["full"])
    return list(c["full"])


def run_impl(c, rng):
    """returns (result: list of floats | ('err', enum), extra dict recorded from the run)"""
    import numpy as np
    from mystic import constraints as C, tools as T
    op = c["op"]
    xin, kind = container(rng, c["x"], c["kinds"])
    c["kind"] = kind
    extra = {}

    def call(f):
        import signal

        def onalarm(sig, frm):
            raise Hang()
        # a call that never returns burns CPU: the watchdog counts the CPU time of THIS process (ITIMER_PROF), so a run on
        # a heavily loaded machine (a shard descheduled for seconds) is not mistaken for a hang; a generous wall-clock
        # alarm stays behind it for a call that would block without computing
        limit = c.get("alarm", 10.0)
        old = signal.signal(signal.SIGALRM, onalarm)
        oldp = signal.signal(signal.SIGPROF, onalarm)
        signal.setitimer(signal.ITIMER_REAL, max(120.0, 60.0 * limit))
        signal.setitimer(signal.ITIMER_PROF, limit)
        try:
            return tolist(f(copy.copy(xin)))
        except Hang:
            return ("err", "hang")
        except tuple(ERR) as e:
            for t, name in ERR.items():
                if isinstance(e, t):
                    return ("err", name)
            raise
        finally:
            signal.setitimer(signal.ITIMER_PROF, 0)
            signal.setitimer(signal.ITIMER_REAL, 0)
            signal.signal(signal.SIGPROF, oldp)
            signal.signal(signal.SIGALRM, old)
    if op == "bounded":
        picks = []; draws = []

        def choice(a, size=None):
            if c.get("_picks") is not None:                  # replay of a stored case
                v = np.array([c["_picks"].pop(0) for _ in range(size[0])], dtype=int)
            else:
                v = np.array([rng.randrange(a) for _ in range(size[0])], dtype=int)
            picks.extend(int(t) for t in v); return v

        def uniform(lo, hi, size=None):
            if c.get("_draws") is not None:
                v = np.array(c["_draws"].pop(0), dtype=float)
            else:
                v = np.array([rng.choice([0.0, 0.5, rng.random(), rng.random(), math.nextafter(1.0, 0.0)]) for _ in range(size[0])])
            draws.append([float(t) for t in v]); return v
        clip = c["mode"] in ("near", "pick")
        nearest = c["mode"] in ("near", "randnear")
        with Patch(choice=choice, uniform=uniform):
            r = call(lambda v: C.bounded(v, c["ivs"], c["index"], clip, nearest))
        extra["picks"] = picks; extra["draws"] = draws

        def again(v):                                        # re-callable with its own reproducible draws (aliasing monitor)
            r2 = _random.Random(20260928)
            ch = lambda a, size=None: np.array([r2.randrange(a) for _ in range(size[0])], dtype=int)
            un = lambda lo, hi, size=None: np.array([r2.random() for _ in range(size[0])])
            with Patch(choice=ch, uniform=un):
                return C.bounded(v, c["ivs"], c["index"], clip, nearest)
        extra["g"] = again
        return r, extra
    elif op == "unique":
        rec = []

        def shuffle(l):
            if c.get("_new") is not None:
                # replay: the recorded list is the ORDER the shuffle produced, never the content - the tree under replay
                # builds its own pool; a pool with other members is shuffled reproducibly instead
                rec_ = [float(v) for v in c["_new"]]
                if sorted(rec_) == sorted(float(v) for v in l):
                    have = {}
                    for v in l:
                        have.setdefault(float(v), []).append(v)
                    l[:] = [have[r].pop() for r in rec_]
                else:
                    _random.Random(0).shuffle(l)
            else:
                rng.shuffle(l)
            rec.append([float(v) for v in l])
        asint = c.get("form") in ("int-type", "none-int")
        if asint:
            xin = type(xin)(int(v) for v in xin)             # python ints (numbers.Integral), same container
        with Patch(shuffle=shuffle):
            if c["via"] == "unique":
                r = call(lambda v: C.unique(v, full_object(c)))
            else:
                r = call(C.impose_unique(full_object(c))(ident))
        extra["new"] = rec[0] if rec else []
        extra["shuffled"] = bool(rec)

        def again(v):
            if asint:
                v = [int(a) for a in v]
            with Patch(shuffle=lambda l: l.sort()):
                return C.unique(v, full_object(c)) if c["via"] == "unique" else C.impose_unique(full_object(c))(ident)(v)
        extra["g"] = again
        return r, extra
    if op == "bounds" and "single_form" not in c:
        c["single_form"] = rng.random() < 0.6               # impose_bounds((lo, hi)) or impose_bounds([(lo, hi)])
    dec = build_dec(c, extra)
    f = dec(ident)
    extra["f"] = f
    return call(f), extra


# ------------------------------------------------------------------ request line for the model
def bval(v):
    return "f%d" % common.struct.unpack("<Q", common.struct.pack("<d", NAN))[0] if v is None else f2b(v)


def ivs_sexp(ivs):
    return "(" + " ".join("(%s %s)" % (bval(lo), bval(hi)) for lo, hi in ivs) + ")"


def request_line(c, extra):
    op = c["op"]; x = fl(c["x"])
    if op == "discrete":
        return "C16 discrete (x %s) (idx %s) (samples %s)" % (x, idx_sexp(c["index"]), fl(c["samples"]))
    if op == "integers":
        return "C16 integers (x %s) (idx %s) (cast %s)" % (x, idx_sexp(c["index"]), "int" if c["ints"] in ("True", "int") else "float")
    if op in ("rounded", "precision"):
        d = c["digits"] or 0
        return "C16 rounded (x %s) (idx %s) (digits %d) (p %s)" % (x, idx_sexp(c["index"]), d, f2b(10.0 ** abs(d)))
    if op == "bounds":
        return "C16 bounds (x %s) (spec %s)" % (x, spec_sexp(c))
    if op == "bounded":
        return "C16 bounded (x %s) (idx %s) (ivs %s) (mode %s) (picks (%s)) (draws %s)" % (
            x, idx_sexp(c["index"]), ivs_sexp(c["ivs"]), c["mode"], " ".join(str(p) for p in extra["picks"]), fll(extra["draws"]))
    if op == "unique":
        return "C16 unique (x %s) (full %s) (new %s)" % (x, fl(c["full"]), fl(extra["new"]))
    if op in ("sorting", "monotonic"):
        return "C16 %s (x %s) (idx %s) (asc %s)" % (op, x, idx_sexp(c["index"]), "true" if c["asc"] else "false")
    if op == "at":
        idx = "(" + " ".join(str(i) for i in c["index"]) + ")"
        if "target" in c:
            return "C16 at (x %s) (index %s) (target %s)" % (x, idx, f2b(c["target"]))
        return "C16 at (x %s) (index %s) (targets %s)" % (x, idx, fl(c["targets"]))
    if op == "as":
        return "C16 as (x %s) (mask (%s)) (offset %s)" % (x, " ".join("(%d %d)" % p for p in c["mask"]), f2b(c["offset"] or 0.0))
    if op == "partial":
        return "C16 partial (x %s) (mask (%s))" % (x, " ".join("(%d %s)" % (i, f2b(v)) for i, v in c["mask"].items()))
    if op == "sync":
        ent = []
        for i, j in c["mask"].items():
            ent.append("(%d %d %s)" % (i, j[0], f2b(j[1])) if isinstance(j, tuple) else "(%d %d)" % (i, j))
        return "C16 sync (x %s) (array %s) (mask (%s))" % (x, "true" if c["kind"] == "array" else "false", " ".join(ent))
    if op == "clipped":
        return "C16 clipped (x %s) (lo %s) (hi %s)" % (x, "none" if c["lo"] is None else f2b(c["lo"]), "none" if c["hi"] is None else f2b(c["hi"]))
    if op == "suppress":
        return "C16 %s (x %s) (tol %s)" % ("suppress" if c["clip"] else "suppressspread", x, f2b(c["tol"]))
    if op == "masked":
        return "C16 masked (x %s) (mask (%s))" % (x, " ".join("(%d %s)" % (i, f2b(v)) for i, v in c["mask"].items()))
    if op in ("mean", "spread", "norm", "var"):
        t = extra.get("v", c["target"])
        return "C16 %s (x %s) (target %s) (atol %s) (rtol %s) (sum %s)" % (op, x, f2b(t), f2b(1e-18), f2b(1e-7), "np" if op == "norm" else "seq")
    raise AssertionError(op)


def spec_entries(c):
    """the normalised {index: intervals} dict of impose_bounds (constraints.py l.1306-1330), from the configuration"""
    index = c["index"]
    il = idx_list(index)
    ent = []
    if c["form"] == "plain":
        if il is None:
            ent = [(None, c["ivs"])]
        else:
            ent = [(i, c["ivs"]) for i in dict.fromkeys(il)]
    else:
        d = c["dict"]
        if il is None:
            ent = list(d.items())
        else:
            ent = [(i, d[i]) for i in dict.fromkeys(il) if i in d]
    return ent


def spec_sexp(c):
    ent = spec_entries(c)
    return "(" + " ".join("(%s %s)" % ("none" if i is None else str(i), ivs_sexp(v)) for i, v in ent) + ")"


# ------------------------------------------------------------------ comparison
TOL_OPS = {"mean", "spread", "var"}


def compare(c, res, rep):
    """returns (None | divergence text, stream) ; stream = 'exact' | 'toleranced'"""
    r = parse_reply(rep)
    stream = "exact"
    if r[0] == "bad-op":
        return "model replied bad-op", stream
    if r[0] == "err":
        if isinstance(res, tuple) and res[1] == r[1]:
            return None, stream
        return "model raised %s, implementation %s" % (r[1], "raised " + res[1] if isinstance(res, tuple) else "returned %r" % (res,)), stream
    my = floats_of(r[1]["y"])
    if isinstance(res, tuple):
        return "implementation raised %s, model returned %r" % (res[1], my), stream
    if c["op"] == "unique" and r[1].get("pool") != "ok":
        return ("the list handed to shuffle is not `set(full) - set(x)` in some order (no repeats, allowed values that do not occur "
                "in x, all of them): model pool=%s, result model=%r impl=%r" % (r[1].get("pool"), my, res)), stream
    a, b = res, my
    if c["op"] in ("integers", "rounded", "precision"):
        a, b = canon0(a), canon0(b)            # numpy rint keeps the sign of a zero result; the field model does not
    if same_vec(a, b):
        return None, stream
    if c["op"] in TOL_OPS and not c.get("exact"):
        stream = "toleranced"
        if len(a) == len(b) and all((p != p and q != q) or abs(p - q) <= 1e-9 * max(1.0, abs(p), abs(q)) for p, q in zip(a, b)):
            return None, stream
    return "result model=%r impl=%r" % (my, res), stream


# ------------------------------------------------------------------ the monitor: the property on the real result
def ref_connected(pairs):
    """tools.connected (tools.py l.770-791) as it is in the pinned tree: {key: set(members)} in insertion order; a pair is
    attached to the FIRST group that contains its first member (as key or member), else its second member; two existing
    groups are never merged (recorded finding F18).  Only used to name the class of a failing pair."""
    collapse = {}
    for i, j in pairs:
        found = False
        for k, v in collapse.items():
            if i == k or i in v:
                v.add(j); found = True; break
            if j == k or j in v:
                v.add(i); found = True; break
        if not found:
            collapse[i] = set((j,))
    return collapse


def true_components(pairs):
    comp = {}

    def find(a):
        comp.setdefault(a, a)
        while comp[a] != a:
            a = comp[a]
        return a
    for i, j in pairs:
        a, b = find(i), find(j)
        if a != b:
            comp[a] = b
    groups = {}
    for a in list(comp):
        groups.setdefault(find(a), set()).add(a)
    return list(groups.values())


def as_analysis(pairs, n):
    """facts about an impose_as mask that depend on the mask and the length only (index VALUES are the nodes):
    aliased          two different index values address one entry (malformed: compared, not judged)
    dcyclic          a directed cycle (the code never returns)
    depth[a]         number of rounds of the `while pairs:` offset loop in which `a` is a tracker = length of the longest
                     chain of pairs ending at `a` (constraints.py l.1667-1675 of the pinned tree)
    levelled         every pair leads from depth d to depth d+1: exactly then "x[j] = x[i] + offset for every pair" is what the
                     rounds produce for a non-zero offset; (when the pairs admit ANY level function and depth is not one, a
                     tracker is shared by partners at unequal depths)
    satisfiable      the pairs admit a level function at all (no two routes of different length between two entries)
    groups           tools.connected of the pinned tree (ref_connected)
    key_is_tracker   some group key is in range and is itself a tracker (depth > 0)
    key_out_of_range some group has an out-of-range key and an in-range member of depth > 0"""
    nodes = []
    for p in pairs:
        for a in p:
            if a not in nodes:
                nodes.append(a)
    slots = [wrap(n, a) for a in nodes if wrap(n, a) is not None]
    aliased = len(set(slots)) != len(slots)
    uniq = list(dict.fromkeys(pairs))
    dcyclic = len(dacyclic(uniq)) != len(uniq)
    depth = {a: 0 for a in nodes}
    if not dcyclic:
        for _ in range(len(nodes) + 1):
            changed = False
            for i, j in uniq:
                if depth[j] < depth[i] + 1:
                    depth[j] = depth[i] + 1; changed = True
            if not changed:
                break
    levelled = all(depth[j] == depth[i] + 1 for i, j in uniq)
    # any level function ?
    adj = {}
    for i, j in uniq:
        adj.setdefault(i, []).append((j, 1)); adj.setdefault(j, []).append((i, -1))
    pot = {}; satisfiable = True
    for s in nodes:
        if s in pot:
            continue
        pot[s] = 0; todo = [s]
        while todo:
            u = todo.pop()
            for v, d in adj.get(u, ()):
                if v not in pot:
                    pot[v] = pot[u] + d; todo.append(v)
                elif pot[v] != pot[u] + d:
                    satisfiable = False
    groups = ref_connected(list(pairs))
    key_is_tracker = any(wrap(n, r) is not None and depth[r] > 0 for r in groups)
    key_out_of_range = any(wrap(n, r) is None and any(wrap(n, k) is not None and depth[k] > 0 for k in v) for r, v in groups.items())
    return {"aliased": aliased, "dcyclic": dcyclic, "depth": depth, "levelled": levelled, "satisfiable": satisfiable,
            "groups": groups, "key_is_tracker": key_is_tracker, "key_out_of_range": key_out_of_range, "nodes": nodes}


def close(a, b, rel=1e-6, ab=1e-9):
    return abs(a - b) <= ab + rel * max(abs(a), abs(b))


def monitor(c, res, extra):
    """list of (class_key, what).  Only well-formed configurations are judged; NaN entries are not judged."""
    out = []
    op = c["op"]; x = c["x"]; n = len(x)
    if isinstance(res, tuple):
        if res[1] == "hang":
            key = "impose_as/never-terminates/cyclic-mask" if (op == "as" and as_analysis(c["mask"], n)["dcyclic"]) else op + "/never-terminates"
            out.append((key, "%s did not return within %.1f s of CPU time on x=%r (configuration %r)" % (op, c.get("alarm", 10.0), x, c.get("mask"))))
            return out
        # an exception: only judged where the documentation promises a value
        if op == "masked" and res[1] == "key":
            m = c["mask"]
            if all(0 <= k <= n + len(m) - 1 for k in m):
                out.append(("masked/keyerror-guard", "masked(%r) raised KeyError on an input of length %d although every key is in [0, %d]" % (m, n, n + len(m) - 1)))
        if op == "unique":
            allowed = set(c["full"])
            if all(v in allowed for v in x) and n <= len(allowed):
                out.append(("unique/raises-on-satisfiable", "%s raised %s on x=%r although every entry is an allowed value and the allowed set %r has "
                            "%d different members for %d entries" % (c["via"], res[1], x, c["full"], len(allowed), n)))
        if op == "at":
            idx = c["index"]
            kept = [i for i in idx if i < n]
            if all(-n <= i for i in kept) and ("target" in c or len(c["targets"]) in (1, len(kept))):
                out.append(("impose_at/raises-on-valid-input", "impose_at(%r, %r) raised %s on an input of length %d: indices beyond the length "
                            "are to be skipped, every other index is in range and the targets fit" % (idx, c.get("target", c.get("targets")), res[1], n)))
        if op == "at" and "targets" in c and res[1] == "value":
            idx = c["index"]
            kept = [i for i in idx if i < n]
            if len(kept) < len(idx) and len(c["targets"]) >= len(kept) and len(c["targets"]) == len(idx) - 0 and all(-n <= i for i in kept):
                out.append(("impose_at/list-target/raises-when-index-beyond-length",
                            "impose_at(%r, %r) raised ValueError on an input of length %d (documented: entries beyond the length are skipped)" % (idx, c["targets"], n)))
        return out
    y = res

    def bad(key, what):
        out.append((key, what + " [x=%r -> %r]" % (x, y)))
    if op != "masked" and len(y) != n:
        bad(op + "/length", "result has length %d, input %d" % (len(y), n)); return out

    def frame(sel, key):
        for k in range(n):
            if k not in sel and not same_float(y[k], x[k]):
                bad(key, "unselected entry %d changed from %r to %r" % (k, x[k], y[k])); return False
        return True

    def idem(f, key, exact=True):
        """applying the transform to its own result changes nothing"""
        import numpy as np
        try:
            z = tolist(f(np.array(y) if c["kind"] == "array" else list(y)))
        except Exception as e:
            bad(key, "second application raised %r" % (e,)); return
        ok = same_vec(canon0(z), canon0(y)) if exact else all((p != p and q != q) or close(p, q) for p, q in zip(z, y))
        if not ok:
            bad(key, "second application gives %r" % (z,))
    if op == "discrete":
        s = c["samples"]
        sel = sel_mask(n, c["index"])
        frame(sel, "discrete/frame")
        for k in sel:
            if x[k] != x[k]:
                continue
            if not any(same_float(y[k], v) or y[k] == v for v in s):
                bad("discrete/in-target", "entry %d = %r is not a sample" % (k, y[k])); break
            if isfin(x[k]) and any(abs(v - x[k]) < abs(y[k] - x[k]) for v in s):
                bad("discrete/nearest", "entry %d = %r is not the nearest sample to %r" % (k, y[k], x[k])); break
            if any(v == x[k] for v in s) and y[k] != x[k]:
                bad("discrete/fix-conform", "entry %d = %r was a sample but became %r" % (k, x[k], y[k])); break
            if isfin(x[k]) and any(abs(v - x[k]) == abs(y[k] - x[k]) and v < y[k] for v in s):
                bad("discrete/tie-lowest", "entry %d: %r is as near to a lower sample as to the chosen %r" % (k, x[k], y[k])); break
        idem(extra["f"], "discrete/idempotent")
    elif op == "integers":
        sel = sel_mask(n, c["index"])
        asint = c["ints"] in ("True", "int")
        for k in sel:
            if not isfin(x[k]):
                continue
            if y[k] != math.floor(y[k]) or abs(y[k] - x[k]) > 0.5:
                bad("integers/in-target", "entry %d: %r is not the nearest integer to %r" % (k, y[k], x[k])); break
            if abs(y[k] - x[k]) == 0.5 and y[k] % 2 != 0:
                bad("integers/half-even", "entry %d: tie %r rounded to odd %r" % (k, x[k], y[k])); break
        for k in range(n):
            if k not in sel and not (x[k] != x[k] and y[k] != y[k]) and y[k] != x[k]:
                key = "integers/ints=True/unselected-entries-truncated" if (asint and y[k] == math.trunc(x[k])) else "integers/frame"
                bad(key, "unselected entry %d changed from %r to %r" % (k, x[k], y[k])); break
        if not asint or all(isfin(v) for v in y):
            idem(extra["f"], "integers/idempotent")
    elif op in ("rounded", "precision"):
        sel = sel_mask(n, c["index"])
        d = c["digits"] or 0
        frame(sel, op + "/frame")
        for k in sel:
            if not isfin(x[k]) or abs(x[k]) > 1e12:
                continue
            if abs(y[k] - x[k]) > 0.5 * 10.0 ** (-d) * (1 + 1e-9) + 1e-300:
                bad(op + "/in-target", "entry %d: %r is farther than half a unit (digits=%d) from %r" % (k, y[k], d, x[k])); break
            if round(y[k], d) != y[k]:
                bad(op + "/on-grid", "entry %d: %r is not a %d-digit number" % (k, y[k], d)); break
            p10 = 10.0 ** abs(d)
            q = x[k] * p10 if d > 0 else (x[k] / p10 if d < 0 else x[k])     # the number numpy.round hands to rint
            if isfin(q) and q - math.floor(q) == 0.5:
                fl_ = math.floor(q)
                even = fl_ if fl_ % 2 == 0 else fl_ + 1.0
                want = even / p10 if d > 0 else (even * p10 if d < 0 else even)
                if y[k] != want:
                    bad(op + "/half-even", "entry %d: the tie %r (digits=%d) went to %r, the even neighbour is %r" % (k, x[k], d, y[k], want)); break
        idem(extra["f"], op + "/idempotent")
    elif op in ("bounds", "bounded"):
        if op == "bounds" and c["form"] != "plain":
            d = c["dict"]
            il = idx_list(c["index"])
            keys = [i for i in d if il is None or i in il]
            per = {}
            for i in keys:
                w = wrap(n, i)
                if w is not None:
                    per.setdefault(w, []).append((i, d[i]))
        else:
            ivs = c["ivs"]
            if not ivs:
                frame(set(), "impose_bounds/empty-bounds-frame"); return out
            il = idx_list(c["index"])
            per = {}
            if il is None:
                per = {k: [(k, ivs)] for k in range(n)}
            else:
                for i in il:
                    w = wrap(n, i)
                    if w is not None:
                        per.setdefault(w, []).append((i, ivs))
        name = "impose_bounds"
        mode = c.get("mode", "near")
        frame(set(per), name + "/frame")
        for k, ents in per.items():
            if len(ents) != 1 or x[k] != x[k]:
                continue
            i, ivs = ents[0]
            ivn = [(-INF if lo is None else lo, INF if hi is None else hi) for lo, hi in ivs]
            if any(lo > hi for lo, hi in ivn):
                continue                                     # malformed interval: nothing promised
            inside = lambda v: any(lo <= v <= hi for lo, hi in ivn)
            if inside(x[k]):
                if not same_float(y[k], x[k]):
                    bad(name + "/fix-conform", "entry %d = %r was inside the bounds but became %r" % (k, x[k], y[k])); break
                continue
            slack = 0 if mode in ("near", "pick") else 1e-12 * max(1.0, abs(y[k]))
            if not any(lo - slack <= y[k] <= hi + slack for lo, hi in ivn):
                key = name + "/negative-index-ignored" if (i < 0 and same_float(y[k], x[k])) else name + "/in-target"
                bad(key, "selected entry %d (index %d) = %r is outside %r" % (k, i, y[k], ivs)); break
            if mode in ("near", "pick") and not any(y[k] in (lo, hi) for lo, hi in ivn):
                bad(name + "/clip-at-end", "entry %d: %r clipped to %r which is not an interval end" % (k, x[k], y[k])); break
            if mode == "randnear" and isfin(x[k]):
                # nearest=True: the entry is re-drawn in an interval no other interval has a nearer end than (l.1240)
                lim = [(max(lo, -1e300), min(hi, 1e300)) for lo, hi in ivn]
                dist = lambda iv: min(abs(x[k] - iv[0]), abs(x[k] - iv[1]))
                dmin = min(dist(iv) for iv in lim)
                if not any(lo - slack <= y[k] <= hi + slack and dist((lo, hi)) == dmin for lo, hi in lim):
                    bad(name + "/nearest-interval", "entry %d: %r was re-drawn to %r, not inside an interval with the nearest end of %r" % (k, x[k], y[k], ivs)); break
        if op == "bounds":
            idem(extra["f"], name + "/idempotent")
    elif op == "unique":
        full = c["full"]
        seen = set()
        for k in range(n):
            first = x[k] not in seen
            seen.add(x[k])
            if first and y[k] != x[k]:
                bad("unique/frame", "first occurrence %d changed from %r to %r" % (k, x[k], y[k])); break
        if len(set(y)) != len(y):
            bad("unique/distinct", "result has repeated values (allowed values %r, as a %s)" % (full, c.get("form", "sorted")))
        if any(v not in full for v in y):
            bad("unique/in-target", "result has a value outside the allowed set %r" % (full,))
        if len(set(x)) == len(x) and not same_vec(y, x):
            bad("unique/fix-conform", "input of pairwise-distinct allowed values was changed")
        # twice = once: a second application (its own shuffle) returns the first result
        try:
            z = tolist(extra["g"](list(y)))
            if not same_vec(z, y):
                bad("unique/idempotent", "second application gives %r" % (z,))
        except Exception as e:
            bad("unique/idempotent", "second application raised %r" % (e,))
    elif op in ("sorting", "monotonic"):
        il = idx_list(c["index"])
        if il is None:
            sel = list(range(n))
        elif len(il) == 1 or n == 1:
            sel = []
        else:
            ws = [wrap(n, i) for i in il]
            if any(w is None for w in ws):
                # an out-of-range index: the pinned code raises IndexError; a tree that returns a value is compared by the
                # correspondence, here only the entries no index names are judged
                frame(set(w for w in ws if w is not None), op + "/frame")
                return out
            sel = sorted(set(ws))
            if len(sel) != len(il):
                return out                                   # duplicate index: malformed
        frame(set(sel), op + "/frame")
        xs = [x[k] for k in sel]; ys = [y[k] for k in sel]
        asc = c["asc"]
        good = all((a <= b) if asc else (a >= b) for a, b in zip(ys, ys[1:]))
        if not good:
            bad(op + "/in-target", "selected entries %r are not %s" % (ys, "ascending" if asc else "descending"))
        if op == "sorting" and sorted(xs) != sorted(ys):
            bad("sorting/permutation", "selected entries %r are not a rearrangement of %r" % (ys, xs))
        if op == "monotonic":
            run = None
            for a, b in zip(xs, ys):
                run = a if run is None else (max(run, a) if asc else min(run, a))
                if b != run:
                    bad("monotonic/running-extreme", "selected entries %r are not the running %s of %r" % (ys, "max" if asc else "min", xs)); break
        if all((a <= b) if asc else (a >= b) for a, b in zip(xs, xs[1:])) and not same_vec(canon0(y), canon0(x)):
            bad(op + "/fix-conform", "input already in order but changed")
        idem(extra["f"], op + "/idempotent")
    elif op == "at":
        idx = c["index"]
        kept = [i for i in idx if i < n]
        ws = [wrap(n, i) for i in kept]
        # an index below -len(x) names nothing: the pinned code raises IndexError (the result is then a raise, judged above); a
        # tree that returns a value there is compared by the correspondence, and every index that DOES name an entry
        # (-len(x) .. len(x)-1) is judged here
        below = any(w is None for w in ws)
        frame(set(w for w in ws if w is not None), "impose_at/frame")
        tg = [c["target"]] * len(kept) if "target" in c else (c["targets"] * len(kept) if len(c["targets"]) == 1 else c["targets"])
        if len(tg) == len(ws) and not (below and "targets" in c and len(c["targets"]) != 1):
            last = {}
            for r, w in enumerate(ws):
                if w is not None:
                    last[w] = tg[r]                          # a slot addressed twice keeps the LAST value listed for it
            for w, v in last.items():
                if not same_float(y[w], v):
                    key = "impose_at/in-target" if ws.count(w) == 1 else "impose_at/last-write-wins"
                    bad(key, "entry %d (addressed by %r of index=%r, len(x)=%d) is %r, target %r" % (w, [i for i in kept if wrap(n, i) == w], idx, n, y[w], v)); break
        idem(extra["f"], "impose_at/idempotent")
    elif op == "as":
        pairs = c["mask"]; off = c["offset"] or 0.0
        A = as_analysis(pairs, n)
        inr = [(wrap(n, i), wrap(n, j)) for i, j in pairs]
        touched = set()
        for g in true_components(pairs):
            touched |= set(wrap(n, a) for a in g)
        frame(touched - {None}, "impose_as/frame")
        # Judged whenever distinct index values address distinct entries and the mask has no directed cycle (then the code
        # returns).  The pair clause "x[j] is x[i] + offset" is judged on every mask for which the clauses of all pairs can
        # hold together: always when there is no offset (tied = equal, whatever the shape: shared trackers {(i,k),(j,k)},
        # shared partners, chains, diamonds, repeated pairs - the docstring's own example ties (0,1),(3,1)), and with an
        # offset when the index graph can be levelled (every pair leads from one level to the next).
        wellformed = not A["aliased"] and not A["dcyclic"]
        L = A["depth"]

        def mech_pair(i, j):
            """the recorded mechanism that explains a failing pair, decided on the MASK and on transcriptions of the unchanged
            tree (ref_connected, the offset rounds), never on the tree under test"""
            grp = A["groups"]
            where = lambda a: [k for k, v in grp.items() if a == k or a in v]
            if not (set(where(i)) & set(where(j))) or len(where(i)) > 1 or len(where(j)) > 1:
                return "impose_as/pair-not-tied/components-not-merged"
            if any(wrap(n, k) is None for k in set(where(i)) | set(where(j))):
                return "impose_as/pair-not-tied/out-of-range-member"       # the group's key is out of range: nothing is tied
            if off != 0.0 and L[j] != L[i] + 1:
                return "impose_as/pair-not-offset/shared-tracker-partners-at-unequal-depth"
            return None
        if wellformed and (off == 0.0 or A["satisfiable"]):
            for (i, j), (wi, wj) in zip(pairs, inr):
                if wi is None or wj is None or y[wi] != y[wi]:
                    continue
                if not (isfin(y[wi]) and isfin(y[wj])):
                    continue
                if not (same_float(y[wj], y[wi] + off) or y[wj] == y[wi] + off):
                    key = mech_pair(i, j)
                    if key and key.endswith("unequal-depth"):
                        # inside the recorded class the tracker still sits a whole number of offsets above its partner: one per
                        # round of the offset loop in which it is a tracker and the partner is not
                        v = y[wi]
                        for _ in range(max(0, L[j] - L[i])):
                            v = v + off
                        if L[j] < L[i] or not (same_float(y[wj], v) or y[wj] == v):
                            key = None
                    bad(key or ("impose_as/pair-not-tied/other" if off == 0.0 else "impose_as/pair-not-offset/other"), "pair (%d,%d): x[%d]=%r is not x[%d]=%r + %r (mask %r)" % (i, j, j, y[wj], i, y[wi], off, pairs)); break
        if wellformed:
            mech = None
            if off != 0.0 and A["key_is_tracker"]:
                mech = "impose_as/not-idempotent/offset/group-key-is-a-tracker"
            elif off != 0.0 and A["key_out_of_range"]:
                mech = "impose_as/not-idempotent/offset/group-key-out-of-range"
            idem(extra["f"], mech or "impose_as/idempotent")
        # an input in which every pair already holds EXACTLY (checked in rational arithmetic: no rounding anywhere on the
        # way) and every index is in range is returned as it is
        if wellformed and pairs and all(w is not None for p in inr for w in p) and all(isfin(x[w]) for p in inr for w in p):
            from fractions import Fraction as Fr
            if all(Fr(x[wj]) == Fr(x[wi]) + Fr(off) for wi, wj in inr):
                if not same_vec(canon0(y), canon0(x)):
                    key = None
                    for i, j in pairs:
                        k = mech_pair(i, j)
                        if k and not k.endswith("out-of-range-member"):
                            key = k; break
                    if key is None and off != 0.0 and A["key_is_tracker"]:
                        key = "impose_as/not-idempotent/offset/group-key-is-a-tracker"
                    bad(key or "impose_as/fix-conform", "every pair of the mask %r already holds (offset %r) but the input was changed" % (pairs, off))
    elif op == "partial":
        m = c["mask"]
        ws = {}
        for i, v in m.items():
            w = wrap(n, i)
            if w is not None:
                ws.setdefault(w, []).append(v)
        frame(set(ws), "partial/frame")
        for w, vs in ws.items():
            if len(vs) == 1 and not same_float(y[w], vs[0]):
                bad("partial/in-target", "entry %d is %r, fixed value %r" % (w, y[w], vs[0])); break
        idem(extra["f"], "partial/idempotent")
    elif op == "sync":
        m = c["mask"]
        tgt = {}
        for i, j in m.items():
            w = wrap(n, i)
            j0 = j[0] if isinstance(j, tuple) else j
            s = wrap(n, j0)
            if w is not None and s is not None:
                tgt.setdefault(w, []).append((s, j[1] if isinstance(j, tuple) else None))
        frame(set(tgt), "synchronized/frame")
        # theorem synchronized_tied: when no tracked index addresses a slot that a key addresses (the docstring's "keys and
        # values should be different"), every addressed entry holds what the LAST mask entry for its slot reads from the
        # ORIGINAL input; an entry whose key or tracked index is out of range is skipped
        keyslots = set(wrap(n, i) for i in m) - {None}
        srcslots = set(wrap(n, j[0] if isinstance(j, tuple) else j) for j in m.values()) - {None}
        if not (keyslots & srcslots):
            exp = list(x); lastform = {}
            for i, j in m.items():
                w = wrap(n, i)
                j0, sc = (j[0], j[1]) if isinstance(j, tuple) else (j, None)
                s_ = wrap(n, j0)
                if w is None or s_ is None:
                    continue
                exp[w] = x[s_] if sc is None else sc * x[s_]
                lastform[w] = sc
            for w in sorted(lastform):
                if not (same_float(y[w], exp[w]) or y[w] == exp[w]):
                    sc = lastform[w]
                    key = "synchronized/scaled-entry-ignored/ndarray-input" if (sc is not None and c["kind"] == "array") else "synchronized/in-target"
                    bad(key, "entry %d is %r, tracked value %r" % (w, y[w], exp[w])); break
            idem(extra["f"], "synchronized/idempotent")
    elif op == "clipped":
        lo = -INF if c["lo"] is None else c["lo"]; hi = INF if c["hi"] is None else c["hi"]
        if lo <= hi:
            for k in range(n):
                if x[k] != x[k]:
                    continue
                if not (lo <= y[k] <= hi):
                    bad("clipped/in-target", "entry %d = %r outside [%r, %r]" % (k, y[k], lo, hi)); break
                if lo <= x[k] <= hi and y[k] != x[k]:
                    bad("clipped/fix-conform", "entry %d = %r was inside but became %r" % (k, x[k], y[k])); break
                if not (lo <= x[k] <= hi) and y[k] not in (lo, hi):
                    bad("clipped/clip-at-end", "entry %d: %r clipped to %r" % (k, x[k], y[k])); break
            idem(extra["f"], "clipped/idempotent")
    elif op == "suppress":
        tol = c["tol"]
        for k in range(n):
            if x[k] != x[k]:
                continue
            if abs(x[k]) < tol and y[k] != 0.0:
                bad("suppressed/in-target", "entry %d = %r is below tol=%r but became %r" % (k, x[k], tol, y[k])); break
            if c["clip"] and not abs(x[k]) < tol and not same_float(y[k], x[k]):
                bad("suppressed/frame", "entry %d = %r is not below tol=%r but became %r" % (k, x[k], tol, y[k])); break
        if not c["clip"] and n and any(not abs(v) < tol for v in x) and all(isfin(v) for v in x):
            if not close(sum(y), sum(x), 1e-9, 1e-12):
                bad("suppressed/sum-preserved", "clip=False changed the sum from %r to %r" % (sum(x), sum(y)))
        if c["clip"]:
            idem(extra["f"], "suppressed/idempotent")
    elif op == "masked":
        m = c["mask"]
        if not all(0 <= k <= n + len(m) - 1 for k in m):
            bad("masked/keyerror-guard", "a key outside [0, %d] was accepted" % (n + len(m) - 1)); return out
        if len(y) != n + len(m):
            bad("masked/length", "result length %d, expected %d" % (len(y), n + len(m))); return out
        for k, v in m.items():
            if not same_float(y[k], v):
                bad("masked/in-target", "position %d is %r, inserted value %r" % (k, y[k], v)); return out
        rest = [y[k] for k in range(len(y)) if k not in m]
        if not same_vec(rest, x):
            bad("masked/frame", "the other positions %r are not the input" % (rest,))
    elif op == "mean":
        if n and all(isfin(v) for v in y):
            if not close(sum(y) / n, c["target"]):
                bad("with_mean/in-target", "mean is %r, target %r" % (sum(y) / n, c["target"]))
            idem(extra["f"], "with_mean/idempotent", exact=False)    # field-true; rounding is outside the property (DESIGN 3)
    elif op == "spread":
        t = c["target"]
        if n > 1 and max(x) != min(x) and all(isfin(v) for v in y):
            # a spread is never negative: for a negative target the code delivers |target| (theorem withSpread_in_target)
            if not close(max(y) - min(y), abs(t)):
                bad("with_spread/in-target" if t >= 0 else "with_spread/negative-target", "spread is %r, target %r" % (max(y) - min(y), t))
            mu, mu0 = sum(y) / n, sum(x) / n
            if not close(mu, mu0, 1e-6, 1e-7):
                bad("with_spread/mean-preserved", "mean moved from %r to %r" % (mu0, mu))
            if t > 1e-6:
                idem(extra["f"], "with_spread/idempotent", exact=False)    # field-true; rounding is outside the property (DESIGN 3)
        elif n >= 1 and max(x) == min(x) and isfin(x[0]):
            # degenerate: a constant vector (length one included) has spread 0 - returned as it is for target 0, else
            # the spread cannot be produced by scaling and the code answers with NaN (never with finite numbers)
            if abs(t) <= 1e-18:
                if not same_vec(y, x):
                    bad("with_spread/fix-conform", "constant input, target 0, but the vector changed")
            elif any(isfin(v) for v in y):
                bad("with_spread/constant-input", "constant input cannot get spread %r, yet finite numbers came back" % (t,))
    elif op == "norm":
        s = sum(x)
        if n and abs(s) > 1e-6 * sum(abs(v) for v in x) and all(isfin(v) for v in y):
            if not close(sum(y), c["target"]):
                bad("normalized/in-target", "sum is %r, target %r" % (sum(y), c["target"]))
            if abs(c["target"]) > 1e-6:
                idem(extra["f"], "normalized/idempotent", exact=False)    # field-true; rounding is outside the property (DESIGN 3)
    elif op == "var":
        t = extra.get("v", c["target"])
        if n > 1 and max(x) != min(x) and t < 0:
            if any(isfin(v) for v in y):                     # a negative variance cannot be met: sqrt gives NaN
                bad("with_variance/negative-target", "negative target %r, yet finite numbers came back" % (t,))
        elif n > 1 and all(isfin(v) for v in y) and max(x) != min(x):
            mu = sum(y) / n
            var = sum((v - mu) ** 2 for v in y) / n
            if not close(var, t, 1e-6, 1e-9):
                bad("with_variance/in-target", "variance is %r, target %r" % (var, t))
            mu0 = sum(x) / n
            if not close(mu, mu0, 1e-6, 1e-7):
                bad("with_variance/mean-preserved", "mean moved from %r to %r" % (mu0, mu))
            if t > 1e-6:
                idem(extra["f"], "with_variance/idempotent", exact=False)
        elif n >= 1 and c.get("exact") and max(x) == min(x) and isfin(x[0]):
            # degenerate (exactness regime: the variance of a constant dyadic vector is exactly 0): target 0 returns the
            # vector, any other target cannot be produced by scaling and the code answers with NaN
            if t == 0:
                if not same_vec(y, x):
                    bad("with_variance/fix-conform", "constant input, target 0, but the vector changed")
            elif any(isfin(v) for v in y):
                bad("with_variance/constant-input", "constant input cannot get variance %r, yet finite numbers came back" % (t,))
    return out


# ------------------------------------------------------------------ aliasing monitor (storage, stale state)
def rewrites_its_argument(c):
    """the decorators whose documented job is to rewrite the buffer they are handed: tools.partial / tools.synchronized
    assign into `x` and pass it on; sorting / monotonic with outer=True and an index rewrite the OUTPUT of the decorated
    function in place (with the identity that is the argument)"""
    op = c["op"]
    if op in ("partial", "sync"):
        return True
    return op in ("sorting", "monotonic") and c.get("outer") and c.get("index") is not None


def alias_monitor(c, res, extra):
    """call the decorated identity twice on the SAME buffer, refilled in between:
      argument-modified      - the caller's argument is bit-for-bit what it was before the call;
      result-shares-storage  - editing the argument afterwards does not change the earlier result;
      earlier-result-changed - neither does a second call;
      stale-state            - the second call returns what a call on a fresh buffer with the same values returns.
    Decorators that rewrite their argument by design are exempt from the first three, a result that IS the argument
    object is accepted only from the statistics decorators when nothing had to be done (their guard returns `x`)."""
    import numpy as np
    out = []
    f = extra.get("g") or extra.get("f")
    op = c["op"]; x = c["x"]
    if f is None or isinstance(res, tuple) or c["kind"] not in ("list", "array") or not x:
        return out, None
    mk = (lambda v: np.array(v, dtype=float)) if c["kind"] == "array" else (lambda v: list(v))
    buf = mk(x)
    try:
        y1 = f(buf)
    except Exception:
        return out, None
    name = {"bounds": "impose_bounds", "at": "impose_at", "as": "impose_as", "sync": "synchronized", "suppress": "suppressed",
            "mean": "with_mean", "spread": "with_spread", "norm": "normalized", "var": "with_variance"}.get(op, op)
    exempt = rewrites_its_argument(c)
    same_obj = y1 is buf
    if not exempt and not same_vec(tolist(buf), x):
        out.append((name + "/alias/argument-modified", "the caller's argument %r was changed to %r by the call" % (x, tolist(buf))))
        return out, "mutated"
    snap1 = tolist(y1)
    x2 = list(reversed(x)) if op == "unique" else [v + 1.0 if isfin(v) else v for v in reversed(x)]
    for i in range(len(x2)):
        buf[i] = x2[i]
    if exempt:
        return out, "exempt"
    if same_obj:
        if op in ("mean", "spread", "norm", "var") and same_vec(snap1, x):
            return out, "returned-argument"                  # the guard hands back what the decorated identity returned
        if op == "bounds" and not spec_entries(c) and same_vec(snap1, x):
            return out, "returned-argument"                  # no bound left after filtering by index: the identity gets `x`
        out.append((name + "/alias/result-shares-storage", "the result IS the argument object (input %r)" % (x,)))
        return out, "aliased"
    if not same_vec(tolist(y1), snap1):
        out.append((name + "/alias/result-shares-storage", "the result %r changed to %r when the argument was edited afterwards" % (snap1, tolist(y1))))
        return out, "aliased"
    try:
        y2 = tolist(f(buf))
        # the reference comes from a decorator built anew from the configuration: state kept between the calls of one
        # decorated function (or in the decorator's closure) cannot reach it
        fresh = tolist(f(mk(x2)) if extra.get("g") else build_dec(c, {})(ident)(mk(x2)))
    except Exception:
        return out, "second-call-raises"
    if not same_vec(tolist(y1), snap1):
        out.append((name + "/alias/earlier-result-changed", "the first result %r changed to %r during a second call" % (snap1, tolist(y1))))
    elif not same_vec(y2, fresh):
        out.append((name + "/alias/stale-state", "second call on the refilled buffer %r gave %r, a fresh call %r" % (x2, y2, fresh)))
    return out, "checked"


def nontrivial(c, res):
    """non-triviality rule: the transform changed its input, or raised, or (fix-conform cases) had a selection
    with at least one entry and left it alone"""
    if isinstance(res, tuple):
        return True
    return len(c["x"]) > 0 and (len(res) != len(c["x"]) or not same_vec(res, c["x"]))


def clause_tags(c, res):
    """which of the newly proved clauses this case actually exercises (coverage of the tie / degenerate / list paths)"""
    tags = []
    op = c["op"]; x = c["x"]; n = len(x)
    ok = not isinstance(res, tuple)
    if op == "discrete" and ok:
        s = c["samples"]
        sel = sel_mask(n, c["index"])
        if any(isfin(x[k]) and len(set(v for v in s if abs(v - x[k]) == min(abs(w - x[k]) for w in s))) > 1 for k in sel if s):
            tags.append("discrete-tie")
    elif op == "integers" and ok:
        if any(isfin(x[k]) and x[k] - math.floor(x[k]) == 0.5 for k in sel_mask(n, c["index"])):
            tags.append("integers-tie")
    elif op in ("rounded", "precision") and ok:
        d = c["digits"] or 0
        p10 = 10.0 ** abs(d)
        for k in sel_mask(n, c["index"]):
            q = x[k] * p10 if d > 0 else (x[k] / p10 if d < 0 else x[k])
            if isfin(q) and abs(q) < 1e15 and q - math.floor(q) == 0.5:
                tags.append("rounded-tie:digits%s" % ("+" if d > 0 else ("-" if d < 0 else "0"))); break
    elif op == "at":
        if "targets" in c:
            kept = [i for i in c["index"] if i < n]
            ws = [wrap(n, i) for i in kept]
            tags.append("at-list:" + ("raises" if not ok else ("repeated-slot" if len(set(ws)) != len(ws) else
                                                               ("broadcast" if len(c["targets"]) == 1 and len(kept) != 1 else "one-per-index"))))
    elif op == "as":
        pairs = c["mask"]; off = c["offset"] or 0.0
        A = as_analysis(pairs, n)
        tr = [j for _, j in dict.fromkeys(pairs)]; pa = [i for i, _ in dict.fromkeys(pairs)]
        ft = []
        if len(set(tr)) < len(tr):
            ft.append("shared-tracker")
        if len(set(pa)) < len(pa):
            ft.append("shared-partner")
        if set(tr) & set(pa):
            ft.append("chain")
        if len(set(pairs)) < len(pairs):
            ft.append("repeated-pair")
        if len(dict.fromkeys(pairs)) > len(acyclic(list(dict.fromkeys(pairs)))) and not A["dcyclic"]:
            ft.append("undirected-cycle")
        if any(wrap(n, a) is None for a in A["nodes"]):
            ft.append("out-of-range")
        if any(a < 0 and wrap(n, a) is not None for a in A["nodes"]):
            ft.append("negative")
        if A["aliased"]:
            ft.append("aliased(not judged)")
        sign = "offset0" if off == 0.0 else ("offset+" if off > 0 else "offset-")
        for t in ft or ["plain"]:
            tags.append("as:%s:%s" % (t, sign))
        if off != 0.0 and not A["aliased"] and not A["dcyclic"] and pairs:
            tags.append("as:pair-clause:" + ("levelled" if A["levelled"] else ("unequal-depth" if A["satisfiable"] else "no-assignment(not judged)")))
        if ok and pairs and not A["aliased"] and all(wrap(n, a) is not None and isfin(x[wrap(n, a)]) for a in A["nodes"]):
            from fractions import Fraction as Fr
            if all(Fr(x[wrap(n, j)]) == Fr(x[wrap(n, i)]) + Fr(off) for i, j in pairs):
                tags.append("as:conforming-input:" + sign + (":second-application" if c.get("second") else ""))
    elif op == "masked":
        m = c["mask"]
        ks = list(m)
        tags.append("masked:" + ("keyerror" if not ok else ("empty" if not ks else ("sorted-listing" if ks == sorted(ks) else "unsorted-listing"))))
        if ok and ks and max(ks) == n + len(m) - 1:
            tags.append("masked:largest-admissible-key")
    elif op == "sync" and ok:
        m = c["mask"]
        keyslots = set(wrap(n, i) for i in m) - {None}
        srcslots = set(wrap(n, j[0] if isinstance(j, tuple) else j) for j in m.values()) - {None}
        if keyslots:
            tags.append("sync:" + ("keys-and-tracked-disjoint" if not (keyslots & srcslots) else "order-dependent-mask"))
            if len(keyslots) < len([i for i in m if wrap(n, i) is not None]):
                tags.append("sync:slot-addressed-twice")
    elif op == "spread" and ok and n:
        t = c["target"]
        tags.append("spread:" + ("constant" if max(x) == min(x) else ("negative-target" if t < 0 else ("target-0" if t == 0 else "regular"))))
    elif op == "var" and ok and n:
        t = c["target"]
        tags.append(("std:" if c.get("std") else "var:") + ("constant" if max(x) == min(x) else ("negative-target" if t < 0 else ("target-0" if t == 0 else ("negative-std" if c.get("sneg") else "regular")))))
    elif op in ("sorting", "monotonic") and ok:
        il = idx_list(c["index"])
        if il is not None and len(il) > 1 and n > 1:
            tags.append(op + "-selected-subsequence")
    elif op == "unique":
        r_ = n - len(set(x))
        tags.append("unique:%s:%s:%s" % (c.get("form"), c["via"], "raises" if not ok else ("replaced-" + ("0" if r_ == 0 else ("1" if r_ == 1 else "2+")))))
    elif op == "bounded" and ok:
        moved = sum(1 for a, b in zip(x, res) if not same_float(a, b))
        tags.append("bounded:%s:%s" % (c["mode"], "redrawn" if moved else "untouched"))
    # boundary addresses: which index-taking transform saw -len(x) (the first entry named from the end), len(x)-1, and the
    # first values outside (len(x), -len(x)-1)
    vals = index_values(c)
    if vals and n:
        for v, name in ((-n, "-len"), (n - 1, "len-1"), (-1, "-1"), (n, "len"), (-n - 1, "-len-1")):
            if v in vals:
                tags.append("bidx:%s:%s:%s" % (op, name, "returns" if ok else "raises"))
    return tags


def index_values(c):
    """every integer the configuration uses as an address into x"""
    op = c["op"]
    if op in ("discrete", "integers", "rounded", "precision", "bounded", "sorting", "monotonic"):
        return idx_list(c["index"]) or []
    if op == "bounds":
        return (idx_list(c["index"]) or []) + (list(c["dict"]) if c["form"] != "plain" else [])
    if op == "at":
        return list(c["index"])
    if op == "partial":
        return list(c["mask"])
    if op == "sync":
        return list(c["mask"]) + [j[0] if isinstance(j, tuple) else j for j in c["mask"].values()]
    if op == "as":
        return [a for p in c["mask"] for a in p]
    return []


# ------------------------------------------------------------------ shard
def run_cases(cases_rng):
    """cases_rng: list of (case dict or None, rng).  returns (records, lines)"""
    recs = []; lines = []
    for c, rng in cases_rng:
        res, extra = run_impl(c, rng)
        line = request_line(c, extra)
        recs.append((c, res, extra)); lines.append(line)
        if c["op"] == "as" and not c.get("second") and not isinstance(res, tuple) and res:
            # the SECOND application is a case of its own (input = the first result, same container kind): the model is
            # compared on it and every clause is judged on it as well
            c2 = {k: v for k, v in c.items() if not k.startswith("_")}
            c2.update(x=list(res), second=True, kinds=(c["kind"],), xin=None, kind=None)
            res2, extra2 = run_impl(c2, _random.Random(1))
            recs.append((c2, res2, extra2)); lines.append(request_line(c2, extra2))
    replies = leandrv.run_driver(lines)
    return recs, lines, replies


def describe(c, res, line, rep, extra):
    d = {k: v for k, v in c.items() if k not in ("xin", "kinds") and not k.startswith("_")}
    d["request"] = line
    d["impl"] = res
    d["model"] = rep
    for k in ("picks", "draws", "new"):
        if k in extra:
            d[k] = extra[k]
    return d


def judge(recs, lines, replies, findings, hist, samples):
    nontriv = 0
    for (c, res, extra), line, rep in zip(recs, lines, replies):
        op = c["op"]
        case = describe(c, res, line, rep, extra)
        div, stream = compare(c, res, rep)
        if div:
            findings.append(Finding("correspondence", "%s/diverges" % op, div, case))
        try:
            mon = monitor(c, res, extra)
        except Exception:
            # the result has a shape the monitor's reading of the configuration does not expect: a broken correspondence
            import traceback
            mon = []
            findings.append(Finding("correspondence", "%s/monitor-cannot-judge" % op, "the monitor raised on the implementation's result %r: %s"
                                    % (res, traceback.format_exc(limit=3)), case))
        for key, what in mon:
            findings.append(Finding("monitor", key, what, case))
        try:
            afind, atag = alias_monitor(c, res, extra)
        except Exception:
            import traceback
            afind, atag = [], "monitor-raised"
            findings.append(Finding("correspondence", "%s/alias-monitor-cannot-judge" % op, "the aliasing monitor raised: %s" % traceback.format_exc(limit=3), case))
        for key, what in afind:
            findings.append(Finding("monitor", key, what, case))
        if atag:
            hist["alias:%s:%s" % (op, atag)] = hist.get("alias:%s:%s" % (op, atag), 0) + 1
        for tag in clause_tags(c, res):
            hist["clause:" + tag] = hist.get("clause:" + tag, 0) + 1
        nt = nontrivial(c, res)
        nontriv += nt
        tag = "%s:%s:%s:%s" % (op, c["kind"], c.get("itag", c.get("mode", c.get("form", "-"))),
                               ("raises-" + res[1]) if isinstance(res, tuple) else ("changed" if nt else "unchanged"))
        hist[tag] = hist.get(tag, 0) + 1
        hist["stream:" + stream] = hist.get("stream:" + stream, 0) + 1
        if len(samples) < 2 and nt and not isinstance(res, tuple):
            samples.append(case)
    return nontriv


def run_shard(pid, seed, shard, ncases, tier, extra):
    common.import_mystic()
    import warnings, numpy as np
    warnings.simplefilter("ignore")
    np.seterr(all="ignore")
    cr = []
    for k in range(ncases):
        rng = case_rng(PID, seed, shard, k)
        cr.append((gen_case(rng), rng))
    recs, lines, replies = run_cases(cr)
    findings = []; hist = {}; samples = []
    nt = judge(recs, lines, replies, findings, hist, samples)
    return {"evaluations": len(recs), "nontrivial": nt, "model_lines": len(lines), "findings": findings,
            "samples": samples, "hist": hist}


# ------------------------------------------------------------------ known-finding witnesses (run first)
WITNESSES = [
    {"op": "integers", "ints": "True", "x": [0.6, 1.6, 2.5], "index": (0, -1), "itag": "negative", "kinds": ("list",)},
    {"op": "bounds", "form": "plain", "ivs": [(0.0, 5.0)], "ivtag": "one", "index": (-1,), "itag": "negative",
     "x": [0.125, 1.25, -4.75, 10.75, 6.25], "kinds": ("list",)},
    {"op": "at", "index": [1, 3, 4, 5, 7], "targets": [0.0, 2.0, 4.0, 6.0, 8.0], "x": [1.0, 1.0, 1.0, 1.0], "kinds": ("list",)},
    {"op": "as", "mask": [(2, 3), (0, 1), (1, 2)], "offset": None, "shape": "witness", "x": [0.0, 1.0, 2.0, 3.0], "kinds": ("list",)},
    {"op": "sync", "mask": {0: (1, 2.0)}, "x": [1.0, 2.0, 3.0], "kinds": ("array",)},
    {"op": "as", "mask": [(3, 4), (2, 3), (0, 2)], "offset": None, "shape": "witness", "x": [0.0, 1.0, 2.0], "kinds": ("list",)},
    {"op": "as", "mask": [(0, 1), (1, 0)], "offset": None, "shape": "witness", "x": [1.0, 2.0], "kinds": ("list",), "alarm": 0.5},
    # C16-K1: the chain 0 -> 1 -> 2 listed tracker-first; the conforming input [0,10,20] moves by one offset per application
    {"op": "as", "mask": [(1, 2), (0, 1)], "offset": 10.0, "shape": "witness", "x": [0.0, 10.0, 20.0], "kinds": ("list",)},
    # C16-K2: tracker 2 shared by partner 1 (itself a tracker) and partner 3 (tracks nothing)
    {"op": "as", "mask": [(0, 1), (1, 2), (3, 2)], "offset": 10.0, "shape": "witness", "x": [1.0, 2.0, 3.0, 4.0], "kinds": ("list",)},
    # C16-K3: the partner of the only pair is out of range; the tracker still receives the offset, once per application
    {"op": "as", "mask": [(5, 1)], "offset": 10.0, "shape": "witness", "x": [1.0, 2.0, 3.0], "kinds": ("list",)},
]


def witnesses():
    common.import_mystic()
    import warnings, numpy as np
    warnings.simplefilter("ignore"); np.seterr(all="ignore")
    cr = [(dict(w, xin=None, kind=None), _random.Random(0)) for w in WITNESSES]
    recs, lines, replies = run_cases(cr)
    findings = []; hist = {}; samples = []
    judge(recs, lines, replies, findings, hist, samples)
    return findings


def main(tier, seed):
    t0 = time.time()
    proof = framework.proof_stage(PID, MODULE, THEOREMS, tier)
    nshards, per = (16, 1500) if tier == "quick" else (64, 25000)
    run = framework.run_shards("c16", "run_shard", PID, seed, nshards, per, tier)
    run["findings"] = witnesses() + run["findings"]

    def search_more():
        r = framework.run_shards("c16", "run_shard", PID, seed + 7919, 32, 3000, tier)
        return r["findings"]
    rule = ("cases: decorator(...)(identity)(x) for discrete / integers / rounded / precision / impose_bounds (tuple, list of "
            "intervals, dict, dict+index) / bounded (clip x nearest, draws recorded) / unique / impose_unique / sorting / monotonic "
            "(inner, outer) / impose_at / impose_as / partial / synchronized / clipped / suppressed / masked / with_mean / "
            "with_spread / normalized / with_variance / with_std; x a list, ndarray or tuple of length 0-12 built from integers, "
            "half-integers (ties), dyadics, values on / one ulp beside / midway between the bounds and samples, +-0, +-inf, NaN; "
            "index = None / single / tuple / negative / out-of-range / duplicate / empty; impose_as masks: forests, chains, several partners of one "
            "tracker (equal and unequal depth), one partner of several trackers, levelled DAGs with diamonds, random DAGs, the docstring's mask, "
            "repeated pairs, any listing order, offset None / 0 / positive / negative, inputs in which every pair already holds, and the second "
            "application of every impose_as case as a case of its own.  non-trivial = the transform changed "
            "the input or raised; the histogram lists op:container:index-kind:outcome, clause:<tag> = cases that exercise a tie / "
            "degenerate / list-target / unsorted-mask / selected-subsequence / re-draw path, alias:<op>:<outcome> = aliasing monitor "
            "(checked | exempt: rewrites its buffer by design | returned-argument: the decorated identity's own return)")
    tb = ["Lean 4.33 kernel + the single Mathlib modules imported by Props/C16; axioms per theorem under coverage.theorems",
          "hand-written model Model/Transforms.lean tied to mystic.constraints / mystic.tools / measures by this bit-exact differential run only",
          "numpy.round(x, d) is modelled as rint(x*10^d)/10^d, numpy.sum as 8-accumulator pairwise summation, numpy.clip as min(max(x,lo),hi), "
          "maximum.accumulate as a left fold: all four validated only through this run",
          "with_mean / with_spread / with_variance sum in an order the model does not replicate (python compensated sum): exact on the dyadic stream, "
          "relative 1e-9 on the general stream (counted under histogram stream:toleranced)",
          "rint results are compared up to the sign of a zero; None bounds travel as NaN and are converted by the driver as bounded() does",
          "aliasing / storage sharing / state carried between calls are heap properties outside the list model: judged by the aliasing monitor only "
          "(same buffer called twice and refilled in between, reference = a decorator built anew from the configuration)"]
    assumptions = ["the decorated function is the identity (the anchors' observation point); inner/outer placement is exercised through sorting/monotonic/clipped/suppressed only",
                   "theorems are over a linearly ordered field / linear order: no NaN, no rounding; `floor` and the summation are parameters with their defining laws as hypotheses",
                   "impose_as masks have no DIRECTED cycle (such a mask never terminates in the code: recorded finding, witness only); shared trackers, shared "
                   "partners, chains, diamonds, repeated pairs, negative and out-of-range members, offsets of both signs are generated and judged "
                   "(pair clause x[j] = x[i] + offset on every pair whenever the clauses of all pairs can hold together, frame, idempotence through a "
                   "second application that is itself compared with the model, conforming input returned as it is); two index values that address "
                   "one entry are malformed and only compared, not judged",
                   "IEEE binary64 + - * / floor sqrt and comparisons agree between Lean Float and CPython/numpy"]
    return framework.finish(PID, tier, seed, t0, proof, run, rule, tb, assumptions, search_more=search_more)


def replay(path):
    """re-execute one stored case on the implementation and the model, reprint the verdict"""
    common.import_mystic()
    import warnings, numpy as np
    warnings.simplefilter("ignore"); np.seterr(all="ignore")
    data = json.load(open(path))
    case = data["case"]
    c = {k: v for k, v in case.items() if k not in ("request", "impl", "model", "picks", "draws", "new", "shuffled")}
    unj = lambda o: (float(o["float"]) if isinstance(o, dict) and "float" in o else ([unj(v) for v in o] if isinstance(o, list) else o))
    for k in ("x", "samples", "full", "targets", "ivs"):
        if k in c:
            c[k] = unj(c[k])
    for k in ("target", "tol", "lo", "hi", "offset"):
        if k in c:
            c[k] = unj(c[k])
    if "ivs" in c:
        c["ivs"] = [tuple(iv) for iv in c["ivs"]]
    if "dict" in c:
        c["dict"] = {int(k): [tuple(unj(iv)) for iv in v] for k, v in c["dict"].items()}
    if "mask" in c:
        if isinstance(c["mask"], dict):
            c["mask"] = {int(k): (tuple(unj(v)) if isinstance(v, list) else unj(v)) for k, v in c["mask"].items()}
        else:
            c["mask"] = [tuple(p) for p in c["mask"]]
    if isinstance(c.get("index"), list) and c["op"] != "at":
        c["index"] = tuple(c["index"])
    c["kinds"] = (c.get("kind") or "list",)
    # the recorded draws are replayed in order
    if c["op"] == "bounded":
        c["_picks"] = [int(p) for p in case.get("picks", [])]
        c["_draws"] = [list(unj(d)) for d in case.get("draws", [])]
    if c["op"] == "unique":
        c["_new"] = list(unj(case.get("new", [])))
    rng = _random.Random(0)
    recs, lines, replies = run_cases([(c, rng)])
    findings = []; hist = {}
    judge(recs, lines, replies, findings, hist, [])
    known = {e["class_key"] for e in framework.load_known(PID)}
    rc = 0
    print("replay %s: implementation -> %r ; model -> %s" % (path, recs[0][1], replies[0]))
    for f in findings:
        if f["kind"] == "monitor" and f["class_key"] in known:
            print("KNOWN-FINDING: property=%s %s [%s]" % (PID, f["what"], f["class_key"]))
        else:
            print("VIOLATION property=%s replay=%s" % (PID, path)); rc = 1
            print("  %s: %s" % (f["class_key"], f["what"]))
    if not findings:
        print("no violation on this case")
    return rc
