"""C12 - symbolic rewriting preserves the solution set (verified validator, DESIGN.md section 5).

Per case: generate a constraint text in the property's class, call the REAL simplify(all=True) / solve /
linear_symbolic / symbolic_bounds, parse input and returned text into exact rational linear forms (untrusted
translator, validated on every case against an independent exact interpreter of the text), and ask the Lean
validator (proved sound for all systems in Props/C12.lean, run at Rat) whether both denote the same set.
Independently (the MONITOR) input text and returned text are evaluated by the interpreter at random, boundary,
just-off-boundary and zero-divisor points; a point where they differ is a failing input of the property.
Also compared with their literal Lean models: merge (both tables), _flip, comparator.
"""
import sys, time, json, math, re, io, contextlib
from fractions import Fraction as Fr
import common
from common import case_rng, parse_reply
import framework, leandrv
from framework import Finding
import c12_util as U
import c12x as X
import c12s as S3

PID = "C12"
MODULE = "MysticVerif.Props.C12"
THEOREMS = [
    "MysticVerif.C12.isolate_sound",
    "MysticVerif.C12.isolate_noflip_wrong",
    "MysticVerif.C12.flip_eq_ne",
    "MysticVerif.C12.signcase_sound_general",
    "MysticVerif.C12.signcase_sound",
    "MysticVerif.C12.canonLine_sound",
    "MysticVerif.C12.canonSys_sound",
    "MysticVerif.C12.simplify_validator_sound",
    "MysticVerif.C12.simplify_validator_sound_linear",
    "MysticVerif.C12.cert_sound",
    "MysticVerif.C12.solve_validator_sound",
    "MysticVerif.C12.matrix_rows_spec",
    "MysticVerif.C12.matrix_text_sound",
    "MysticVerif.C12.bounds_rows_spec",
    "MysticVerif.C12.bounds_text_sound",
    "MysticVerif.C12.merge_exclusive_sound",
    "MysticVerif.C12.merge_exclusive_none",
    "MysticVerif.C12.merge_inclusive_partial",
    "MysticVerif.C12.merge_inclusive_drops_witness",
    "MysticVerif.C12.merge_inclusive_ne_witness",
    "MysticVerif.C12.abs_expand_sound",
    "MysticVerif.C12.absK_spec",
    "MysticVerif.C12.signcase_product_sound",
    "MysticVerif.C12.simplify_validator_sound_ext",
    "MysticVerif.C12.simplify_validator_sound_abs",
    "MysticVerif.C12.flip_neg_factor_sound",
    "MysticVerif.C12.flip_pos_factor_sound",
    "MysticVerif.C12.flipB_complement",
    "MysticVerif.C12.comparator_single_token",
    "MysticVerif.C12.comparator_priority_witness",
    "MysticVerif.C12.equals_spec",
    "MysticVerif.C12.testpoint_decides_flip",
    "MysticVerif.C12.testpoint_on_boundary_witness",
    "MysticVerif.C12.merge_exclusive_none_iff_partial_witness",
    "MysticVerif.C12.simplify_top_all_complete",
    "MysticVerif.C12.simplify_top_all_sound",
    "MysticVerif.C12.simplify_top_inside",
    "MysticVerif.C12.simplify_top_single_member",
    "MysticVerif.C12.single_case_not_whole_witness",
]

KF_OPPOSITE = "simplify/absval-merge-inclusive/opposite-bounds-same-text"
KF_EMPTY = "simplify/equality-comes-back-empty"
KF_REDUNDANT = "solve/redundant-float-equations/rank-inflated"
KF_CANCEL = "simplify/test-point-in-binary64/cancelling-huge-coefficients"
KF_RESTORE = "symbolic/restore-names/more-than-ten-named-variables/index-prefix"
KF_TRIANGULAR = "solve/redundant-float-equations/not-back-substituted"
KF_FLAT = "simplify/flat-marker-collision/parenthesised-text-repeated-inside-divisor"
KF_DROPPED = "solve/redundant-exact-equations/pinned-variable-missing-from-the-solved-form"
KF_SINGULAR = "solve/float-coefficients/isolated-variables-form-a-singular-block"
KF_PINNED = "solve/redundant-exact-equations/free-variable-pinned-by-the-solved-form"
CMP_TEXT = ["<", "<=", ">", ">=", "=", "==", "!="]
TOL = Fr(1, 10 ** 9)
MARGIN = Fr(1, 10 ** 6)


class HarnessBug(Exception):
    pass


# ------------------------------------------------------------------ names
LISTS = [list("ABCDEFGH"), ["x", "y", "z", "w", "v", "u", "t", "s"],
         ["alpha", "beta", "gamma", "delta", "kappa", "mu", "nu", "rho"],
         ["p1", "p2", "p10", "p11", "q", "r", "q2", "r10"]]


def gen_names(rng, n):
    """-> (variables argument for mystic, names used in the text)"""
    k = rng.random()
    if k < 0.45:
        return "x", ["x%d" % i for i in range(n)]
    if k < 0.6:   # sparse / two-digit indices (x1 vs x10 vs x11)
        idx = sorted(rng.sample([0, 1, 2, 3, 5, 9, 10, 11, 12, 20, 21], n))
        return "x", ["x%d" % i for i in idx]
    if k < 0.7:
        return "y", ["y%d" % i for i in range(n)]
    if k < 0.78:
        names = ["x%d" % i for i in range(n)]
        return names, names
    names = list(rng.choice(LISTS))
    if rng.random() < 0.5:
        rng.shuffle(names)
    return names[:n], names[:n]


# ------------------------------------------------------------------ number text
def num_text(rng, kind, pivot=False):
    """a non-zero coefficient as text. kinds: int (exact via sympy Rational), dyadic (exact binary floats),
    float (general; toleranced stream)"""
    if kind == "int":
        k = rng.random()
        if k < 0.7:
            v = rng.choice([1, 1, 2, 3, 4, 5, 6, 7, 9, 10, 12, 25, 100])
        elif k < 0.85:
            v = rng.randint(11, 10 ** 6)
        else:
            v = 10 ** rng.randint(7, 25) + rng.choice([0, 0, 1, 7])
        return str(v if rng.random() < 0.5 else -v)
    if kind == "dyadic":
        if pivot:
            v = rng.choice([0.25, 0.5, 1.0, 2.0, 4.0, 8.0, 1.0, 2.0])
        else:
            v = rng.randint(1, 64) / rng.choice([1, 2, 4, 8])
        v = v if rng.random() < 0.5 else -v
        return repr(float(v))
    k = rng.random()
    if k < 0.5:
        v = round(rng.uniform(0.01, 20), rng.choice([1, 2, 3, 6]))
    elif k < 0.7:
        v = rng.uniform(0.001, 1000)
    elif k < 0.85:
        v = rng.choice([1e20, 3.5e17, 2.5e-20, 1e-12, 7e-9, 1.5e15, 1e-5])
    else:
        v = float(rng.randint(1, 9))
    v = v or 1.0
    return repr(float(v if rng.random() < 0.5 else -v))


def term_text(rng, coef, name, kind):
    neg = coef.startswith("-")
    mag = coef[1:] if neg else coef
    one = mag in ("1", "1.0")
    k = rng.random()
    if one and k < 0.6:
        body = name
    elif k < 0.75 or kind != "int":
        body = "%s%s%s" % (mag, rng.choice(["*", "*", "*", " * ", "* "]), name)
    elif k < 0.9:
        body = "%s*%s" % (name, mag)
    else:
        # integer kind only: a rational coefficient  name/int  or  int*name/int
        d = rng.choice([2, 3, 4, 5, 7, 10])
        body = ("%s/%d" % (name, d)) if one else ("%s*%s/%d" % (mag, name, d))
    return neg, body


def join_terms(rng, terms):
    """terms: list of (neg, body) -> expression text"""
    if not terms:
        return "0"
    out = ""
    for i, (neg, body) in enumerate(terms):
        if i == 0:
            out = ("-" + body) if neg else body
        elif neg:
            out += (" - " + body) if rng.random() < 0.8 else (" + -" + body)
        else:
            out += " + " + body
    return out


def gen_linear_line(rng, names, kind, cmp=None):
    n = len(names)
    nv = rng.randint(1, min(n, 4))
    vs = rng.sample(range(n), nv)
    lhs, rhs = [], []
    for j, i in enumerate(vs):
        t = term_text(rng, num_text(rng, kind, pivot=True), names[i], kind)
        (lhs if (j == 0 or rng.random() < 0.65) else rhs).append(t)
        if kind == "int" and rng.random() < 0.15:    # the same variable again, possibly on the other side
            t2 = term_text(rng, num_text(rng, kind), names[i], kind)
            (lhs if rng.random() < 0.5 else rhs).append(t2)
    for side in (lhs, rhs):
        if rng.random() < (0.35 if side is lhs else 0.8):
            c = num_text(rng, kind)
            neg = c.startswith("-")
            side.append((neg, c[1:] if neg else c))
    rng.shuffle(lhs); rng.shuffle(rhs)
    L = join_terms(rng, lhs); R = join_terms(rng, rhs)
    if kind == "int" and rng.random() < 0.1 and lhs:
        L = "%s*(%s)" % (rng.choice(["2", "-3", "5"]), L)
    if rng.random() < 0.15:
        L, R = R, L
    cmp = cmp or rng.choice(["<", "<=", ">", ">=", "<", "<=", ">", ">=", "=", "==", "!="])
    return "%s %s %s" % (L, cmp, R)


def gen_rational_line(rng, names, kind, allow_dead=True):
    """affine / (c*x_k [+ d]) cmp const   (and mirrored / shifted variants)"""
    n = len(names)
    k = rng.randrange(n)
    others = [i for i in range(n) if i != k]      # (a numerator proportional to the divisor would cancel: not a rational relation)
    nv = rng.randint(0, min(2, len(others)))
    terms = [term_text(rng, num_text(rng, kind, pivot=True), names[i], "float" if kind != "int" else "int0")
             for i in rng.sample(others, nv)]
    if rng.random() < 0.6 or not terms:
        c = num_text(rng, kind); neg = c.startswith("-"); terms.append((neg, c[1:] if neg else c))
    num = join_terms(rng, terms)
    c = num_text(rng, kind, pivot=True)
    if c in ("1", "1.0"):
        den = names[k]
    elif c in ("-1", "-1.0"):
        den = "(-%s)" % names[k]
    else:
        den = "(%s*%s)" % (c, names[k])
    if rng.random() < 0.12:   # affine divisor with a single variable: c*x_k + d
        # (moderate offsets only: with the divisor's zero beyond ~1e13 the +/- epsilon test points of _simplify1 coincide in
        #  binary64 and both sign cases get the same direction - observed, outside the property's "single variable factor" class)
        d = {"int": str(rng.randint(1, 1000)), "dyadic": repr(rng.randint(1, 64) / 4.0)}.get(kind, repr(round(rng.uniform(0.1, 50), 2)))
        d = d if rng.random() < 0.5 else "-" + d
        den = "(%s*%s + %s)" % (c, names[k], d) if not d.startswith("-") else "(%s*%s - %s)" % (c, names[k], d[1:])
    numt = num if re.match(r"^[\w.]+$", num) else "(%s)" % num
    # `const/(c*x_k) cmp 0` has no boundary: sympy finds no solution and mystic falls back to _solve_nonlinear, which
    # lists all permutations of x0..x<max index> (SyntaxError for few variables, memory exhaustion for x21): only generated
    # with densely numbered variables
    r = num_text(rng, kind) if (rng.random() < 0.85 or (nv == 0 and not allow_dead)) else "0"
    cmp = rng.choice(["<", "<=", ">", ">=", "<", "<=", ">", ">=", "=", "!="])
    # the same relation is written with or without blanks around the slash
    q = "%s%s%s" % (numt, rng.choice(["/", "/", " / ", "/ ", " /"]), den)
    s = rng.random()
    if s < 0.75:
        return "%s %s %s" % (q, cmp, r)
    if s < 0.9:
        return "%s %s %s" % (r, cmp, q)
    sh = num_text(rng, kind)
    return "%s + %s %s %s" % (q, sh, cmp, r) if not sh.startswith("-") else "%s - %s %s %s" % (q, sh[1:], cmp, r)


def gen_simplify_case(rng):
    n = rng.choice([1, 2, 2, 3, 3, 4, 5])
    variables, names = gen_names(rng, n)
    sysk = rng.choice(["int", "int", "int", "dyadic", "dyadic", "float", "float", "mixed"])
    nl = rng.choice([1, 1, 2, 2, 3, 4])
    lines = []; kinds = []; shape = []
    nrat = 0
    special = rng.random()
    for _ in range(nl):
        kind = sysk if sysk != "mixed" else rng.choice(["int", "dyadic", "float"])
        if rng.random() < 0.22 and nrat < 2 and n >= 1:
            lines.append(gen_rational_line(rng, names, kind, dense_names(variables, names) and n <= 6)); nrat += 1; shape.append("rat")
        else:
            lines.append(gen_linear_line(rng, names, kind)); shape.append("lin")
        kinds.append(kind)
    if special < 0.06 and shape[0] == "lin":
        # an opposite pair with literally the same sides (trigger of absval's inclusive merge, known finding)
        l, c, r = U.split_line(lines[0])
        ct = [k for k, v in U.CMP_NAME.items() if v == c and k != "=="][0]
        if c in ("lt", "le", "gt", "ge"):
            opp = {"<": [">", ">="], "<=": [">=", ">"], ">": ["<", "<="], ">=": ["<=", "<"]}[ct]
            lines.insert(rng.randint(1, len(lines)), "%s %s %s" % (l, rng.choice(opp), r))
            kinds.append(kinds[0]); shape.append("lin")
    elif special < 0.12 and shape[0] == "lin":
        # the same bound written differently (handled by the exclusive merge after isolation): -(l) vs l
        l, c, r = U.split_line(lines[0])
        if c in ("le", "ge"):
            ct = "<=" if c == "le" else ">="
            lines.append("%s %s %s" % (r, ct, l)); kinds.append(kinds[0]); shape.append("lin")
        elif c in ("lt", "gt"):
            ct = "<" if c == "lt" else ">"
            lines.append("%s %s %s" % (r, rng.choice([ct, ct + "="]), l)); kinds.append(kinds[0]); shape.append("lin")
    kw = {}
    m = rng.random()
    if m < 0.08:
        kw["cycle"] = True
    elif m < 0.16 and dense_names(variables, names):
        # (a target absent from a line sends mystic into _solve_nonlinear, which lists all permutations of
        #  x0..x<max index>: only used with few, densely numbered variables)
        t = list(names); rng.shuffle(t); kw["target"] = t
    return {"variables": variables, "names": names, "text": "\n".join(lines), "kinds": kinds, "shape": shape, "kw": kw}


def dense_names(variables, names):
    return not isinstance(variables, str) or names == [variables + str(i) for i in range(len(names))]


# ------------------------------------------------------------------ helpers
_NUM = re.compile(r"(?<![A-Za-z_0-9.])(\d+\.?\d*(?:[eE][-+]?\d+)?|\.\d+(?:[eE][-+]?\d+)?)")


def looks_rounded(text):
    """some decimal literal of the text is not exactly a binary64 (sympy printed a Float rounded to 15 digits, or python
    evaluated int/int to a float): the text then denotes the exact system only up to rounding -> toleranced stream"""
    for m in _NUM.finditer(text):
        t = m.group(1)
        if "." not in t and "e" not in t.lower():
            continue   # integers are exact
        if Fr(t) != Fr(float(t)):
            return True
    return False


def has_float_literal(text):
    return any("." in m.group(1) or "e" in m.group(1).lower() for m in _NUM.finditer(text))


def exact_regime(kinds, text, outs):
    """integer / binary-exact coefficients, every printed decimal exactly a binary64, and no float in the result when the
    input has integers beyond ~2**33 (then mystic left sympy's exact Rational path - e.g. the _solve_nonlinear fallback -
    and a 22-digit integer was rounded to a double: precision, not logic)"""
    if not all(k in ("int", "dyadic") for k in kinds) or any(looks_rounded(c) for c in outs):
        return False
    big = any(len(m.group(1)) >= 10 for m in _NUM.finditer(text) if m.group(1).isdigit())
    return not (big and any(has_float_literal(c) for c in outs))


def opposite_pairs(text):
    """indices (i, j) of input lines with literally equal sides and opposite inequality (flip / flip(bounds))"""
    ls = [U.split_line(l) for l in U.lines_of(text)]
    out = []
    for i, (l1, c1, r1) in enumerate(ls):
        for j, (l2, c2, r2) in enumerate(ls):
            if i < j and l1 == l2 and r1 == r2 and c1 in ("lt", "le", "gt", "ge") and c2 in (U.FLIP[c1], U.FLIPB[c1]):
                out.append((i, j))
    return out


def enclosed_chunks(eq):
    """twin of symbolic._enclosed (l.306-323): the text cut after the close of every top-level parenthesised group; a chunk is
    the text since the previous cut, i.e. what precedes the group plus the group"""
    res = []
    it = iter(re.findall(r"[^\)]*\)", eq))
    n, r = 0, ""
    for i in it:
        r += i; n += i.count("(") - 1
        if n <= 0:
            break
    if r:
        res.append(r)
    rest = "".join(it)
    if rest:
        res.extend(enclosed_chunks(rest))
    return res


def flat_collision(text):
    """F59: flat() (symbolic.py l.333-352) puts the marker $k$ into the k-th chunk with `equation.replace(chunk, ...)`, i.e. at
    EVERY place where the chunk's text occurs in the line; when a side of a relation begins with a parenthesised text and that
    text occurs again inside a later parenthesised divisor (`(-2)/((-2)*x0)`), the divisor no longer matches its own marker,
    denominator() does not find it, its zero is not solved and no sign cases are made.  Each side of the comparator is
    flattened separately (denominator(), l.374-377), with the blanks next to the comparator."""
    for line in U.lines_of(text):
        parts = U.CMP_RE.split(line)
        for side in ((parts[0], parts[2]) if len(parts) == 3 else (line,)):
            ch = enclosed_chunks(side)
            for a, e in enumerate(ch):
                for b in range(a + 1, len(ch)):
                    k = ch[b].find("(")
                    if e in ch[b] and k >= 0 and ch[b][:k].rstrip().endswith("/"):
                        return True
    return False


def merge_incl_abs(tl):
    """python mirror of Model/Symbolic.lean mergeIncl on (e, cmp) pairs (cross-checked in the merge stream)"""
    strict = ("lt", "gt"); ineq = ("lt", "le", "gt", "ge")
    s1 = [((e, "ne") if c in strict and (e, U.FLIP[c]) in tl else (e, c)) for e, c in tl]
    out = []
    for e, c in s1:
        if c in ineq and ((e, U.FLIP[c]) in s1 or (e, U.FLIPB[c]) in s1):
            continue
        if (e, c) not in out:
            out.append((e, c))
    return out


def merge_excl_abs(tl):
    ineq = ("lt", "le", "gt", "ge")
    s1 = [((e, "eq") if c in ("le", "ge") and (e, U.FLIP[c]) in tl else (e, c)) for e, c in tl]
    for e, c in s1:
        if c in ineq and ((e, U.FLIP[c]) in s1 or (e, U.FLIPB[c]) in s1):
            return None
    out = []
    for t in s1:
        if t not in out:
            out.append(t)
    return out


def effective_input(text):
    """the input after absval's `merge(inclusive=True)` (symbolic.py l.582), as text lines"""
    ls = [U.split_line(l) for l in U.lines_of(text)]
    inv = {"lt": "<", "le": "<=", "gt": ">", "ge": ">=", "eq": "=", "ne": "!="}
    tl = [((l, r), c) for l, c, r in ls]
    return ["%s %s %s" % (e[0], inv[c], e[1]) for e, c in merge_incl_abs(tl)]


def dead_equality(it):
    """an equality whose equation has no solution at all (`5/x0 = 0`, `x0 + 1 = x0`, `(2*x0+1)/x0 = 2`)"""
    if it[1] not in ("eq", "ne"):
        return False
    if it[0] == "lin":
        return U.canon_line(("lin", "eq") + tuple(it[2:])) == [("lt", Fr(1), ())]
    d = [a - it[4] * b for a, b in zip(it[2], it[3])]
    return all(c == 0 for c in d[1:]) and d[0] != 0


def empty_lines(cases_text):
    return max([sum(1 for l in c.split("\n") if not l.strip()) for c in cases_text] or [0])


def cancellation_ratio(tl, names):
    """for one linear text line: (size of the terms of both sides at the point (1,..,1)) / (largest net coefficient or net
    constant of lhs - rhs).  _simplify1 decides the direction by evaluating the ORIGINAL text at a random point of
    (-1,1)^n in binary64; when huge terms cancel identically (coefficients of one variable, or constants on both sides)
    over more than ~2**53 that evaluation is noise and the direction is a coin (F19)"""
    ones = {nm: Fr(1) for nm in names}
    try:
        c = [Fr(1)]
        _, ml = U.ev2(tl.l, ones, c); _, mr = U.ev2(tl.r, ones, c)
        it = U.translate_line(tl.text, names)
    except (ZeroDivisionError, U.OutsideClass):
        return Fr(1)
    if it[0] != "lin":
        return Fr(1)
    net = max(abs(a - b) for a, b in zip(it[2], it[3]))
    if net == 0:
        return Fr(1)       # everything cancels: not this class (an `=` line then comes back empty, F17)
    return (ml + mr) / net


def boundaries(cases):
    """the set of boundary hyperplanes (canonical form, comparator ignored) of a disjunction of linear cases"""
    return frozenset((c[1], c[2]) for case in cases for c in U.canon_sys(case))


def known_classes(text, in_items, names, cases_text, out_items, exact):
    """-> (keys, effective input items): what the rewriting is still required to preserve inside a known-finding class.
    F16: opposite bounds with literally equal sides go through merge(inclusive=True).
    F17: an `=` / `!=` line for which sympy finds no solution comes back as an EMPTY line (visible in the returned text);
         which line it was is recovered by trying the `=`/`!=` lines (python twin of the validator), fewest first."""
    import itertools
    keys = []
    items = list(in_items)
    n = len(names)
    ratios = [cancellation_ratio(U.TextLine(l), names) for l in U.lines_of(text)]
    if any(r >= 2 ** 40 for r in ratios):
        return [KF_CANCEL], items       # inside this class only the boundaries are required to be preserved (post_simplify)
    if opposite_pairs(text):
        keys.append(KF_OPPOSITE)
        items = [U.translate_line(l, names) for l in effective_input(text)]
    if empty_lines(cases_text) > 0:
        keys.append(KF_EMPTY)
        zero = [Fr(0)] * (n + 1)
        cand = [i for i, it in enumerate(items) if it[1] in ("eq", "ne")]
        tout = [U.canon_sys(c) for c in out_items]

        def drop(sel):
            out = []
            for i, it in enumerate(items):
                if i in sel:
                    if it[0] == "rat":
                        out.append(("lin", "ne", it[3], zero))
                else:
                    out.append(it)
            return out
        chosen = None
        for size in range(0, len(cand) + 1):      # size 0: the empty line is spurious, nothing was lost
            for sel in itertools.combinations(cand, size):
                e = drop(sel)
                if U.dnf_equiv([U.canon_sys(c) for c in U.expand(e, n)], tout, 0 if exact else TOL):
                    chosen = e; break
            if chosen is not None:
                break
        if chosen is None:
            chosen = drop([i for i in cand if dead_equality(items[i])])
        items = chosen
    return keys, items


class CallTimeout(Exception):
    pass


def guarded(fn, *a, **kw):
    """call into mystic with stdout swallowed and a limit on the CPU time of the call (a pathological permutation fallback
    must not stall the check: counted as 'raises', never as a verdict).  The limit is CPU time of this process
    (ITIMER_PROF), not wall-clock time: on a loaded machine a 0.1 s call can take many seconds of wall-clock time.  mystic's
    solve() has a bare `except:` (_symbolic.py l.698) that would swallow the exception raised by the signal handler and carry on
    with its _solve_nonlinear fallback - a result produced after the alarm fired is therefore never used: CallTimeout is
    raised again after the call returns."""
    import signal
    fired = [False]

    def onalarm(sig, frm):
        fired[0] = True
        raise CallTimeout()
    import resource
    old = signal.signal(signal.SIGPROF, onalarm)
    soft, hard = resource.getrlimit(resource.RLIMIT_AS)
    lim = 3 * 2 ** 30
    signal.setitimer(signal.ITIMER_PROF, float(kw.pop("_limit", 25)))
    try:
        # soft address-space limit for the duration of the call only (the Lean driver subprocess must not inherit it)
        resource.setrlimit(resource.RLIMIT_AS, (lim if hard == resource.RLIM_INFINITY else min(lim, hard), hard))
        with contextlib.redirect_stdout(io.StringIO()):
            out = fn(*a, **kw)
    finally:
        signal.setitimer(signal.ITIMER_PROF, 0)
        resource.setrlimit(resource.RLIMIT_AS, (soft, hard))
        signal.signal(signal.SIGPROF, old)
    if fired[0]:
        raise CallTimeout()
    return out


def env_of(names, pt):
    return dict(zip(names, pt))


def check_translation(text_lines, items, names, rng):
    """the untrusted translator against the independent interpreter, at random exact points"""
    n = len(names)
    tls = [U.TextLine(t) for t in text_lines]
    for pt in U.random_points(n, rng, 5) + U.corner_points(n)[:3]:
        env = env_of(names, pt)
        for t, it in zip(tls, items):
            if t.holds(env) != U.item_holds(it, pt):
                raise HarnessBug("translator disagrees with the interpreter on %r at %r" % (t.text, pt))
    return tls


def text_side(tls, names):
    """(sat, margin) of a conjunction of text lines"""
    return (lambda pt: U.sat_system(tls, env_of(names, pt)),
            lambda pt: min([t.margin(env_of(names, pt)) for t in tls] or [Fr(1)]))


def item_side(items):
    return (lambda pt: all(U.item_holds(it, pt) for it in items),
            lambda pt: min([U.item_margin(it, pt) for it in items] or [Fr(1)]))


def separating_point(in_side, out_cases, items_all, names, rng, exact, budget=24):
    """search a point where input and output disagree. exact: any point counts; toleranced: only points whose
    every line is farther than MARGIN (relative) from its boundary."""
    n = len(names)
    in_sat, in_margin = in_side
    pts = U.corner_points(n) + U.random_points(n, rng, budget) + U.boundary_points(items_all, n, rng)
    tested = 0
    for pt in pts:
        env = env_of(names, pt)
        if not exact:
            if in_margin(pt) < MARGIN or any(t.margin(env) < MARGIN for c in out_cases for t in c):
                continue
        tested += 1
        a = in_sat(pt)
        b = U.sat_cases(out_cases, env)
        if a != b:
            return pt, a, b, tested
    return None, None, None, tested


def deep_separating(in_side, in_cases, out_tls, out_items, names, exact):
    """complete search for linear systems: exact LP over every way a point can lie in one side and outside the other.
    the candidate is re-checked with the text interpreter (and the margin rule on the toleranced stream).
    -> (pt, a, b, complete): complete=True and pt=None means the two sides are equivalent (the validator is incomplete there)"""
    n = len(names)
    in_sat, in_margin = in_side
    thr = 0 if exact else Fr(1, 10 ** 7)
    complete = True
    for A, B in ((in_cases, out_items), (out_items, in_cases)):
        pt, done = U.lp_in_A_not_B(A, B, n, thr)
        complete = complete and done
        if pt is None:
            continue
        env = env_of(names, pt)
        if not exact and (in_margin(pt) < MARGIN or any(t.margin(env) < MARGIN for c in out_tls for t in c)):
            continue
        a = in_sat(pt); b = U.sat_cases(out_tls, env)
        if a != b:
            return pt, a, b, complete
        complete = False      # the LP (on the translated forms) and the text interpreter disagree: not a verdict
    return None, None, None, complete


def pt_json(pt):
    return [str(v) for v in pt]


# ------------------------------------------------------------------ stream: simplify
def prep_simplify(rng, hist, stream_id):
    """run the real simplify on a generated case; return a record with request lines (or None)"""
    from mystic import symbolic as S
    g = gen_simplify_case(rng)
    names = g["names"]; n = len(names)
    in_lines = U.lines_of(g["text"])
    in_items = [U.translate_line(l, names) for l in in_lines]          # generator is in class by construction
    in_tls = check_translation(in_lines, in_items, names, rng)
    for l in in_lines:   # comparator(): the comparator mystic sees is the one the harness split the line at
        c = S.comparator(l)
        if U.CMP_NAME.get(c) != U.split_line(l)[1]:
            raise HarnessBug("comparator(%r) = %r" % (l, c))
    common.seed_mystic(rng)
    try:
        out = guarded(S.simplify, g["text"], variables=g["variables"], all=True, **g["kw"])
    except Exception as exc:
        hist["simplify:raises:" + type(exc).__name__] = hist.get("simplify:raises:" + type(exc).__name__, 0) + 1
        return None
    cases_text = [] if out is None else ([out] if isinstance(out, str) else list(out))
    rec = {"stream": "simplify", "id": stream_id, "gen": g, "in_lines": in_lines, "in_items": in_items, "in_tls": in_tls,
           "out": cases_text, "names": names, "lines": []}
    exact = exact_regime(g["kinds"], g["text"], cases_text)
    rec["exact"] = exact
    try:
        out_lines = [U.lines_of(c) for c in cases_text]
        out_items = [[U.translate_line(l, names) for l in c] for c in out_lines]
        for c in out_items:
            for it in c:
                if it[0] != "lin":
                    raise U.OutsideClass("rational output line")
        out_tls = [check_translation(ls, its, names, rng) for ls, its in zip(out_lines, out_items)]
    except U.OutsideClass as e:
        rec["unparsed"] = str(e)
        try:
            rec["out_tls"] = [[U.TextLine(l) for l in U.lines_of(c)] for c in cases_text]
        except U.OutsideClass:
            rec["out_tls"] = None
        return rec
    rec["out_items"] = out_items; rec["out_tls"] = out_tls
    rec["lines"].append("C12 validate (inp (%s)) (out (%s))" % (" ".join(U.pitem(i) for i in in_items),
                                                                 " ".join(U.plines(c) for c in out_items)))
    keys, eff_items = known_classes(g["text"], in_items, names, cases_text, out_items, exact)
    rec["known"] = keys
    if keys:
        rec["eff_items"] = eff_items
        rec["lines"].append("C12 validate (inp (%s)) (out (%s))" % (" ".join(U.pitem(i) for i in eff_items),
                                                                     " ".join(U.plines(c) for c in out_items)))
    return rec


def case_of(rec, extra=None):
    g = rec["gen"]
    c = {"stream": rec["stream"], "id": rec["id"], "call": "simplify(%r, variables=%r, all=True%s)" % (
        g["text"], g["variables"], "".join(", %s=%r" % kv for kv in g["kw"].items())),
        "returned": rec["out"], "exact_regime": rec.get("exact"), "requests": rec["lines"]}
    if extra:
        c.update(extra)
    return c


def post_simplify(rec, replies, rng, hist, findings):
    g = rec["gen"]; names = rec["names"]; n = len(names)
    exact = rec["exact"]
    tag = "simplify:%s" % ("exact" if exact else "toleranced")
    hist[tag] = hist.get(tag, 0) + 1
    ncases = len(rec["out"])
    hist["simplify:cases=%d" % min(ncases, 4)] = hist.get("simplify:cases=%d" % min(ncases, 4), 0) + 1
    for s in set(rec["gen"]["shape"]):
        hist["simplify:has-" + s] = hist.get("simplify:has-" + s, 0) + 1
    if any(len(nm) > 2 and nm[0] in "xy" and nm[1:].isdigit() and int(nm[1:]) >= 10 for nm in names):
        hist["simplify:two-digit-index"] = hist.get("simplify:two-digit-index", 0) + 1
    if rec.get("out_tls") is None:
        hist["simplify:out-unreadable"] = hist.get("simplify:out-unreadable", 0) + 1
        findings.append(Finding("monitor", "simplify/unreadable-output", "simplify returned text the interpreter cannot read: %r" % (rec["out"],), case_of(rec)))
        return False
    in_cmps = sorted(it[1] for it in rec["in_items"])
    nontrivial = ncases >= 2
    # ---- monitor: independent interpreter at sample points
    items_all = list(rec["in_items"]) + [it for c in rec.get("out_items", []) for it in c]
    pt, a, b, tested = separating_point(text_side(rec["in_tls"], names), rec["out_tls"], items_all, names, rng, exact)
    hist["simplify:points"] = hist.get("simplify:points", 0) + tested
    if "unparsed" in rec:
        hist["simplify:out-outside-validator"] = hist.get("simplify:out-outside-validator", 0) + 1
        if pt is not None:
            findings.append(Finding("monitor", "simplify/not-equivalent/nonlinear-output",
                                    "input holds=%r, returned text holds=%r at %s=%s" % (a, b, names, pt_json(pt)), case_of(rec, {"point": pt_json(pt)})))
        return nontrivial
    out_cmps = sorted(it[1] for c in rec["out_items"] for it in c)
    nontrivial = nontrivial or (ncases == 1 and in_cmps != out_cmps)
    # ---- validator reply + twin
    r = parse_reply(replies[0])
    if r[0] != "ok":
        raise HarnessBug("driver replied %r to %r" % (replies[0], rec["lines"][0]))
    accept = r[1]["accept"] == "true"
    cin = U.parse_dnf(r[1]["cin"]); cout = U.parse_dnf(r[1]["cout"])
    tin = [U.canon_sys(c) for c in U.expand(rec["in_items"], n)]
    tout = [U.canon_sys(c) for c in rec["out_items"]]
    if sorted(map(sorted, cin)) != sorted(map(sorted, tin)) or sorted(map(sorted, cout)) != sorted(map(sorted, tout)) \
            or accept != U.dnf_equiv(tin, tout):
        findings.append(Finding("correspondence", "validator/python-twin-diverges",
                                "Lean canonical forms / verdict differ from the python twin", case_of(rec, {"reply": replies[0]})))
    approx = accept or U.dnf_equiv(tin, tout, TOL)
    hist["simplify:%s:%s" % ("exact" if exact else "toleranced", "accept" if accept else ("approx-accept" if approx else "reject"))] = \
        hist.get("simplify:%s:%s" % ("exact" if exact else "toleranced", "accept" if accept else ("approx-accept" if approx else "reject")), 0) + 1
    keys = rec.get("known")
    if keys:
        for k in keys:
            hist["simplify:known-class:" + k] = hist.get("simplify:known-class:" + k, 0) + 1
        r2 = parse_reply(replies[1])
        acc2 = r2[1]["accept"] == "true"
        eff = [U.pitem(i) for i in rec["eff_items"]]
        if keys == [KF_CANCEL]:
            # strongest true variant inside F19: the isolation algebra is exact, only the direction is unreliable
            if exact and boundaries(U.expand(rec["in_items"], n)) != boundaries(rec["out_items"]):
                findings.append(Finding("monitor", "simplify/known-class/other-defect",
                                        "beyond the known defect (%s): the returned lines do not have the boundaries of the input" % (keys,), case_of(rec)))
        elif not (exact and acc2):
            # strongest true variant inside the class: the result must be equivalent to the input after the known mis-step
            done2 = False
            pt2, a2, b2, _ = separating_point(item_side(rec["eff_items"]), rec["out_tls"], items_all + rec["eff_items"], names, rng, exact)
            if pt2 is None and (exact or not U.dnf_equiv([U.canon_sys(c) for c in U.expand(rec["eff_items"], n)], tout, TOL)):
                pt2, a2, b2, done2 = deep_separating(item_side(rec["eff_items"]), U.expand(rec["eff_items"], n), rec["out_tls"], rec["out_items"], names, exact)
            if pt2 is not None:
                findings.append(Finding("monitor", "simplify/known-class/other-defect",
                                        "beyond the known defect (%s): effective input holds=%r returned holds=%r at %s=%s" % (keys, a2, b2, names, pt_json(pt2)),
                                        case_of(rec, {"point": pt_json(pt2), "effective_input": eff})))
            elif exact and not done2:     # (done2: complete search, equivalent although the validator cannot see it)
                findings.append(Finding("correspondence", "simplify/known-class/validator-reject",
                                        "validator rejects the returned text against the effective input, no separating point found",
                                        case_of(rec, {"effective_input": eff, "reply": replies[1]})))
        if pt is not None:
            findings.append(Finding("monitor", keys[0],
                                    "input holds=%r, returned text holds=%r at %s=%s" % (a, b, names, pt_json(pt)),
                                    case_of(rec, {"point": pt_json(pt), "known_classes": keys})))
        return True
    kindtag = "rational" if "rat" in g["shape"] else "linear"
    if pt is not None:
        if exact and accept:
            raise HarnessBug("validator accepted but %r separates: translator unsound? %r" % (pt, case_of(rec)))
        findings.append(Finding("monitor", "simplify/not-equivalent/%s/%s" % (kindtag, "exact" if exact else "toleranced"),
                                "input holds=%r, returned text holds=%r at %s=%s" % (a, b, names, pt_json(pt)),
                                case_of(rec, {"point": pt_json(pt), "validator": replies[0][:300]})))
    elif (exact and not accept) or (not exact and not approx):
        # the validator (its tolerance twin) rejects: complete search by exact LP before giving up
        pt, a, b, done = deep_separating(text_side(rec["in_tls"], names), U.expand(rec["in_items"], n), rec["out_tls"], rec["out_items"], names, exact)
        hist["simplify:deep-search"] = hist.get("simplify:deep-search", 0) + 1
        if pt is not None and not exact:
            findings.append(Finding("monitor", "simplify/not-equivalent/%s/toleranced" % kindtag,
                                    "input holds=%r, returned text holds=%r at %s=%s" % (a, b, names, pt_json(pt)),
                                    case_of(rec, {"point": pt_json(pt), "validator": replies[0][:300]})))
        elif not exact:
            hist["simplify:toleranced:structure-differs"] = hist.get("simplify:toleranced:structure-differs", 0) + 1
        elif pt is not None:
            findings.append(Finding("monitor", "simplify/not-equivalent/%s/exact" % kindtag,
                                    "input holds=%r, returned text holds=%r at %s=%s" % (a, b, names, pt_json(pt)),
                                    case_of(rec, {"point": pt_json(pt), "validator": replies[0][:300]})))
        elif done:
            # complete LP search: the two texts ARE equivalent, the (sound, incomplete) validator cannot see it
            hist["simplify:exact:equivalent-by-complete-search"] = hist.get("simplify:exact:equivalent-by-complete-search", 0) + 1
        else:
            findings.append(Finding("correspondence", "simplify/validator-reject/%s" % kindtag,
                                    "validator rejects, no separating point found (search budget exhausted)", case_of(rec, {"reply": replies[0]})))
    return nontrivial


# ------------------------------------------------------------------ stream: solve
def gen_solve_case(rng):
    n = rng.choice([1, 2, 3, 3, 4, 5])
    variables, names = gen_names(rng, n)
    kind = rng.choice(["int", "int", "dyadic", "float"])
    m = rng.randint(1, min(n, 3))
    if kind == "int":
        A = [[rng.choice([0, 0, 1, -1, 2, -2, 3, 5, -7, 12]) for _ in range(n)] for _ in range(m)]
        x = [Fr(rng.randint(-5, 5)) for _ in range(n)]     # (python evaluates int/int to a float: keep b integral)
    elif kind == "dyadic":
        A = [[rng.choice([0, 0, 1.0, -1.0, 2.0, -2.0, 0.5, -0.5, 4.0, 0.25]) for _ in range(n)] for _ in range(m)]
        x = [Fr(rng.randint(-16, 16), rng.choice([1, 2, 4])) for _ in range(n)]
    else:
        A = [[rng.choice([0, 0, 0, round(rng.uniform(-9, 9), 2) or 1.5]) for _ in range(n)] for _ in range(m)]
        x = [Fr(rng.randint(-5, 5)) for _ in range(n)]
    for row in A:
        if all(v == 0 for v in row):
            row[rng.randrange(n)] = 1 if kind == "int" else 1.0
    red = False
    if m >= 2 and rng.random() < 0.2:    # a redundant (dependent) equation: still consistent
        k = rng.choice([2, -1, 3]) if kind == "int" else rng.choice([2.0, -1.0, 0.5])
        A[-1] = [k * v for v in A[0]]; red = True
    lines = []
    for row in A:
        b = sum(Fr(v) * xv for v, xv in zip(row, x))
        nz = [j for j in range(n) if row[j] != 0]
        rng.shuffle(nz)
        cut = rng.randint(1, len(nz))
        lhs = [(row[j], j) for j in nz[:cut]]; rhs = [(-row[j], j) for j in nz[cut:]]

        def side(ts):
            out = []
            for c, j in ts:
                s = repr(c)
                neg = s.startswith("-"); mag = s[1:] if neg else s
                out.append((neg, names[j] if mag in ("1", "1.0") and rng.random() < 0.6 else "%s*%s" % (mag, names[j])))
            return out
        bl = side(lhs); br = side(rhs)
        if kind == "int":
            bt = str(abs(b.numerator))
        else:
            bt = repr(float(abs(b)))
        if b != 0 or not br:
            br.append((b < 0, bt))
        L = join_terms(rng, bl); R = join_terms(rng, br)
        if rng.random() < 0.2:
            L, R = R, L
        lines.append("%s %s %s" % (L, "==" if rng.random() < 0.15 else "=", R))
    kw = {}
    if rng.random() < 0.2 and dense_names(variables, names):
        t = list(names); rng.shuffle(t); kw["target"] = t
    return {"variables": variables, "names": names, "text": "\n".join(lines), "kind": kind, "kw": kw, "redundant": red}


def prep_solve(rng, hist, stream_id):
    from mystic import symbolic as S
    g = gen_solve_case(rng)
    names = g["names"]; n = len(names)
    in_lines = U.lines_of(g["text"])
    in_items = [U.translate_line(l, names) for l in in_lines]
    in_tls = check_translation(in_lines, in_items, names, rng)
    common.seed_mystic(rng)
    try:
        out = guarded(S.solve, g["text"], variables=g["variables"], **g["kw"])
    except Exception as exc:
        hist["solve:raises:" + type(exc).__name__] = hist.get("solve:raises:" + type(exc).__name__, 0) + 1
        return None
    if not isinstance(out, str) or not out.strip():
        hist["solve:no-result"] = hist.get("solve:no-result", 0) + 1
        return None
    rec = {"stream": "solve", "id": stream_id, "gen": g, "in_lines": in_lines, "in_items": in_items, "in_tls": in_tls,
           "out": out, "names": names, "lines": []}
    rec["exact"] = exact_regime([g["kind"]], g["text"], [out])
    try:
        out_lines = U.lines_of(out)
        out_items = [U.translate_line(l, names) for l in out_lines]
        if any(it[0] != "lin" or it[1] != "eq" for it in out_items):
            raise U.OutsideClass("not a linear equality")
        rec["out_tls"] = check_translation(out_lines, out_items, names, rng)
    except U.OutsideClass as e:
        rec["unparsed"] = str(e)
        return rec
    rec["out_items"] = out_items
    fi = [U.eq_form(it) for it in in_items]; fo = [U.eq_form(it) for it in out_items]
    A = [U.comb_coeffs(fi, f) for f in fo]
    B = [U.comb_coeffs(fo, f) for f in fi]
    rec["cert"] = None not in A and None not in B
    if rec["cert"]:
        rec["lines"].append("C12 cert (inp %s) (out %s) (A %s) (B %s)" % (U.plines(in_items), U.plines(out_items), U.pmat(A), U.pmat(B)))
    return rec


def solved_form_ok(out_items, n):
    """every line is  x_i = (affine in the other variables), the x_i distinct and absent from every right side"""
    lhs = []
    for it in out_items:
        L, R = it[2], it[3]
        nz = [i for i in range(n) if L[i + 1] != 0]
        if L[0] != 0 or len(nz) != 1 or L[nz[0] + 1] != 1:
            return None
        lhs.append(nz[0])
    if len(set(lhs)) != len(lhs):
        return None
    for it in out_items:
        if any(it[3][i + 1] != 0 for i in lhs):
            return None
    return lhs


def isolated_vars(out_items, n):
    """every line is  x_i = (affine), the x_i distinct (they MAY occur on right sides) -> list of i, else None"""
    lhs = []
    for it in out_items:
        L = it[2]
        nz = [i for i in range(n) if L[i + 1] != 0]
        if L[0] != 0 or len(nz) != 1 or L[nz[0] + 1] != 1:
            return None
        lhs.append(nz[0])
    return lhs if len(set(lhs)) == len(lhs) else None


def post_solve(rec, replies, rng, hist, findings):
    g = rec["gen"]; names = rec["names"]; n = len(names)
    exact = rec["exact"]
    case = {"stream": "solve", "id": rec["id"], "call": g.get("call") or "solve(%r, variables=%r%s)" % (g["text"], g["variables"], "".join(", %s=%r" % kv for kv in g["kw"].items())),
            "returned": rec["out"], "exact_regime": exact, "requests": rec["lines"]}
    tag = "solve:%s" % ("exact" if exact else "toleranced")
    hist[tag] = hist.get(tag, 0) + 1
    if g["redundant"]:
        hist["solve:redundant-equation"] = hist.get("solve:redundant-equation", 0) + 1
    if "unparsed" in rec:
        hist["solve:out-outside-validator"] = hist.get("solve:out-outside-validator", 0) + 1
        findings.append(Finding("monitor", "solve/not-a-linear-solved-form", "solve returned %r for a consistent linear system" % (rec["out"],), case))
        return False
    out_items = rec["out_items"]
    fi = [U.eq_form(it) for it in rec["in_items"]]
    # ---- monitor: solved form; points of the returned solved form satisfy the input; dimensions agree
    lhs = solved_form_ok(out_items, n)
    rk = U.rank([f[1:] for f in fi])      # (the generated systems are consistent: rank of the coefficient part)
    tri = False
    if lhs is None:
        # F42: with float coefficients and redundant equations sympy reports no solution, mystic falls back to _solve_nonlinear and
        # returns  x_i = expr  lines that are NOT back-substituted (an isolated variable occurs on another right side).
        # Strongest variant still true inside the class: the lines have exactly the solutions of the input (certificate below).
        iso = isolated_vars(out_items, n)
        if iso is not None and rk < len(fi) and g["kind"] != "int":
            tri = True
            hist["solve:known-class:" + KF_TRIANGULAR] = hist.get("solve:known-class:" + KF_TRIANGULAR, 0) + 1
            findings.append(Finding("monitor", KF_TRIANGULAR, "returned lines are not back-substituted (an isolated variable occurs on a right side): %r" % (rec["out"],), case))
            lhs = []
        else:
            findings.append(Finding("monitor", "solve/not-solved-form", "returned text is not a solved form: %r" % (rec["out"],), case))
            return False
    tol = 0 if exact else TOL
    bad = None
    for _ in range(0 if tri else 6):
        pt = [Fr(rng.randint(-20, 20), rng.choice([1, 2, 3])) for _ in range(n)]
        for it, i in zip(out_items, lhs):
            pt[i] = U.f_eval(it[3], pt)
        for f in fi:
            res = U.f_eval(f, pt)
            scale = abs(f[0]) + sum(abs(c * v) for c, v in zip(f[1:], pt)) + 1
            if abs(res) > tol * scale:
                bad = (pt, res); break
        if bad:
            break
    # F18: proportional equations with non-binary float coefficients: rounding noise in sympy's elimination leaves a spurious
    # pivot; the 'solved form' then pins a free variable or (with further equations) is no solution at all. The same
    # systems with integer / binary-exact coefficients are on the exact stream and fully checked.
    redundant_float = (not exact) and rk < len(fi)
    # F76: with binary-exact coefficients a REDUNDANT (consistent) equation makes solve return fewer lines than the rank: a
    # variable the system pins is simply missing from the solved form (seen: 4 equations in 3 unknowns, x2 dropped).
    dropped_exact = exact and rk < len(fi) and len(out_items) < rk
    # F77: the variables solve chose to isolate form a SINGULAR block of the coefficient matrix (they cannot be solved for in
    # terms of the others); with float coefficients the elimination's rounding noise leaves a spurious pivot of size 1e-17 and
    # the returned lines carry coefficients of size 1e17 - no solution of the input at all.
    singular_block = (not exact) and bool(lhs) and U.rank([[f[1 + i] for i in lhs] for f in fi]) < len(lhs)
    if bad and dropped_exact:
        findings.append(Finding("monitor", KF_DROPPED, "the point %s=%s satisfies the returned solved form %r but an input equation has residual %s: the input has rank %d, the solved form fixes %d variables" % (
                                    names, pt_json(bad[0]), rec["out"], bad[1], rk, len(out_items)), dict(case, point=pt_json(bad[0]))))
    elif bad and singular_block and not redundant_float:
        findings.append(Finding("monitor", KF_SINGULAR, "the isolated variables %r form a singular block of the coefficient matrix; the returned lines %r are no solution (residual %s at %s)" % (
                                    [names[i] for i in lhs], rec["out"], bad[1], pt_json(bad[0])), dict(case, point=pt_json(bad[0]))))
    elif bad:
        findings.append(Finding("monitor", KF_REDUNDANT if redundant_float else "solve/solution-of-output-violates-input/%s" % ("exact" if exact else "toleranced"),
                                "the point %s=%s satisfies the returned solved form but an input equation has residual %s" % (names, pt_json(bad[0]), bad[1]),
                                dict(case, point=pt_json(bad[0]))))
    elif rk != len(out_items):
        # F78: the other direction of F76 - with a redundant exact equation the solved form can fix MORE variables than the rank
        # (every point of it solves the system, but solutions of the system are lost)
        pinned_exact = exact and rk < len(fi) and len(out_items) > rk
        findings.append(Finding("monitor", KF_REDUNDANT if redundant_float else (KF_DROPPED if dropped_exact else (KF_PINNED if pinned_exact else "solve/dimension-differs")),
                                "input has rank %d but the solved form fixes %d variables (solution sets of different dimension)" % (rk, len(out_items)), case))
    hist["solve:rank=%d/n=%d" % (rk, n)] = hist.get("solve:rank=%d/n=%d" % (rk, n), 0) + 1
    # ---- validator
    if exact:
        acc = False
        if rec["cert"]:
            r = parse_reply(replies[0])
            if r[0] != "ok":
                raise HarnessBug("driver replied %r" % (replies[0],))
            acc = r[1]["accept"] == "true"
            if not acc:
                findings.append(Finding("correspondence", "solve/certificate-computed-but-rejected", "Lean rejects a certificate the harness computed", dict(case, reply=replies[0])))
        hist["solve:exact:%s" % ("accept" if acc else "no-certificate")] = hist.get("solve:exact:%s" % ("accept" if acc else "no-certificate"), 0) + 1
        if tri and not rec["cert"]:
            # (for consistent systems mutual linear combination is necessary and sufficient for equal solution sets)
            findings.append(Finding("monitor", "solve/known-class/other-defect", "beyond the known defect (%s): the returned lines do not have the solutions of the input" % KF_TRIANGULAR, case))
        elif not rec["cert"] and not bad and rk == len(out_items):
            findings.append(Finding("correspondence", "solve/no-certificate", "no exact certificate exists although the monitor finds no failing point", case))
        if acc and (bad or rk != len(out_items)):
            raise HarnessBug("certificate accepted but the monitor disagrees: %r" % (case,))
    return len(rec["in_lines"]) >= 2 or any(f[1:].count(0) < n - 1 for f in fi)


# ------------------------------------------------------------------ stream: linear_symbolic / symbolic_bounds
def gen_number(rng, kind):
    k = rng.random()
    if kind == "int":
        return rng.choice([0, 1, -1, 2, -3, 7, 10, -25, 10 ** 9, -10 ** 18])
    if k < 0.35:
        return float(rng.randint(-9, 9))
    if k < 0.6:
        return rng.randint(-64, 64) / 8.0
    if k < 0.8:
        return rng.uniform(-100, 100)
    return rng.choice([1e300, -1e300, 5e-324, -2.5e-310, 1e-5, 123456789.123456789, -0.0, 1e22, 1e23, 0.1, 1 / 3.0])


def gen_matrix_case(rng):
    n = rng.choice([1, 2, 3, 4, 6, 11, 12])
    variables, names = gen_names(rng, min(n, 8)) if n <= 8 else ("x", ["x%d" % i for i in range(n)])
    n = len(names)
    if variables == "x" and names != ["x%d" % i for i in range(n)]:
        variables, names = "x", ["x%d" % i for i in range(n)]     # linear_symbolic numbers variables 0..n-1
    kind = rng.choice(["int", "float", "float", "mixed"])
    me = rng.choice([0, 1, 1, 2, 3]); mi = rng.choice([0, 1, 1, 2, 3])
    if me == 0 and mi == 0:
        me = 1

    def num():
        return gen_number(rng, rng.choice(["int", "float"]) if kind == "mixed" else kind)
    A = [[num() for _ in range(n)] for _ in range(me)]; b = [num() for _ in range(me)]
    G = [[num() for _ in range(n)] for _ in range(mi)]; h = [num() for _ in range(mi)]
    form = rng.choice(["list", "list", "numpy", "flat1", "nestb"])
    kwv = None if (variables == "x" and rng.random() < 0.5) else variables
    return {"names": names, "variables": variables, "kind": kind, "A": A, "b": b, "G": G, "h": h, "form": form, "kwv": kwv}


def matrix_args(g):
    import numpy as np
    form, kind = g["form"], g["kind"]

    def wrap(M, v):
        if form == "numpy" and kind != "int":
            return np.array(M, dtype=float), np.array(v, dtype=float)
        if form == "flat1" and len(M) == 1:
            return list(M[0]), list(v)
        if form == "nestb":
            return [list(r) for r in M], [list(v)]
        return [list(r) for r in M], list(v)
    args = {}
    if g["A"]:
        args["A"], args["b"] = wrap(g["A"], g["b"])
    if g["G"]:
        args["G"], args["h"] = wrap(g["G"], g["h"])
    return args


def prep_matrix(rng, hist, stream_id):
    from mystic import symbolic as S
    g = gen_matrix_case(rng)
    args = matrix_args(g)
    try:
        out = guarded(S.linear_symbolic, variables=g["kwv"], **args)
    except Exception as exc:
        hist["matrix:raises:" + type(exc).__name__] = hist.get("matrix:raises:" + type(exc).__name__, 0) + 1
        return None
    return build_matrix(g, args, out, rng, stream_id)


def build_matrix(g, args, out, rng, stream_id):
    """the record of ONE call `linear_symbolic(**args)` that returned `out`"""
    names = g["names"]; A, b, G, h = g["A"], g["b"], g["G"], g["h"]; form = g["form"]; kind = g["kind"]; kwv = g["kwv"]
    rec = {"stream": "matrix", "id": stream_id, "names": names, "out": out, "A": A, "b": b, "G": G, "h": h,
           "call": "linear_symbolic(%s, variables=%r)  [argument form %s]" % (", ".join("%s=%r" % (k, (v.tolist() if hasattr(v, "tolist") else v)) for k, v in args.items()), kwv, form),
           "lines": [], "form": form, "kind": kind}
    try:
        out_lines = U.lines_of(out)
        out_items = [U.translate_line(l, names) for l in out_lines]
        if any(it[0] != "lin" for it in out_items):
            raise U.OutsideClass("rational line")
        rec["out_tls"] = check_translation(out_lines, out_items, names, rng)
    except U.OutsideClass as e:
        rec["unparsed"] = str(e)
        return rec
    rec["out_items"] = out_items
    fr = lambda M: [[Fr(v) for v in r] for r in M]
    rec["lines"].append("C12 matrix (A %s) (b %s) (G %s) (h %s) (txt %s)" % (
        U.pmat(fr(A)), U.pnums([Fr(v) for v in b]), U.pmat(fr(G)), U.pnums([Fr(v) for v in h]), U.plines(out_items)))
    return rec


def post_matrix(rec, replies, rng, hist, findings):
    names = rec["names"]; n = len(names)
    case = {"stream": "matrix", "id": rec["id"], "call": rec["call"], "returned": rec["out"], "requests": rec["lines"]}
    hist["matrix:%s:%s" % (rec["kind"], rec["form"])] = hist.get("matrix:%s:%s" % (rec["kind"], rec["form"]), 0) + 1
    if n >= 11:
        hist["matrix:two-digit-index"] = hist.get("matrix:two-digit-index", 0) + 1
    if "unparsed" in rec:
        findings.append(Finding("monitor", "linear_symbolic/unreadable-text", "text cannot be read as linear relations: %r (%s)" % (rec["out"], rec["unparsed"]), case))
        return False
    A, b, G, h = rec["A"], rec["b"], rec["G"], rec["h"]
    want_items = [("lin", "le", [Fr(0)] + [Fr(v) for v in row], [Fr(v)] + [Fr(0)] * n) for row, v in zip(G, h)] + \
                 [("lin", "eq", [Fr(0)] + [Fr(v) for v in row], [Fr(v)] + [Fr(0)] * n) for row, v in zip(A, b)]
    # ---- monitor: A x = b and G x <= h (exact) against the interpreter of the text
    pts = U.corner_points(n)[:6] + U.random_points(n, rng, 10) + U.boundary_points(want_items, n, rng, 1)[:60]
    for pt in pts:
        env = env_of(names, pt)
        want = all(sum(Fr(c) * v for c, v in zip(row, pt)) == Fr(bb) for row, bb in zip(A, b)) and \
            all(sum(Fr(c) * v for c, v in zip(row, pt)) <= Fr(hh) for row, hh in zip(G, h))
        got = U.sat_system(rec["out_tls"], env)
        if want != got:
            findings.append(Finding("monitor", "linear_symbolic/text-differs-from-matrices",
                                    "A x = b and G x <= h is %r but the text holds=%r at %s=%s" % (want, got, names, pt_json(pt)), dict(case, point=pt_json(pt))))
            break
    r = parse_reply(replies[0])
    if r[0] != "ok":
        raise HarnessBug("driver replied %r" % (replies[0],))
    acc = r[1]["accept"] == "true"
    twin = U.dnf_equiv([U.canon_sys(want_items)], [U.canon_sys(rec["out_items"])])
    if twin != acc:
        findings.append(Finding("correspondence", "validator/python-twin-diverges", "matrix: Lean=%r twin=%r" % (acc, twin), dict(case, reply=replies[0])))
    hist["matrix:%s" % ("accept" if acc else "reject")] = hist.get("matrix:%s" % ("accept" if acc else "reject"), 0) + 1
    if not acc and not any(f["class_key"].startswith("linear_symbolic/") and f["case"].get("id") == rec["id"] for f in findings):
        pt, a, b, done = deep_separating(item_side(want_items), [want_items], [rec["out_tls"]], [rec["out_items"]], names, True)
        if pt is not None:
            findings.append(Finding("monitor", "linear_symbolic/text-differs-from-matrices",
                                    "A x = b and G x <= h is %r but the text holds=%r at %s=%s" % (a, b, names, pt_json(pt)), dict(case, point=pt_json(pt))))
        elif not done:
            findings.append(Finding("correspondence", "linear_symbolic/validator-reject", "validator rejects, no separating point found", dict(case, reply=replies[0])))
        else:
            hist["matrix:equivalent-by-complete-search"] = hist.get("matrix:equivalent-by-complete-search", 0) + 1
    return len(A) + len(G) >= 2


def gen_bounds_case(rng):
    n = rng.choice([1, 2, 3, 4, 5, 12])
    variables, names = gen_names(rng, min(n, 8)) if n <= 8 else ("x", ["x%d" % i for i in range(n)])
    n = len(names)
    if isinstance(variables, str) and names != [variables + str(i) for i in range(n)]:
        variables, names = "x", ["x%d" % i for i in range(n)]
    lo = []; hi = []
    for _ in range(n):
        a = gen_number(rng, rng.choice(["int", "float"])); c = gen_number(rng, rng.choice(["int", "float"]))
        if a > c:
            a, c = c, a
        k = rng.random()
        if k < 0.15:
            c = a
        l = a if rng.random() < 0.75 else rng.choice([None, -math.inf])
        u = c if rng.random() < 0.75 else rng.choice([None, math.inf])
        lo.append(l); hi.append(u)
    kwv = None if (variables == "x" and rng.random() < 0.5) else variables
    return {"names": names, "variables": variables, "lo": lo, "hi": hi, "kwv": kwv}


def prep_bounds(rng, hist, stream_id):
    from mystic import symbolic as S
    g = gen_bounds_case(rng)
    try:
        out = guarded(S.symbolic_bounds, list(g["lo"]), list(g["hi"]), variables=g["kwv"])
    except Exception as exc:
        hist["bounds:raises:" + type(exc).__name__] = hist.get("bounds:raises:" + type(exc).__name__, 0) + 1
        return None
    return build_bounds(g, out, rng, stream_id)


def build_bounds(g, out, rng, stream_id):
    """the record of ONE call `symbolic_bounds(lo, hi)` that returned `out`"""
    names = g["names"]; lo, hi, kwv = g["lo"], g["hi"], g["kwv"]
    rec = {"stream": "bounds", "id": stream_id, "names": names, "out": out, "lo": lo, "hi": hi,
           "call": "symbolic_bounds(%r, %r, variables=%r)" % (lo, hi, kwv), "lines": []}
    try:
        out_lines = U.lines_of(out)
        out_items = [U.translate_line(l, names) for l in out_lines]
        if any(it[0] != "lin" for it in out_items):
            raise U.OutsideClass("rational line")
        rec["out_tls"] = check_translation(out_lines, out_items, names, rng)
    except U.OutsideClass as e:
        rec["unparsed"] = str(e)
        return rec
    rec["out_items"] = out_items
    fin = lambda v: v is not None and not math.isinf(v)
    rec["lines"].append("C12 bounds (lo (%s)) (hi (%s)) (txt %s)" % (
        " ".join(U.pnum(Fr(v)) if fin(v) else "none" for v in lo), " ".join(U.pnum(Fr(v)) if fin(v) else "none" for v in hi), U.plines(out_items)))
    return rec


def post_bounds(rec, replies, rng, hist, findings):
    names = rec["names"]; n = len(names)
    case = {"stream": "bounds", "id": rec["id"], "call": rec["call"], "returned": rec["out"], "requests": rec["lines"]}
    hist["bounds:cases"] = hist.get("bounds:cases", 0) + 1
    if "unparsed" in rec:
        findings.append(Finding("monitor", "symbolic_bounds/unreadable-text", "text cannot be read: %r (%s)" % (rec["out"], rec["unparsed"]), case))
        return False
    lo, hi = rec["lo"], rec["hi"]
    fin = lambda v: v is not None and not math.isinf(v)
    if any(not fin(v) for v in lo + hi):
        hist["bounds:infinite-side"] = hist.get("bounds:infinite-side", 0) + 1
    if any(fin(a) and fin(c) and a == c for a, c in zip(lo, hi)):
        hist["bounds:degenerate-side"] = hist.get("bounds:degenerate-side", 0) + 1
    pts = U.corner_points(n)[:4] + U.random_points(n, rng, 8)
    for i in range(n):       # exactly on each finite bound and just outside
        for v in (lo[i], hi[i]):
            if fin(v):
                base = [(Fr(lo[j]) if fin(lo[j]) else (Fr(hi[j]) if fin(hi[j]) else Fr(0))) for j in range(n)]
                for d in (Fr(0), Fr(1, 10 ** 12), Fr(-1, 10 ** 12), Fr(1), Fr(-1)):
                    p = list(base); p[i] = Fr(v) + d * max(1, abs(Fr(v))); pts.append(p)
    for pt in pts:
        want = all((not fin(l) or Fr(l) <= v) and (not fin(u) or v <= Fr(u)) for l, u, v in zip(lo, hi, pt))
        got = U.sat_system(rec["out_tls"], env_of(names, pt))
        if want != got:
            findings.append(Finding("monitor", "symbolic_bounds/text-differs-from-box",
                                    "the point %s=%s is %s the box but the text holds=%r" % (names, pt_json(pt), "inside" if want else "outside", got), dict(case, point=pt_json(pt))))
            break
    r = parse_reply(replies[0])
    if r[0] != "ok":
        raise HarnessBug("driver replied %r" % (replies[0],))
    acc = r[1]["accept"] == "true"
    hist["bounds:%s" % ("accept" if acc else "reject")] = hist.get("bounds:%s" % ("accept" if acc else "reject"), 0) + 1
    if not acc and not any(f["class_key"].startswith("symbolic_bounds/") and f["case"].get("id") == rec["id"] for f in findings):
        z = [Fr(0)] * n
        want_items = [("lin", "ge", [Fr(0)] + [Fr(int(j == i)) for j in range(n)], [Fr(lo[i])] + z) for i in range(n) if fin(lo[i])] + \
                     [("lin", "le", [Fr(0)] + [Fr(int(j == i)) for j in range(n)], [Fr(hi[i])] + z) for i in range(n) if fin(hi[i])]
        pt, a, b, done = deep_separating(item_side(want_items), [want_items], [rec["out_tls"]], [rec["out_items"]], names, True)
        if pt is not None:
            findings.append(Finding("monitor", "symbolic_bounds/text-differs-from-box",
                                    "the point %s=%s is %s the box but the text holds=%r" % (names, pt_json(pt), "inside" if a else "outside", b), dict(case, point=pt_json(pt))))
        elif not done:
            findings.append(Finding("correspondence", "symbolic_bounds/validator-reject", "validator rejects, no separating point found", dict(case, reply=replies[0])))
        else:
            hist["bounds:equivalent-by-complete-search"] = hist.get("bounds:equivalent-by-complete-search", 0) + 1
    return any(fin(v) for v in lo + hi)


# ------------------------------------------------------------------ stream: simplifyx (second layer: abs, multi-variable and product
# divisors, chained / mixed systems, keywords, more than ten variables) -> Lean `validateX`
XKINDS = ["multidiv", "multidiv", "prod", "prod", "abs", "abs", "abs", "chain", "chain", "kw", "kw", "many", "many"]


def gen_simplifyx_case(rng):
    kind = rng.choice(XKINDS)
    nk = rng.choice(["int", "int", "dyadic"])
    kw = {}; mode = None
    if kind == "multidiv":
        n = rng.choice([3, 3, 4])
        variables, names = "x", ["x%d" % i for i in range(n)]
        lines = [X.gen_multidiv(rng, names, nk)] + [X.gen_lin(rng, names, nk) for _ in range(rng.choice([0, 0, 1, 2]))]
    elif kind == "prod":
        n = rng.choice([2, 3, 3, 4])
        variables, names = "x", ["x%d" % i for i in range(n)]
        lines = [X.gen_prod(rng, names, nk)] + [X.gen_lin(rng, names, nk) for _ in range(rng.choice([0, 0, 1]))]
    elif kind == "abs":
        n = rng.choice([1, 2, 2, 3])
        base = rng.choice(["x", "x", "y"])
        variables, names = base, ["%s%d" % (base, i) for i in range(n)]
        if rng.random() < 0.2:
            variables = list(names)
        lines = [X.gen_abs(rng, names, nk)] + [X.gen_lin(rng, names, nk) for _ in range(rng.choice([0, 0, 1, 2]))]
        if rng.random() < 0.15:
            lines.append(X.gen_abs(rng, names, nk))
    elif kind == "chain":
        n = rng.choice([2, 3, 3, 4, 5])
        variables, names = gen_names(rng, n)
        lines = X.gen_chain(rng, names, nk)
        m = rng.random()
        if m < 0.25:
            kw["cycle"] = True
        elif m < 0.45 and dense_names(variables, names):
            t = list(names); rng.shuffle(t); kw["target"] = t
    elif kind == "kw":
        n = rng.choice([2, 2, 3])
        variables, names = "x", ["x%d" % i for i in range(n)]
        k = rng.random()
        first = X.gen_abs(rng, names, nk) if k < 0.35 else (gen_rational_line(rng, names, nk if nk == "int" else "dyadic", False) if k < 0.7 else X.gen_lin(rng, names, nk, cmp=rng.choice(X.INEQ)))
        lines = [first] + [X.gen_lin(rng, names, nk) for _ in range(rng.choice([0, 1, 1, 2]))]
        mode = rng.choice(["all-false", "all-false", "rand", "rand", "target-one", "variables-superset", "cycle"])
        if mode == "target-one":
            kw["target"] = [rng.choice(names)]
        elif mode == "variables-superset":
            variables = list(names) + ["x%d" % (n + 3), "zz"]
        elif mode == "cycle":
            kw["cycle"] = True
    else:   # many
        n = rng.choice([11, 12, 13])
        if rng.random() < 0.4:
            variables, names = "x", ["x%d" % i for i in range(n)]
        else:
            names = list(rng.choice(X.MANY_NAMES))[:n]
            variables = list(names); n = len(names)
        lines = []
        for _ in range(rng.choice([1, 1, 2, 3])):
            hi = rng.sample(range(10, len(names)), rng.randint(1, min(2, len(names) - 10)))
            lo = rng.sample([1, 1, 0, 2, 5, 9], rng.randint(0, 2))
            vs = list(dict.fromkeys(hi + lo)); rng.shuffle(vs)
            lines.append(X.gen_lin(rng, names, nk, vs))
        m = rng.random()
        if m < 0.3:
            kw["target"] = [names[rng.choice([v for v in range(10, len(names))])]]
        elif m < 0.4:
            kw["cycle"] = True
    return {"kind": kind, "mode": mode, "variables": variables, "names": names, "text": "\n".join(lines),
            "kinds": [nk] * len(lines), "kw": kw}


def _as_cases(out):
    """what simplify returned -> list of texts (a `None` case = a case without solutions)"""
    if out is None:
        return []
    return [c for c in ([out] if isinstance(out, str) else list(out)) if c is not None]


def check_xtranslation(text_lines, items, ctx, rng):
    tls = [X.XTextLine(t) for t in text_lines]
    n = ctx.n
    for pt in U.random_points(n, rng, 5) + U.corner_points(n)[:3]:
        env = env_of(ctx.names, pt)
        x = ctx.ext(pt)
        for t, it in zip(tls, items):
            if t.holds(env) != X.xitem_holds(it, x):
                raise HarnessBug("translator (extended) disagrees with the interpreter on %r at %r" % (t.text, pt))
    return tls


def prep_simplifyx(rng, hist, stream_id):
    import random as _random
    from mystic import symbolic as S
    g = gen_simplifyx_case(rng)
    kind = g["kind"]
    try:
        ctx = X.Ctx(g["names"])
        for l in U.lines_of(g["text"]):
            X.translate_x(l, ctx)
    except U.OutsideClass as e:
        raise HarnessBug("generated line outside the class: %r (%s)" % (g["text"], e))
    seed = common.seed_mystic(rng)
    kw = dict(g["kw"])
    if g["mode"] == "rand":
        kw["rand"] = _random.Random(seed + 1).random
    tag = "simplifyx:%s" % kind + (":" + g["mode"] if g["mode"] else "")
    try:
        out = guarded(S.simplify, g["text"], variables=g["variables"], all=True, **kw)
    except Exception as exc:
        key = "%s:raises:%s" % (tag, type(exc).__name__)
        hist[key] = hist.get(key, 0) + 1
        return None
    single = None
    if g["mode"] == "all-false":
        import random, numpy
        random.seed(seed); numpy.random.seed(seed)
        try:
            single = ("ok", guarded(S.simplify, g["text"], variables=g["variables"], all=False, **kw))
        except Exception as exc:
            single = ("raises", type(exc).__name__)
    return build_simplifyx(g, out, rng, stream_id, tag, single)


def build_simplifyx(g, out, rng, stream_id, tag, single=None, stream="simplifyx"):
    """the record of ONE call `simplify(g.text, all=True, ...)` that returned `out`: translation of input and returned
    text (validated against the interpreter), the validator request"""
    names = g["names"]
    in_lines = U.lines_of(g["text"])
    ctx = X.Ctx(names)
    try:
        in_sparse = [X.translate_x(l, ctx) for l in in_lines]
    except U.OutsideClass as e:
        raise HarnessBug("generated line outside the class: %r (%s)" % (g["text"], e))
    cases_text = _as_cases(out)
    rec = {"stream": stream, "id": stream_id, "gen": g, "in_lines": in_lines, "out": cases_text, "names": names, "lines": [],
           "ctx": ctx, "tag": tag, "raw_none": out is not None and not isinstance(out, str) and any(c is None for c in out)}
    if single is not None:
        rec["single"] = single
    rec["exact"] = exact_regime(g["kinds"], g["text"], cases_text)
    try:
        rec["out_tls"] = [[U.TextLine(l) for l in U.lines_of(c)] for c in cases_text]
    except U.OutsideClass:
        rec["out_tls"] = None
        return rec
    try:
        out_lines = [U.lines_of(c) for c in cases_text]
        out_sparse = [[X.translate_x(l, ctx) for l in c] for c in out_lines]
    except U.OutsideClass as e:
        rec["unparsed"] = str(e)
        out_sparse = None
    N = ctx.N
    rec["N"] = N
    in_items = [X.densify(it, N) for it in in_sparse]
    rec["in_items"] = in_items
    rec["in_tls"] = check_xtranslation(in_lines, in_items, ctx, rng)
    if out_sparse is None:
        return rec
    out_x = [[X.densify(it, N) for it in c] for c in out_sparse]
    out_items = [[X.plain_line(it) for it in c] for c in out_x]
    if any(it is None for c in out_items for it in c):
        rec["unparsed"] = "non-linear output line"
        return rec
    for ls, its in zip(out_lines, out_x):
        check_xtranslation(ls, its, ctx, rng)
    rec["out_items"] = out_items
    rec["lines"].append("C12 validatex (inp (%s)) (out (%s))" % (" ".join(X.pxitem(i) for i in in_items),
                                                                  " ".join(U.plines(c) for c in out_items)))
    return rec


def case_of_x(rec, extra=None):
    g = rec["gen"]
    c = {"stream": rec["stream"], "id": rec["id"], "kind": g["kind"], "mode": g["mode"],
         "call": g.get("call") or "simplify(%r, variables=%r, all=True%s)" % (g["text"], g["variables"], "".join(", %s=%r" % kv for kv in g["kw"].items())),
         "returned": rec["out"], "exact_regime": rec.get("exact"), "requests": rec["lines"]}
    if extra:
        c.update(extra)
    return c


def post_simplifyx(rec, replies, rng, hist, findings):
    g = rec["gen"]; names = rec["names"]; n = len(names); kind = g["kind"]
    exact = rec["exact"]; tag = rec["tag"]
    hist[tag] = hist.get(tag, 0) + 1
    ncases = len(rec["out"])
    hk = "simplifyx:%s:cases=%d" % (kind, min(ncases, 8))
    hist[hk] = hist.get(hk, 0) + 1
    if rec["raw_none"]:
        hist["simplifyx:None-inside-tuple"] = hist.get("simplifyx:None-inside-tuple", 0) + 1
    if rec.get("out_tls") is None:
        findings.append(Finding("monitor", "simplify/unreadable-output", "simplify returned text the interpreter cannot read: %r" % (rec["out"],), case_of_x(rec)))
        return False
    vclass = "simplify/not-equivalent/%s/%s" % (kind, "exact" if exact else "toleranced")
    # names that are not variables of the call in the returned text (mis-restored names)
    known = None
    if kind == "many" and not isinstance(g["variables"], str):
        bad = sorted(set(nm for c in rec["out_tls"] for t in c for node in (t.l, t.r) for nm in _names_in(node) if nm not in names))
        if bad:
            known = KF_RESTORE
            findings.append(Finding("monitor", KF_RESTORE, "the returned text mentions %r, which is not among the variables %r" % (bad, names), case_of_x(rec)))
            return True
    in_side = (lambda pt: U.sat_system(rec["in_tls"], env_of(names, pt)), lambda pt: Fr(1))
    if opposite_pairs(g["text"]) or abs_condition_pairs(g["text"]):
        # F16: absval merges (inclusive table) the lines AND the sign conditions of the abs terms of every case; two abs terms
        # with literally the same argument give the conditions `arg >= 0`, `arg <= 0` in the mixed-sign cases, which are deleted
        hist["simplifyx:known-class:" + KF_OPPOSITE] = hist.get("simplifyx:known-class:" + KF_OPPOSITE, 0) + 1
        pt, a, b, _ = separating_point(in_side, rec["out_tls"], [], names, rng, exact, budget=40)
        if pt is not None:
            findings.append(Finding("monitor", KF_OPPOSITE, "input holds=%r, returned text holds=%r at %s=%s" % (a, b, names, pt_json(pt)),
                                    case_of_x(rec, {"point": pt_json(pt)})))
        return False
    if empty_lines(rec["out"]) > 0:
        hist["simplifyx:known-class:" + KF_EMPTY] = hist.get("simplifyx:known-class:" + KF_EMPTY, 0) + 1
        return False
    if flat_collision(g.get("raw_text", g["text"])):
        # F59: the divisor is not recognised, no sign cases are made. Strongest variant still true inside the class: the isolation
        # algebra is exact - every boundary of the returned lines is a boundary of the input's sign-case expansion
        hist["simplifyx:known-class:" + KF_FLAT] = hist.get("simplifyx:known-class:" + KF_FLAT, 0) + 1
        pt, a, b, _ = separating_point(in_side, rec["out_tls"], [ln for c in X.expand_x(rec["in_items"], rec["N"]) for ln in c], names, rng, exact, budget=40)
        if pt is not None:
            findings.append(Finding("monitor", KF_FLAT, "input holds=%r, returned text holds=%r at %s=%s" % (a, b, names, pt_json(pt)),
                                    case_of_x(rec, {"point": pt_json(pt)})))
        if exact and "out_items" in rec and not boundaries(rec["out_items"]) <= boundaries(X.expand_x(rec["in_items"], rec["N"])):
            findings.append(Finding("monitor", "simplify/known-class/other-defect",
                                    "beyond the known defect (%s): a returned line has a boundary that is no boundary of the input" % KF_FLAT, case_of_x(rec)))
        return False
    # ---- monitor: all=False returns one of the cases of all=True
    if "single" in rec:
        st, single = rec["single"]
        hist["simplifyx:all-false:%s" % (st if st != "ok" else ("None" if single is None else "text"))] = \
            hist.get("simplifyx:all-false:%s" % (st if st != "ok" else ("None" if single is None else "text")), 0) + 1
        if st == "ok":
            want = rec["out"]
            # (all=False first picks ONE abs / sign case at random; when that case has no solution the answer is None)
            if (single is None and want and not rec["raw_none"]) or (single is not None and not one_of_cases(single, want, names, rng)):
                findings.append(Finding("monitor", "simplify/all-false/not-one-of-the-cases",
                                        "simplify(all=False) returned %r, which is none of the cases returned with all=True" % (single,), case_of_x(rec, {"single": single})))
    # ---- monitor: independent interpreter at sample points
    lin_items = [ln for c in X.expand_x(rec["in_items"], rec["N"]) for ln in c] if "in_items" in rec else []
    items_all = lin_items + [it for c in rec.get("out_items", []) for it in c]
    pt, a, b, tested = separating_point(in_side, rec["out_tls"], items_all, names, rng, exact, budget=30)
    hist["simplifyx:points"] = hist.get("simplifyx:points", 0) + tested
    if pt is not None:
        findings.append(Finding("monitor", vclass, "input holds=%r, returned text holds=%r at %s=%s" % (a, b, names, pt_json(pt)),
                                case_of_x(rec, {"point": pt_json(pt)})))
    nontrivial = ncases >= 2 or kind in ("chain", "many")
    if "unparsed" in rec:
        hist["simplifyx:%s:out-outside-validator" % kind] = hist.get("simplifyx:%s:out-outside-validator" % kind, 0) + 1
        return nontrivial
    r = parse_reply(replies[0])
    if r[0] != "ok":
        raise HarnessBug("driver replied %r to %r" % (replies[0], rec["lines"][0]))
    accept = r[1]["accept"] == "true"
    N = rec["N"]
    cin = U.parse_dnf(r[1]["cin"]); cout = U.parse_dnf(r[1]["cout"])
    in_cases = X.expand_x(rec["in_items"], N)
    tin = [U.canon_sys(c) for c in in_cases]
    tout = [U.canon_sys(c) for c in rec["out_items"]]
    if sorted(map(sorted, cin)) != sorted(map(sorted, tin)) or sorted(map(sorted, cout)) != sorted(map(sorted, tout)) \
            or accept != U.dnf_equiv(tin, tout):
        findings.append(Finding("correspondence", "validatorx/python-twin-diverges",
                                "Lean canonical forms / verdict differ from the python twin", case_of_x(rec, {"reply": replies[0][:400]})))
    approx = accept or U.dnf_equiv(tin, tout, TOL)
    vk = "simplifyx:%s:%s:%s" % (kind, "exact" if exact else "toleranced", "accept" if accept else ("approx-accept" if approx else "reject"))
    hist[vk] = hist.get(vk, 0) + 1
    if pt is not None:
        if exact and accept:
            raise HarnessBug("validatex accepted but %r separates: translator unsound? %r" % (pt, case_of_x(rec)))
        return nontrivial
    if exact and not accept:
        pt, a, b, done = deep_separating(in_side, in_cases, rec["out_tls"], rec["out_items"], names, True)
        if pt is not None:
            findings.append(Finding("monitor", vclass, "input holds=%r, returned text holds=%r at %s=%s" % (a, b, names, pt_json(pt[:n])),
                                    case_of_x(rec, {"point": pt_json(pt[:n]), "validator": replies[0][:300]})))
        elif done:
            hist["simplifyx:equivalent-by-complete-search"] = hist.get("simplifyx:equivalent-by-complete-search", 0) + 1
        elif N > n:
            # product divisors: the LP works in the linearised space, so an unfinished search is not a verdict
            hist["simplifyx:prod:reject-unresolved"] = hist.get("simplifyx:prod:reject-unresolved", 0) + 1
        else:
            findings.append(Finding("correspondence", "simplifyx/validator-reject/%s" % kind,
                                    "validatex rejects, no separating point found (search budget exhausted)", case_of_x(rec, {"reply": replies[0][:400]})))
    return nontrivial


def abs_arguments(line):
    """texts of the top-level abs(...) arguments of one line, as _absval cuts them out (symbolic.py l.496-500)"""
    out = []
    i = 0
    while True:
        k = line.find("abs(", i)
        if k < 0:
            return out
        depth = 0; j = k + 3
        while j < len(line):
            if line[j] == "(":
                depth += 1
            elif line[j] == ")":
                depth -= 1
                if depth == 0:
                    break
            j += 1
        out.append(line[k + 4:j])
        i = j + 1


def abs_condition_pairs(text):
    """the sign conditions `arg >= 0` / `arg <= 0` of the abs terms meet an opposite bound with literally the same sides:
    two abs terms with the same argument text, or an input line `arg <cmp> 0`"""
    ls = U.lines_of(text)
    args = [a for l in ls for a in abs_arguments(l)]
    if len(set(args)) < len(args):
        return True
    for l in ls:
        if "abs(" in l:
            continue
        try:
            lt, c, rt = U.split_line(l)
        except U.OutsideClass:
            continue
        if rt == "0" and lt in args and c in ("lt", "le", "gt", "ge"):
            return True
    return False


def _names_in(node):
    import ast
    return [x.id for x in ast.walk(node) if isinstance(x, ast.Name)]


# ------------------------------------------------------------------ stream: solvex (over- / under-determined, inconsistent, tautological
# systems, more than ten named variables)
def gen_solvex_case(rng):
    cls = rng.choice(["over", "over", "over", "under", "under", "under", "inconsistent", "tautology", "many", "many", "many"])
    kind = rng.choice(["int", "int", "dyadic"])
    if cls == "many":
        n = rng.choice([11, 12, 13])
        if rng.random() < 0.3:
            variables, names = "x", ["x%d" % i for i in range(n)]
        else:
            names = list(rng.choice(X.MANY_NAMES))[:n]; variables = list(names); n = len(names)
        m = rng.choice([1, 1, 2])
    else:
        n = {"over": rng.choice([1, 2, 2, 3]), "under": rng.choice([3, 4, 5]), "inconsistent": rng.choice([1, 2, 2]),
             "tautology": rng.choice([1, 2, 2])}[cls]
        variables, names = gen_names(rng, n)
        if cls in ("inconsistent", "tautology") and not dense_names(variables, names):
            # (no solution -> mystic falls back to _solve_nonlinear, which lists all permutations of x0..x<max index>)
            variables, names = "x", ["x%d" % i for i in range(n)]
        m = {"over": n + rng.choice([1, 1, 2]), "under": rng.choice([1, 2]), "inconsistent": rng.choice([1, 2, 2]),
             "tautology": rng.choice([0, 0, 1])}[cls]
    pool = [0, 0, 1, -1, 2, -2, 3, 5] if kind == "int" else [0, 0, 1.0, -1.0, 2.0, 0.5, -0.5, 4.0]
    A = [[rng.choice(pool) for _ in range(n)] for _ in range(m)]
    if cls == "many":
        A = [[0] * n for _ in range(m)]
        for row in A:
            for j in rng.sample(range(10, n), rng.randint(1, min(2, n - 10))) + rng.sample([0, 1, 1, 2, 9], rng.randint(1, 2)):
                row[j] = rng.choice([v for v in pool if v != 0])
    for row in A:
        if all(v == 0 for v in row):
            row[rng.randrange(n)] = pool[2]
    x = [Fr(rng.randint(-4, 4)) for _ in range(n)]
    b = [sum(Fr(v) * xv for v, xv in zip(row, x)) for row in A]
    if cls == "over" and rng.random() < 0.4 and len(A) >= 3:   # a redundant copy too
        k = rng.choice([2, -1]); A[-1] = [k * v for v in A[0]]; b[-1] = k * b[0]
    if cls == "inconsistent":
        k = rng.choice([1, 2, -1]) if kind == "int" else rng.choice([1.0, 2.0, -1.0])
        i = rng.randrange(len(A))
        A.append([k * v for v in A[i]]); b.append(Fr(k) * b[i] + rng.choice([1, -1, 2]))
        if rng.random() < 0.5:
            j = rng.randrange(len(A)); A[j], A[-1] = A[-1], A[j]; b[j], b[-1] = b[-1], b[j]
    lines = []
    for row, bb in zip(A, b):
        nz = [j for j in range(n) if row[j] != 0]
        rng.shuffle(nz)
        cut = rng.randint(1, len(nz))
        L = X.join(rng, [X.fmt_term(row[j], names[j]) for j in nz[:cut]])
        rt = [X.fmt_term(-row[j], names[j]) for j in nz[cut:]]
        bv = int(bb) if kind == "int" else float(bb)
        R = X.join(rng, rt, bv) if (rt and bv != 0) or rt else repr(bv)
        lines.append("%s = %s" % (L, R))
    if cls == "tautology":
        j = rng.randrange(n)
        t = rng.choice(["%s = %s" % (names[j], names[j]), "2*%s - %s = %s" % (names[j], names[j], names[j]), "0*%s = 0" % names[j]])
        lines.insert(rng.randint(0, len(lines)), t)
    kw = {}
    if cls == "many" and rng.random() < 0.5:
        used = [j for j in range(n) if any(row[j] != 0 for row in A)]
        kw["target"] = [names[rng.choice([j for j in used if j >= 10] or used)]]
    elif cls in ("under", "over") and rng.random() < 0.3 and dense_names(variables, names):
        t = list(names); rng.shuffle(t); kw["target"] = t[:rng.randint(1, n)]
    return {"variables": variables, "names": names, "text": "\n".join(lines), "kind": kind, "kw": kw, "redundant": False, "cls": cls}


def prep_solvex(rng, hist, stream_id):
    from mystic import symbolic as S
    g = gen_solvex_case(rng)
    names = g["names"]; n = len(names); cls = g["cls"]
    in_lines = U.lines_of(g["text"])
    in_items = [U.translate_line(l, names) for l in in_lines]
    in_tls = check_translation(in_lines, in_items, names, rng)
    common.seed_mystic(rng)
    try:
        out = guarded(S.solve, g["text"], variables=g["variables"], _limit=5, **g["kw"])
    except Exception as exc:
        key = "solvex:%s:raises:%s" % (cls, type(exc).__name__)
        hist[key] = hist.get(key, 0) + 1
        return None
    return build_solvex(g, out, in_lines, in_items, in_tls, rng, hist, stream_id)


def build_solvex(g, out, in_lines, in_items, in_tls, rng, hist, stream_id):
    """the record of ONE call `solve(g.text, ...)` that returned `out`"""
    names = g["names"]; n = len(names); cls = g["cls"]
    fi = [U.eq_form(it) for it in in_items]
    rk = U.rank([f[1:] for f in fi]); rka = U.rank([f[1:] + [f[0]] for f in fi])
    consistent = rk == rka
    form = "None" if out is None else ("empty" if isinstance(out, str) and not out.strip() else ("text" if isinstance(out, str) else type(out).__name__))
    key = "solvex:%s:%s:returns-%s" % (cls, "consistent" if consistent else "inconsistent", form)
    hist[key] = hist.get(key, 0) + 1
    rec = {"stream": "solvex", "id": stream_id, "gen": g, "in_lines": in_lines, "in_items": in_items, "in_tls": in_tls,
           "out": out, "names": names, "lines": [], "consistent": consistent, "rk": rk, "form": form}
    if form != "text":
        return rec
    rec["exact"] = exact_regime([g["kind"]], g["text"], [out])
    try:
        out_lines = U.lines_of(out)
        tl = [U.TextLine(l) for l in out_lines]
        bad = sorted(set(nm for t in tl for node in (t.l, t.r) for nm in _names_in(node) if nm not in names))
        if bad:
            rec["foreign"] = bad
            return rec
        out_items = [U.translate_line(l, names) for l in out_lines]
        if any(it[0] != "lin" or it[1] != "eq" for it in out_items):
            raise U.OutsideClass("not a linear equality")
        rec["out_tls"] = check_translation(out_lines, out_items, names, rng)
    except U.OutsideClass as e:
        rec["unparsed"] = str(e)
        return rec
    rec["out_items"] = out_items
    if consistent:
        fo = [U.eq_form(it) for it in out_items]
        A = [U.comb_coeffs(fi, f) for f in fo]
        B = [U.comb_coeffs(fo, f) for f in fi]
        rec["cert"] = None not in A and None not in B
        if rec["cert"]:
            rec["lines"].append("C12 cert (inp %s) (out %s) (A %s) (B %s)" % (U.plines(in_items), U.plines(out_items), U.pmat(A), U.pmat(B)))
    return rec


def post_solvex(rec, replies, rng, hist, findings):
    g = rec["gen"]; names = rec["names"]; n = len(names); cls = g["cls"]
    case = {"stream": "solvex", "id": rec["id"], "class": cls,
            "call": g.get("call") or "solve(%r, variables=%r%s)" % (g["text"], g["variables"], "".join(", %s=%r" % kv for kv in g["kw"].items())),
            "returned": rec["out"], "requests": rec["lines"]}
    if "foreign" in rec:
        findings.append(Finding("monitor", KF_RESTORE, "the returned text mentions %r, which is not among the variables %r" % (rec["foreign"], names), case))
        return True
    if not rec["consistent"]:
        # outside the property (it speaks about consistent systems): only the class of what comes back is counted
        if rec["form"] == "text" and "out_items" in rec:
            fi = [U.eq_form(it) for it in rec["in_items"]]
            lhs = solved_form_ok(rec["out_items"], n)
            sub = "unknown"
            if lhs is not None:
                pt = [Fr(rng.randint(-9, 9), rng.choice([1, 2])) for _ in range(n)]
                for it, i in zip(rec["out_items"], lhs):
                    pt[i] = U.f_eval(it[3], pt)
                ok = [U.f_eval(f, pt) == 0 for f in fi]
                sub = "solves-%d-of-%d-equations" % (sum(ok), len(ok))
            hist["solvex:inconsistent:solved-form:" + sub] = hist.get("solvex:inconsistent:solved-form:" + sub, 0) + 1
        return False
    if rec["form"] in ("empty", "None"):
        if rec["rk"] > 0:
            findings.append(Finding("monitor", "solve/no-result/consistent-system",
                                    "solve returned %r for a consistent system of rank %d" % (rec["out"], rec["rk"]), case))
        else:
            hist["solvex:tautology:empty-solved-form"] = hist.get("solvex:tautology:empty-solved-form", 0) + 1
        return False
    if rec["form"] != "text":
        findings.append(Finding("monitor", "solve/not-a-linear-solved-form", "solve returned %r" % (rec["out"],), case))
        return False
    g2 = dict(g); rec2 = dict(rec, gen=g2, stream="solve")
    before = len(findings)
    nt = post_solve(rec2, replies, rng, hist, findings)
    for f in findings[before:]:
        f["case"]["stream"] = "solvex"; f["case"]["class"] = cls
    return nt


# ------------------------------------------------------------------ stream: seq (third layer: CALL SEQUENCES in one process; the top
# level of simplify against Model/SymbolicTop.lean `simplifyTop`)
KNOWN_KEYS = None


def _known_keys():
    global KNOWN_KEYS
    if KNOWN_KEYS is None:
        KNOWN_KEYS = {KF_OPPOSITE, KF_EMPTY, KF_REDUNDANT, KF_CANCEL, KF_RESTORE, KF_TRIANGULAR, KF_FLAT}
    return KNOWN_KEYS


def gen_seq(rng):
    """a program of calls outside the known-finding classes (opposite bounds with equal sides, abs sign conditions that meet
    an opposite bound: F16) and inside the translator's class"""
    for _ in range(10):
        g = S3.gen_seq_case(rng, gen_rational_line)
        if g["family"] in ("matrix", "bounds", "pipe"):
            return g
        ok = True
        for st in g["steps"]:
            st["etext"] = S3.substitute("\n".join(st["lines"]), st["locals"])
            if opposite_pairs(st["etext"]) or abs_condition_pairs(st["etext"]):
                ok = False; break
            try:
                ctx = X.Ctx(g["names"])
                for l in U.lines_of(st["etext"]):
                    X.translate_x(l, ctx)
            except (U.OutsideClass, ZeroDivisionError):
                ok = False; break
        if ok:
            return g
    return None


def call_text(st, kw):
    shown = dict(kw)
    if "rand" in shown:
        shown["rand"] = "<seeded random.Random(..).random>"
    return "%s(%r, variables=%r%s)" % (st["fn"], st["text"], st["variables"], "".join(", %s=%r" % kv for kv in sorted(shown.items())))


def prep_seq(rng, hist, stream_id):
    import random, numpy, copy
    from mystic import symbolic as S
    g = gen_seq(rng)
    if g is None:
        hist["seq:no-program"] = hist.get("seq:no-program", 0) + 1
        return None
    fam = g["family"]
    seed = common.seed_mystic(rng)
    rec = {"stream": "seq", "id": stream_id, "gen": g, "family": fam, "subs": [], "lines": [], "out": []}
    calls = []
    if fam in ("matrix", "bounds"):
        return prep_seq_tables(rng, hist, stream_id, rec, S)
    if fam == "pipe":
        g = gen_pipe(rng, S, rec, stream_id)
        if g is None:
            hist["seq:pipe:no-text"] = hist.get("seq:pipe:no-text", 0) + 1
            return None
        rec["gen"] = g
        calls = [rec["subs"][0]["call"]]
    names = g["names"]
    tr = S3.TopTrace(S)
    for j, st in enumerate(g["steps"]):
        kw = dict(st["kw"])
        if kw.get("rand") == "seeded":
            kw["rand"] = random.Random(seed + 100 + j).random
        variables = st["variables"]
        pristine = None
        if st["share"] is not None:
            sh = st["share"]
            variables = sh["variables"]
            if sh["target"] is not None:
                kw["target"] = sh["target"]
            kw["locals"] = sh["locals"]
            pristine = copy.deepcopy((sh["variables"], sh["target"], sh["locals"]))
        elif st["locals"]:
            kw["locals"] = dict(st["locals"])
        ctext = call_text(st, kw)
        calls.append(ctext)
        random.seed(seed + j); numpy.random.seed(seed + j)
        fn = S.simplify if st["fn"] == "simplify" else S.solve
        tr.reset()
        sub = {"j": j + len(g.get("pre", [])), "sj": j, "fn": st["fn"], "call": ctext, "calls": list(calls), "rel": g.get("rel0") if (j == 0 and g.get("rel0")) else S3.relation(g["steps"], j), "lines": []}
        try:
            with tr:
                out = guarded(fn, st["text"], variables=variables, _limit=6, **kw)
        except Exception as exc:
            sub["what"] = "raises"; sub["exc"] = type(exc).__name__
            rec["subs"].append(sub)
            continue
        if pristine is not None and pristine != (st["share"]["variables"], st["share"]["target"], st["share"]["locals"]):
            hist["seq:objects:argument-edited-in-place"] = hist.get("seq:objects:argument-edited-in-place", 0) + 1
        sub["out"] = out
        if st["locals"] and st["fn"] == "simplify":
            # (a constant given through locals= that is still spelled out in the returned text has the value of THIS call)
            sb = lambda c: c if c is None else S3.substitute(c, st["locals"])
            out = sb(out) if (out is None or isinstance(out, str)) else tuple(sb(c) for c in out)
        sub["out_eff"] = out
        nk = g["nk"]
        gs = {"kind": g["kind"], "mode": None, "variables": st["variables"], "names": names, "text": st["etext"],
              "kinds": [nk] * len(st["lines"]), "kw": st["kw"], "call": ctext, "cls": "seq", "kind_": nk, "redundant": False,
              "raw_text": st["text"]}
        if st["fn"] == "solve":
            gs["kind"] = nk          # (post_solve reads g["kind"] as the number kind)
            in_lines = U.lines_of(st["etext"])
            in_items = [U.translate_line(l, names) for l in in_lines]
            in_tls = check_translation(in_lines, in_items, names, rng)
            sub["what"] = "solve"
            sub["rec"] = build_solvex(gs, out, in_lines, in_items, in_tls, rng, hist, stream_id)
            sub["lines"] = list(sub["rec"]["lines"])
        else:
            all_flag = bool(st["kw"].get("all", False))
            if all_flag:
                sub["what"] = "simplify-all"
                sub["rec"] = build_simplifyx(gs, out, rng, stream_id, "seq:%s:%s" % (fam, g["kind"]), stream="seq")
                sub["lines"] = list(sub["rec"]["lines"])
            else:
                sub["what"] = "simplify-one"
                sub["gs"] = gs
            # ---- the top level against the model: what absval / _simplify returned in THIS call
            line, want, note = S3.top_request(tr, all_flag, sub["out"])
            fwd = [(dict(k), a) for (_, a, k, _) in tr.parts]
            expect = dict(kw, variables=variables, target=kw.get("target"))
            sub["forwarded"] = all(a == () and k == expect for k, a in fwd)
            sub["nparts"] = len(tr.parts)
            if line is None:
                sub["top_note"] = note
            else:
                sub["top_idx"] = len(sub["lines"]); sub["top_want"] = want
                sub["lines"].append(line)
        rec["subs"].append(sub)
    for sub in rec["subs"]:
        sub["off"] = len(rec["lines"])
        rec["lines"].extend(sub["lines"])
    rec["out"] = [sub.get("out") for sub in rec["subs"]]
    return rec


def gen_pipe(rng, S, rec, stream_id):
    """the text linear_symbolic / symbolic_bounds produce, handed on to simplify (small exact numbers): first the producing
    call (sub-record 0, checked as in the matrix / bounds streams), then 1-2 simplify calls on its text"""
    n = rng.choice([2, 3, 3, 4])
    names = ["x%d" % i for i in range(n)]
    nk = rng.choice(["int", "dyadic"])
    num = (lambda: rng.choice([-5, -3, -2, -1, 1, 1, 2, 3, 4, 7])) if nk == "int" else (lambda: rng.choice([-4.5, -2.0, -1.0, -0.5, 0.25, 1.0, 1.0, 1.5, 2.0, 3.0]))
    sub = {"j": 0, "lines": []}
    if rng.random() < 0.75:
        me = rng.choice([0, 0, 1]); mi = rng.choice([1, 1, 2, 3])
        zero = 0 if nk == "int" else 0.0
        row = lambda: [num() if rng.random() < 0.85 else zero for _ in range(n)]
        A = [row() for _ in range(me)]; G = [row() for _ in range(mi)]
        for r in A + G:
            if all(v == 0 for v in r):
                r[rng.randrange(n)] = num()
        gm = {"names": names, "variables": "x", "kind": "int" if nk == "int" else "float", "A": A, "b": [num() for _ in range(me)],
              "G": G, "h": [num() for _ in range(mi)], "form": rng.choice(["list", "list", "numpy"]), "kwv": rng.choice([None, "x", list(names)])}
        args = matrix_args(gm)
        try:
            out = guarded(S.linear_symbolic, variables=gm["kwv"], **args)
        except Exception:
            return None
        sub.update(what="matrix", fn="linear_symbolic", out=out, rec=build_matrix(gm, args, out, rng, stream_id))
    else:
        lo = [num() if rng.random() < 0.7 else None for _ in range(n)]
        hi = [(l if l is not None else num()) + abs(num()) if rng.random() < 0.7 else None for l in lo]
        gb = {"names": names, "variables": "x", "lo": lo, "hi": hi, "kwv": rng.choice([None, "x", list(names)])}
        try:
            out = guarded(S.symbolic_bounds, list(lo), list(hi), variables=gb["kwv"])
        except Exception:
            return None
        sub.update(what="bounds", fn="symbolic_bounds", out=out, rec=build_bounds(gb, out, rng, stream_id))
    if not isinstance(out, str) or not out.strip():
        return None
    sub["call"] = sub["rec"]["call"]; sub["calls"] = [sub["call"]]; sub["rel"] = "first"; sub["lines"] = list(sub["rec"]["lines"])
    rec["subs"].append(sub)
    lines = U.lines_of(out)
    try:
        ctx = X.Ctx(names)
        for l in lines:
            X.translate_x(l, ctx)
    except (U.OutsideClass, ZeroDivisionError):
        return None
    if opposite_pairs(out):
        return None
    k = rng.choice([1, 1, 2])
    plan = S3.all_plan(rng, max(k, 2))[-k:]
    steps = []
    for j in range(k):
        st = S3.simplify_step(lines, S3.spell_variables(rng, names), S3.gen_kw(rng, names, plan[j], sign_free=True), "same-text", text=out)
        st["etext"] = "\n".join(lines)
        steps.append(st)
    return {"family": "pipe", "kind": "pipe", "nk": nk, "names": names, "steps": steps, "pre": [sub], "rel0": "same:after-" + sub["fn"]}


def prep_seq_tables(rng, hist, stream_id, rec, S):
    """linear_symbolic / symbolic_bounds called several times: the same shapes with other numbers, the same numbers with another
    `variables` spelling or argument form"""
    fam = rec["family"]
    k = rng.choice([2, 3, 3])
    calls = []
    if fam == "matrix":
        g = gen_matrix_case(rng)
        for j in range(k):
            if j:
                g = dict(g, A=[list(r) for r in g["A"]], b=list(g["b"]), G=[list(r) for r in g["G"]], h=list(g["h"]))
                m = rng.random()
                which = rng.choice([w for w in ("A", "b", "G", "h") if g[w]])
                if m < 0.6:
                    tgt = g[which]
                    if which in ("A", "G"):
                        tgt = tgt[rng.randrange(len(tgt))]
                    tgt[rng.randrange(len(tgt))] = gen_number(rng, rng.choice(["int", "float"]) if g["kind"] != "int" else "int")
                    rel = "same-shape:" + which
                elif m < 0.8:
                    g["form"] = rng.choice(["list", "numpy", "flat1", "nestb"]); rel = "same-numbers:form"
                else:
                    dense = g["names"] == ["x%d" % i for i in range(len(g["names"]))]
                    g["kwv"] = rng.choice([None, "x", list(g["names"])]) if dense else list(g["names"]); rel = "same-numbers:variables"
            else:
                rel = "first"
            args = matrix_args(g)
            sub = {"j": j, "fn": "linear_symbolic", "rel": rel, "lines": []}
            try:
                out = guarded(S.linear_symbolic, variables=g["kwv"], **args)
            except Exception as exc:
                sub["what"] = "raises"; sub["exc"] = type(exc).__name__; sub["call"] = "linear_symbolic(...)"; sub["calls"] = list(calls)
                rec["subs"].append(sub); continue
            sub["what"] = "matrix"; sub["out"] = out
            sub["rec"] = build_matrix(g, args, out, rng, stream_id)
            sub["call"] = sub["rec"]["call"]; calls.append(sub["call"]); sub["calls"] = list(calls)
            sub["lines"] = list(sub["rec"]["lines"])
            rec["subs"].append(sub)
    else:
        g = gen_bounds_case(rng)
        for j in range(k):
            if j:
                g = dict(g, lo=list(g["lo"]), hi=list(g["hi"]))
                m = rng.random()
                if m < 0.7:
                    i = rng.randrange(len(g["lo"]))
                    v = gen_number(rng, rng.choice(["int", "float"]))
                    side = rng.choice(["lo", "hi"])
                    other = g["hi" if side == "lo" else "lo"][i]
                    fin = other is not None and not math.isinf(other)
                    if rng.random() < 0.15:
                        v = rng.choice([None, -math.inf if side == "lo" else math.inf])
                    elif fin and ((side == "lo" and v > other) or (side == "hi" and v < other)):
                        v = other
                    g[side][i] = v
                    rel = "same-length:" + side
                else:
                    dense = g["names"] == ["x%d" % i for i in range(len(g["names"]))]
                    g["kwv"] = rng.choice([None, "x", list(g["names"])]) if dense else g["kwv"]; rel = "same-numbers:variables"
            else:
                rel = "first"
            sub = {"j": j, "fn": "symbolic_bounds", "rel": rel, "lines": []}
            try:
                out = guarded(S.symbolic_bounds, list(g["lo"]), list(g["hi"]), variables=g["kwv"])
            except Exception as exc:
                sub["what"] = "raises"; sub["exc"] = type(exc).__name__; sub["call"] = "symbolic_bounds(...)"; sub["calls"] = list(calls)
                rec["subs"].append(sub); continue
            sub["what"] = "bounds"; sub["out"] = out
            sub["rec"] = build_bounds(g, out, rng, stream_id)
            sub["call"] = sub["rec"]["call"]; calls.append(sub["call"]); sub["calls"] = list(calls)
            sub["lines"] = list(sub["rec"]["lines"])
            rec["subs"].append(sub)
    for sub in rec["subs"]:
        sub["off"] = len(rec["lines"])
        rec["lines"].extend(sub["lines"])
    rec["out"] = [sub.get("out") for sub in rec["subs"]]
    return rec


def one_of_cases(single, want_texts, names, rng):
    """is the text `single` one of the cases `want_texts` - literally, or (the property speaks about points) as a set of points:
    equal canonical forms when both are linear, else agreement with one case at sample points"""
    if not isinstance(single, str):
        return False
    got = frozenset(U.lines_of(single))
    if got in [frozenset(U.lines_of(c)) for c in want_texts]:
        return True
    try:
        ctx = X.Ctx(names)
        sp = [[X.translate_x(l, ctx) for l in U.lines_of(c)] for c in [single] + list(want_texts)]
        N = ctx.N
        its = [[X.plain_line(X.densify(it, N)) for it in c] for c in sp]
        if not any(it is None for c in its for it in c):
            cs = [U.canon_sys(c) for c in its]
            exact = not any(looks_rounded(c) for c in [single] + list(want_texts))
            return any(U.same_set(cs[0], c, 0 if exact else TOL) for c in cs[1:])
    except U.OutsideClass:
        pass
    try:
        tl = [[U.TextLine(l) for l in U.lines_of(c)] for c in [single] + list(want_texts)]
    except U.OutsideClass:
        return False
    n = len(names)
    pts = U.corner_points(n) + U.random_points(n, rng, 40)
    vals = [[U.sat_system(c, env_of(names, pt)) for pt in pts] for c in tl]
    return any(v == vals[0] for v in vals[1:])


def post_single(sub, g, rng, hist, findings, peers):
    """simplify without all=True returned ONE case: it must lie inside the input (its sign conditions make it a part of the
    solution set) and be one of the cases an all=True call on the same text returns"""
    gs = sub["gs"]; names = gs["names"]; n = len(names); out = sub["out_eff"]
    case = {"stream": "seq", "kind": gs["kind"], "call": sub["call"], "returned": sub["out"]}
    cases_text = _as_cases(out)
    if empty_lines(cases_text) > 0:
        hist["seq:known-class:" + KF_EMPTY] = hist.get("seq:known-class:" + KF_EMPTY, 0) + 1
        return
    hist["seq:simplify-one:%s" % ("None" if out is None else ("tuple" if isinstance(out, tuple) else "text"))] = \
        hist.get("seq:simplify-one:%s" % ("None" if out is None else ("tuple" if isinstance(out, tuple) else "text")), 0) + 1
    in_lines = U.lines_of(gs["text"])
    try:
        out_tls = [[U.TextLine(l) for l in U.lines_of(c)] for c in cases_text]
    except U.OutsideClass:
        findings.append(Finding("monitor", "simplify/unreadable-output", "simplify returned text the interpreter cannot read: %r" % (out,), case))
        return
    in_tls = [X.XTextLine(l) for l in in_lines]
    exact = exact_regime(gs["kinds"], gs["text"], cases_text)
    ctx = X.Ctx(names)
    in_sparse = [X.translate_x(l, ctx) for l in in_lines]
    out_items = None
    try:
        sp = [[X.translate_x(l, ctx) for l in U.lines_of(c)] for c in cases_text]
        N = ctx.N
        out_items = [[X.plain_line(X.densify(it, N)) for it in c] for c in sp]
        if any(it is None for c in out_items for it in c):
            out_items = None
    except U.OutsideClass:
        pass
    N = ctx.N
    in_items = [X.densify(it, N) for it in in_sparse]
    in_cases = X.expand_x(in_items, N)
    items_all = [ln for c in in_cases for ln in c] + [it for c in (out_items or []) for it in c]
    pts = U.corner_points(n) + U.random_points(n, rng, 20) + U.boundary_points(items_all, n, rng)
    bad = None
    for pt in pts:
        env = env_of(names, pt)
        if not exact and (any(t.margin(env) < MARGIN for c in out_tls for t in c) or (N == n and min([U.item_margin(it, pt) for it in items_all] or [Fr(1)]) < MARGIN)):
            continue
        if U.sat_cases(out_tls, env) and not U.sat_system(in_tls, env):
            bad = pt; break
    if bad is None and exact and out_items is not None:
        pt, done = U.lp_in_A_not_B(out_items, in_cases, N, 0)
        if pt is not None:
            env = env_of(names, pt)
            if U.sat_cases(out_tls, env) and not U.sat_system(in_tls, env):
                bad = pt[:n]
        hist["seq:simplify-one:complete-search"] = hist.get("seq:simplify-one:complete-search", 0) + 1
    if flat_collision(gs.get("raw_text", gs["text"])):
        hist["seq:known-class:" + KF_FLAT] = hist.get("seq:known-class:" + KF_FLAT, 0) + 1
        if bad is not None:
            findings.append(Finding("monitor", KF_FLAT, "the returned case holds but the input does not at %s=%s" % (names, pt_json(bad)), dict(case, point=pt_json(bad))))
        return
    if bad is not None:
        findings.append(Finding("monitor", "one-case-outside-input/%s/%s" % (gs["kind"], "exact" if exact else "toleranced"),
                                "the returned case holds but the input does not at %s=%s" % (names, pt_json(bad)), dict(case, point=pt_json(bad))))
    for peer in peers:       # an all=True call on the same text with the same other keywords
        want = peer["rec"]["out"]
        if isinstance(out, tuple):
            continue
        if (out is None and want and not peer["rec"]["raw_none"]) or (out is not None and not one_of_cases(out, want, names, rng)):
            findings.append(Finding("monitor", "simplify/all-false/not-one-of-the-cases",
                                    "simplify without all=True returned %r, which is none of the cases %r returned by call %d (all=True, same text)" % (out, peer["rec"]["out"], peer["j"]),
                                    dict(case, single=out)))
            break


def post_seq(rec, replies, rng, hist, findings):
    g = rec["gen"]; fam = rec["family"]
    hist["seq:family:" + fam] = hist.get("seq:family:" + fam, 0) + 1
    steps = g.get("steps", [])
    nontrivial = False
    prev_all = None
    for sub in rec["subs"]:
        j = sub["j"]
        reps = replies[sub["off"]: sub["off"] + len(sub["lines"])]
        before = len(findings)
        what = sub["what"]
        hk = "seq:%s:step%d:%s" % (fam, min(j, 3), what if what != "raises" else "raises:" + sub["exc"])
        hist[hk] = hist.get(hk, 0) + 1
        if what == "raises":
            continue
        sj = sub.get("sj", j)
        if sub["fn"] == "simplify":
            st = steps[sj]
            a = "true" if st["kw"].get("all") else ("false" if "all" in st["kw"] else "absent")
            if sj:
                same = [i for i in range(sj) if steps[i]["lines"] == st["lines"] and steps[i]["fn"] == "simplify"]
                if same:
                    p = steps[same[-1]]
                    pa = "true" if p["kw"].get("all") else ("false" if "all" in p["kw"] else "absent")
                    hist["seq:same-text:all:%s->%s" % (pa, a)] = hist.get("seq:same-text:all:%s->%s" % (pa, a), 0) + 1
                    for d in S3.kw_diff(p, st):
                        hist["seq:same-text:changed:" + d] = hist.get("seq:same-text:changed:" + d, 0) + 1
                else:
                    hist["seq:new-text:" + st["rel"]] = hist.get("seq:new-text:" + st["rel"], 0) + 1
        if what == "simplify-all":
            nt = post_simplifyx(sub["rec"], reps, rng, hist, findings)
            if j and len(sub["rec"]["out"]) >= 2:
                nontrivial = True
                hist["seq:later-call-with-sign-cases"] = hist.get("seq:later-call-with-sign-cases", 0) + 1
        elif what == "simplify-one":
            peers = [o for o in rec["subs"] if o["what"] == "simplify-all" and steps[o["sj"]]["lines"] == steps[sj]["lines"]
                     and set(S3.kw_diff(steps[o["sj"]], steps[sj])) <= {"all", "rand", "verbose"}
                     and not (opposite_pairs(steps[sj]["etext"]) or abs_condition_pairs(steps[sj]["etext"]) or flat_collision(steps[sj]["text"])) and o["rec"].get("out_tls") is not None
                     and empty_lines(o["rec"]["out"]) == 0]
            post_single(sub, g, rng, hist, findings, peers)
        elif what == "solve":
            post_solvex(sub["rec"], reps, rng, hist, findings)
            nontrivial = nontrivial or j > 0
        elif what == "matrix":
            post_matrix(sub["rec"], reps, rng, hist, findings)
            nontrivial = nontrivial or j > 0
        elif what == "bounds":
            post_bounds(sub["rec"], reps, rng, hist, findings)
            nontrivial = nontrivial or j > 0
        # ---- the top level of simplify against the model
        if sub["fn"] == "simplify":
            case = {"stream": "seq", "call": sub["call"], "returned": sub["out"]}
            if not sub["forwarded"]:
                findings.append(Finding("correspondence", "simplify-top/keywords-not-forwarded",
                                        "_simplify was not called with the caller's keywords plus variables= and target=", case))
            if "top_idx" in sub:
                rep = reps[sub["top_idx"]]
                ok = rep == sub["top_want"] or (sub["out"] == "" and rep == "ok kind=empty cases=()")
                hist["seq:top:%s" % ("agrees" if ok else "diverges")] = hist.get("seq:top:%s" % ("agrees" if ok else "diverges"), 0) + 1
                hist["seq:top:_simplify-calls=%d" % min(sub["nparts"], 5)] = hist.get("seq:top:_simplify-calls=%d" % min(sub["nparts"], 5), 0) + 1
                if not ok:
                    findings.append(Finding("correspondence", "simplify-top/model-diverges",
                                            "simplify returned %r; the model of its top level on the values absval / _simplify returned in this call: %s (expected %s); "
                                            "_simplify was called %d time(s)" % (sub["out"], rep, sub["top_want"], sub["nparts"]),
                                            dict(case, request=sub["lines"][sub["top_idx"]], reply=rep)))
            else:
                hist["seq:top:not-comparable"] = hist.get("seq:top:not-comparable", 0) + 1
        # ---- findings of this call carry the sequence
        for f in findings[before:]:
            if f["class_key"] not in _known_keys():
                f["class_key"] = "seq/%s/%s" % (sub["rel"], f["class_key"])
            f["case"]["stream"] = "seq"; f["case"]["id"] = rec["id"]; f["case"]["family"] = fam; f["case"]["step"] = j
            f["case"]["sequence"] = sub["calls"]
            f["what"] = "call %d of the sequence %r: %s" % (j + 1, sub["calls"], f["what"])
    return nontrivial


# ------------------------------------------------------------------ stream: merge / _flip (literal models)
INV = {"lt": "<", "le": "<=", "gt": ">", "ge": ">=", "eq": "=", "ne": "!="}


def prep_merge(rng, hist, stream_id):
    from mystic import symbolic as S
    ne = rng.choice([1, 1, 2, 3])
    k = rng.choice([1, 2, 2, 3, 4, 5])
    tl = [(rng.randrange(ne), rng.choice(["lt", "le", "gt", "ge", "lt", "le", "gt", "ge", "eq", "ne"])) for _ in range(k)]
    incl = rng.random() < 0.5
    sides = [("A", "0"), ("B - 1", "C"), ("2*x0 + x1", "3.5")]
    texts = ["%s %s %s" % (sides[e][0], INV[c], sides[e][1]) for e, c in tl]
    out = S.merge(*texts, inclusive=incl)
    if out is None:
        got = None
    else:
        got = set()
        for t in out:
            try:
                l, c, r = U.split_line(t)
                got.add(([s[0] for s in sides].index(l), c))
            except (U.OutsideClass, ValueError):
                got.add((-1, t))
    line = "C12 merge (inclusive %s) (eqs (%s))" % ("true" if incl else "false", " ".join("(%d %s)" % (e, c) for e, c in tl))
    return {"stream": "merge", "id": stream_id, "tl": tl, "incl": incl, "texts": texts, "out": out, "got": got, "lines": [line]}


def post_merge(rec, replies, rng, hist, findings):
    r = parse_reply(replies[0])
    if r[0] != "ok":
        raise HarnessBug("driver replied %r" % (replies[0],))
    model = None if "none" in r[2] else set((int(t[0]), t[1]) for t in r[1]["out"])
    mirror = merge_incl_abs(rec["tl"]) if rec["incl"] else merge_excl_abs(rec["tl"])
    mirror = None if mirror is None else set(mirror)
    case = {"stream": "merge", "id": rec["id"], "call": "merge(*%r, inclusive=%r)" % (rec["texts"], rec["incl"]), "returned": rec["out"],
            "requests": rec["lines"], "model": replies[0]}
    tag = "merge:%s:%s" % ("inclusive" if rec["incl"] else "exclusive", "None" if rec["got"] is None else ("changed" if rec["got"] != set(rec["tl"]) else "same"))
    hist[tag] = hist.get(tag, 0) + 1
    if model != rec["got"]:
        findings.append(Finding("correspondence", "merge/model-diverges", "merge returned %r, the Lean model %r" % (rec["out"], replies[0]), case))
    if mirror != model:
        raise HarnessBug("python mirror of merge differs from the Lean model: %r" % (case,))
    return rec["got"] is None or rec["got"] != set(rec["tl"])


def flip_cases():
    """exhaustive: _flip on every comparator text, both modes, against Cmp.flip / Cmp.flipB; flip() on a line"""
    from mystic import symbolic as S
    findings = []
    lines = ["C12 flip (cmp %s)" % U.CMP_NAME[c] for c in CMP_TEXT]
    reps = leandrv.run_driver(lines)
    for c, rep in zip(CMP_TEXT, reps):
        r = parse_reply(rep)
        a = S._flip(c); b = S._flip(c, bounds=True)
        if U.CMP_NAME.get(a) != r[1]["flip"] or U.CMP_NAME.get(b) != r[1]["flipB"] or (c in ("=", "==", "!=") and (a != c or b != c)):
            findings.append(Finding("correspondence", "_flip/model-diverges", "_flip(%r) = %r, _flip(%r, True) = %r, model %s" % (c, a, c, b, rep),
                                    {"stream": "flip", "cmp": c}))
        t = "2*x0 - x1 %s 3" % c
        if S.flip(t) != "2*x0 - x1 %s 3" % a or S.comparator(t) != c:
            findings.append(Finding("correspondence", "flip/text", "flip(%r) = %r, comparator = %r" % (t, S.flip(t), S.comparator(t)), {"stream": "flip", "cmp": c}))
    return findings, len(lines)


CTOK = {"<=": "le", "<": "lt", ">=": "ge", ">": "gt", "!=": "ne", "==": "eqeq", "=": "eq"}
CTOK_ORDER = ["<=", "<", ">=", ">", "!=", "==", "="]


def core_cases():
    """finite tables, exhaustively: comparator (every single comparator text, every ordered pair, none), equals
    (before / after in {True, False, ZeroDivisionError} x error flag x comparator) with the flip decision of _simplify1,
    flip(bounds=True) on a line, merge (both tables) on EVERY list of <= 2 lines over two texts and <= 3 over one"""
    import itertools
    from mystic import symbolic as S
    findings = []; hist = {}
    lines = []; checks = []
    # ---- comparator
    texts = ["2*x0 + x1"] + ["2*x0 - x1 %s 3" % t for t in CTOK_ORDER] + \
            ["x0 %s x1 %s 3" % (a, b) for a in CTOK_ORDER for b in CTOK_ORDER] + ["x0 %s 3 - x1%s" % (a, a) for a in CTOK_ORDER]
    for t in texts:
        flags = ["true" if tok in t else "false" for tok in CTOK_ORDER]
        lines.append("C12 comparator (toks (%s))" % " ".join(flags))
        got = S.comparator(t)
        checks.append(("comparator", t, CTOK.get(got, "none")))
    for tok in CTOK_ORDER:     # monitor: a line with one comparator text
        if S.comparator("2*x0 - x1 %s 3" % tok) != tok:
            findings.append(Finding("monitor", "comparator/single-token", "comparator(%r) = %r" % ("2*x0 - x1 %s 3" % tok, S.comparator("2*x0 - x1 %s 3" % tok)),
                                    {"stream": "core", "text": "2*x0 - x1 %s 3" % tok}))
    # ---- equals + flip decision
    TXT = {"true": ["x0 %s 1", {"<": "x0 < 1", "<=": "x0 <= 1", ">": "x0 > -1", ">=": "x0 >= -1"}],
           "false": [None, {"<": "x0 < -1", "<=": "x0 <= -1", ">": "x0 > 1", ">=": "x0 >= 1"}],
           "zde": [None, {"<": "1/x1 < 1", "<=": "x0/x1 <= 1", ">": "1/(2*x1) > 1", ">=": "3/x1 >= 1"}]}
    for cmp in ["<", "<=", ">", ">="]:
        for bk in ("true", "false", "zde"):
            for ak in ("true", "false", "zde"):
                for errors in (True, False):
                    before = TXT[bk][1][cmp]; after = TXT[ak][1][cmp]
                    try:
                        res = S.equals(before, after, {"x0": 0.0, "x1": 0.0}, error=errors, variables="x")
                        res = "true" if res is True else ("false" if res is False else repr(res))
                    except ZeroDivisionError:
                        res = "zde"
                    lines.append("C12 equals (errors %s) (before %s) (after %s) (cmp %s)" % ("true" if errors else "false", bk, ak, U.CMP_NAME[cmp]))
                    checks.append(("equals", (before, after, errors), res))
                    # monitor (the specification of equals on evaluable texts): agreement of the two truth values
                    if bk != "zde" and ak != "zde" and res != ("true" if bk == ak else "false"):
                        findings.append(Finding("monitor", "equals/truth-values", "equals(%r, %r) = %s" % (before, after, res), {"stream": "core", "before": before, "after": after}))
                    # monitor (docstring: "error: if False, ZeroDivisionError evaluates as None"; default: the error propagates)
                    if (bk == "zde" or ak == "zde") and res != ("zde" if errors else ("true" if bk == ak else "false")):
                        findings.append(Finding("monitor", "equals/zero-division", "equals(%r, %r, x0=0, x1=0, error=%r) = %s" % (before, after, errors, res),
                                                {"stream": "core", "before": before, "after": after, "error": errors}))
    # ---- merge, exhaustively
    sides = [("A", "0"), ("B - 1", "C")]
    cm = ["lt", "le", "gt", "ge", "eq", "ne"]
    alph1 = [(0, c) for c in cm]; alph2 = alph1 + [(1, c) for c in cm]
    lists = [list(t) for k in (1, 2) for t in itertools.product(alph2, repeat=k)] + [list(t) for t in itertools.product(alph1, repeat=3)]
    for tl in lists:
        for incl in (True, False):
            txt = ["%s %s %s" % (sides[e][0], INV[c], sides[e][1]) for e, c in tl]
            out = S.merge(*txt, inclusive=incl)
            try:
                got = None if out is None else set((([x[0] for x in sides].index(U.split_line(t)[0])), U.split_line(t)[1]) for t in out)
            except (U.OutsideClass, ValueError):
                findings.append(Finding("monitor", "merge/unreadable-output", "merge(*%r, inclusive=%r) = %r" % (txt, incl, out), {"stream": "core", "texts": txt}))
                continue
            lines.append("C12 merge (inclusive %s) (eqs (%s))" % ("true" if incl else "false", " ".join("(%d %s)" % (e, c) for e, c in tl)))
            checks.append(("merge", (txt, incl), got))
            # monitor (property of the exclusive table on the abstract level): the result is implied by the lines' conjunction and implies it
            if not incl:
                for A in (Fr(-1), Fr(0), Fr(1)):
                    for BC in ((Fr(0), Fr(0)), (Fr(2), Fr(0)), (Fr(0), Fr(2))):
                        val = {0: (A, Fr(0)), 1: (BC[0] - 1, BC[1])}
                        want = all(U.cmp_holds(c, *val[e]) for e, c in tl)
                        have = False if got is None else all(U.cmp_holds(c, *val[e]) for e, c in got)
                        if want != have:
                            findings.append(Finding("monitor", "merge/exclusive-changes-the-conjunction",
                                                    "merge(*%r, inclusive=False) = %r: lines hold=%r, result holds=%r at A=%s B=%s C=%s" % (txt, out, want, have, A, BC[0], BC[1]),
                                                    {"stream": "core", "texts": txt}))
                            break
                    else:
                        continue
                    break
    reps = leandrv.run_driver(lines)
    for (what, arg, got), rep in zip(checks, reps):
        r = parse_reply(rep)
        hist["core:" + what] = hist.get("core:" + what, 0) + 1
        if what == "comparator":
            model = r[1]["cmp"]
        elif what == "equals":
            model = r[1]["res"]
        else:
            model = None if "none" in r[2] else set((int(t[0]), t[1]) for t in r[1]["out"])
        if model != got:
            findings.append(Finding("correspondence", "%s/model-diverges" % what, "%s%r = %r, the Lean model %s" % (what, arg, got, rep), {"stream": "core", "what": what, "arg": repr(arg)}))
    # ---- flip(bounds=True) on a line
    for c in CMP_TEXT:
        t = "2*x0 - x1 %s 3" % c
        want = {"<": ">=", "<=": ">", ">": "<=", ">=": "<"}.get(c, c)
        if S.flip(t, bounds=True) != "2*x0 - x1 %s 3" % want:
            findings.append(Finding("monitor", "flip/bounds-is-the-complement", "flip(%r, bounds=True) = %r" % (t, S.flip(t, bounds=True)), {"stream": "core", "text": t}))
    return findings, len(lines), hist


# ------------------------------------------------------------------ shard
STREAMS = {"simplify": (prep_simplify, post_simplify), "solve": (prep_solve, post_solve), "matrix": (prep_matrix, post_matrix),
           "bounds": (prep_bounds, post_bounds), "merge": (prep_merge, post_merge),
           "simplifyx": (prep_simplifyx, post_simplifyx), "solvex": (prep_solvex, post_solvex), "seq": (prep_seq, post_seq)}


def plan(ncases):
    return [("simplify", ncases), ("solve", max(1, ncases // 3)), ("matrix", max(1, ncases // 3)),
            ("bounds", max(1, ncases // 3)), ("merge", max(1, ncases // 2)),
            ("simplifyx", max(1, ncases // 2)), ("solvex", max(1, ncases // 4)), ("seq", max(1, ncases // 5))]


def run_cases(ids, hist, findings):
    """ids: list of (stream, seed, shard, k). returns (evaluations, nontrivial, nlines, samples)"""
    recs = []
    lines = []
    for stream, seed, shard, k in ids:
        rng = case_rng(PID + "/" + stream, seed, shard, k)
        rec = STREAMS[stream][0](rng, hist, {"stream": stream, "seed": seed, "shard": shard, "k": k})
        if rec is None:
            continue
        rec["rng"] = rng
        rec["off"] = len(lines)
        lines.extend(rec["lines"])
        recs.append(rec)
    replies = leandrv.run_driver(lines)
    nontrivial = 0
    samples = []
    for rec in recs:
        reps = replies[rec["off"]: rec["off"] + len(rec["lines"])]
        nt = STREAMS[rec["stream"]][1](rec, reps, rec["rng"], hist, findings)
        if nt:
            nontrivial += 1
            if len(samples) < 2 and rec["stream"] == "simplify" and len(rec["out"]) >= 2:
                samples.append(dict(case_of(rec), model=reps[0][:600]))
    return len(recs), nontrivial, len(lines), samples


def run_shard(pid, seed, shard, ncases, tier, extra):
    common.import_mystic()
    hist = {}; findings = []
    ids = [(stream, seed, shard, k) for stream, cnt in plan(ncases) for k in range(cnt)]
    ev, nt, nl, samples = run_cases(ids, hist, findings)
    if shard == 0:
        ff, n = flip_cases()
        findings.extend(ff); nl += n; ev += n
        hist["_flip:exhaustive"] = n
        ff, n, h2 = core_cases()
        findings.extend(ff); nl += n; ev += n
        hist.update(h2)
    return {"evaluations": ev, "nontrivial": nt, "model_lines": nl, "findings": findings, "samples": samples, "hist": hist}


# ------------------------------------------------------------------ known-finding witnesses (run first)
WITNESSES = [("-1000000000000000000000001*x0 - 13 + 1000000000000000000000007*x0 > -1\nx1 > 0", KF_CANCEL),
             ("-1000000000000000000000 + 25*x0 < -1000000000000000000000\nx1 > 0", KF_CANCEL),
             ("x0 >= 1\nx0 <= 1\nx1 > 0", KF_OPPOSITE), ("x0 > 1\nx0 < 1\nx1 > 0", KF_OPPOSITE), ("x0 >= 1\nx0 < 1\nx1 > 0", KF_OPPOSITE),
             ("(-5)/x0 = 0\nx1 > 0", KF_EMPTY), ("(-12.0)/(6.0*x0) = 1500000000000000.0\nx1 > 0", KF_EMPTY),
             ("(-2)/((-2)*x0) >= 3\nx1 > 0", KF_FLAT), ("(2.5) + 4/((2.5)*x0 - 1) < 3\nx1 > 0", KF_FLAT)]


def witnesses():
    """F16: opposite bounds with literally the same sides are merged as a union; F17: an equality for which sympy finds
    no solution comes back as an empty line. Replayed on the implementation on every run."""
    common.import_mystic()
    from mystic import symbolic as S
    findings = []
    names = ["x0", "x1"]
    for w, key in WITNESSES:
        import random as _r
        _r.seed(0)
        out = S.simplify(w, all=True)
        cases = [] if out is None else ([out] if isinstance(out, str) else list(out))
        in_tls = [U.TextLine(l) for l in U.lines_of(w)]
        out_tls = [[U.TextLine(l) for l in U.lines_of(c)] for c in cases]
        for pt in ([Fr(5), Fr(1)], [Fr(1), Fr(1)], [Fr(0), Fr(1)], [Fr(-1), Fr(1)], [Fr(-1, 750000000000000), Fr(1)]):
            env = env_of(names, pt)
            a = U.sat_system(in_tls, env); b = U.sat_cases(out_tls, env)
            if a != b:
                findings.append(Finding("monitor", key, "simplify(%r, all=True) = %r: input holds=%r, result holds=%r at x=%s" % (w, out, a, b, pt_json(pt)),
                                        {"stream": "witness", "call": "simplify(%r, all=True)" % w, "returned": out, "point": pt_json(pt)}))
                break
    w = "0.1*x0 + 0.3*x1 = 0.7\n0.2*x0 + 0.6*x1 = 1.4"
    out = S.solve(w)
    pt = [(Fr(0.7) - Fr(0.3)) / Fr(0.1), Fr(1)]
    env = env_of(names, pt)
    if isinstance(out, str):
        a = U.sat_system([U.TextLine(l) for l in U.lines_of(w)], env)
        b = U.sat_system([U.TextLine(l) for l in U.lines_of(out)], env)
        if a != b:
            findings.append(Finding("monitor", KF_REDUNDANT, "solve(%r) = %r: input holds=%r, result holds=%r at x=%s" % (w, out, a, b, pt_json(pt)),
                                    {"stream": "witness", "call": "solve(%r)" % w, "returned": out, "point": pt_json(pt)}))
    # F42: float coefficients, redundant equations: lines that are not back-substituted
    w = "0.5*x2 + 2.0*x0 - 0.5*x1 = -4.0\n-0.5*x2 - x0 = 3.0\n4.0*x0 = x1 - 6.0\n2.0*x2 + x1 + 2.0*x0 = -10.0"
    with contextlib.redirect_stdout(io.StringIO()):
        out = S.solve(w)
    if isinstance(out, str) and out.strip():
        try:
            its = [U.translate_line(l, ["x0", "x1", "x2"]) for l in U.lines_of(out)]
            if solved_form_ok(its, 3) is None and isolated_vars(its, 3) is not None:
                findings.append(Finding("monitor", KF_TRIANGULAR, "solve(%r) = %r: not back-substituted" % (w, out), {"stream": "witness", "call": "solve(%r)" % w, "returned": out}))
        except U.OutsideClass:
            pass
    # F41: more than ten named variables, `_10` restored by the replacement for `_1`
    nm = ["p", "q", "r", "s", "t", "u", "w", "y", "z", "aa", "bb", "cc"]
    for fn, w, kw in ((S.solve, "bb - q = 3", {"target": ["bb"]}), (S.simplify, "bb - q = 3\np >= 1", {"target": ["bb"], "all": True})):
        try:
            with contextlib.redirect_stdout(io.StringIO()):
                out = fn(w, variables=list(nm), **kw)
        except Exception:
            continue
        if isinstance(out, str):
            bad = sorted(set(x for l in U.lines_of(out) for t in [U.TextLine(l)] for node in (t.l, t.r) for x in _names_in(node) if x not in nm))
            if bad:
                findings.append(Finding("monitor", KF_RESTORE, "%s(%r, variables=%r, %s) = %r mentions %r, which are not variables" % (fn.__name__, w, nm, kw, out, bad),
                                        {"stream": "witness", "call": "%s(%r, variables=%r, **%r)" % (fn.__name__, w, nm, kw), "returned": out}))
    return findings


RULE = ("cases: simplify(all=True) on 1-4 (5 with an added pair) lines over 1-5 variables (x/y-indexed incl. sparse and two-digit indices, explicit name "
        "lists), linear lines with every comparator (< <= > >= = == !=), coefficients integer (small .. 1e25, exact through sympy Rational), "
        "binary-exact floats, general floats incl. 1e20 / 1e-20 (toleranced stream), terms on both sides, repeated variables, "
        "parenthesised factors, rational lines affine/(c*x_k [+d]) cmp const incl. mirrored and shifted, opposite bounds, "
        "cycle= / target= ; solve on consistent systems of 1-3 equalities incl. redundant ones; linear_symbolic / symbolic_bounds on "
        "random matrices / boxes incl. 1e300, 5e-324, -0.0, None/inf sides, equal sides, numpy / flat / nested argument forms, 11-12 variables; "
        "merge on random line lists (both tables); _flip exhaustively. non-trivial = simplify returned >= 2 sign cases or changed "
        "the multiset of comparators (a flip / a merge happened); solve with >= 2 equations or a coupled equation; matrix with >= 2 rows; "
        "bounds with a finite side; merge that changed its input. exact regime = integer / binary-exact coefficients and no printed literal "
        "with >= 14 significant digits: there the Lean validator must ACCEPT, and any point (incl. exact boundary points) separating input "
        "and output is a failing input; toleranced regime = sample points farther than 1e-6 (relative) from every boundary only, "
        "plus the python twin of the validator with relative tolerance 1e-9 (reported in the histogram). "
        "SECOND LAYER (stream simplifyx, Lean validateX): rational lines whose divisor is affine in 2-3 variables; divisors "
        "(a*x_i+b)*(c*x_j+d) (four sign cases; the monomial x_i*x_j is an extra variable of the linear forms); lines with one or two "
        "abs(affine) terms incl. abs on the right side and abs(..)/x_k (absval pre-pass); chained systems of equalities and inequalities "
        "sharing variables; keywords all=False (monitor: the answer is one of the cases of all=True), rand=, target= with a single name, "
        "variables= with unused extra names, cycle=; 11-13 variables, x-indexed or a list of names (F41). Stream solvex: over-determined, "
        "under-determined, inconsistent (outside the property: classes counted only), tautological systems, 11-13 named variables. "
        "core tables, exhaustively on shard 0: comparator on every single comparator text / ordered pair / none, equals on "
        "{True, False, ZeroDivisionError}^2 x error flag x comparator, flip(bounds=True), merge (both tables) on every list of <= 2 lines "
        "over two texts and of 3 lines over one text. non-trivial (simplifyx) = >= 2 cases, or a chained / many-variable system. "
        "THIRD LAYER (stream seq, Lean simplifyTop): programs of 2-4 calls in ONE process, every call checked against ITS OWN input: "
        "the same text with other keywords in every order (all absent / False / True - in particular not-True first, True later -, "
        "cycle, target as permutation / single name, variables as base name / list / list with unused names, rand=, verbose=, the text "
        "laid out plainly / indented / with trailing blanks); variants of the text in turn (one comparator changed, one literal negated, "
        "a line dropped / added / replaced, lines reversed, variables renamed, back to the first text); the SAME list / dict objects "
        "passed as variables= / target= / locals= to every call; a constant given through locals= with another value or sign in the "
        "next call; consistent systems of equalities through solve and simplify in turn with other targets / right-hand sides / one "
        "coefficient changed; linear_symbolic / symbolic_bounds repeated with one number, the argument form or variables= changed. "
        "A call without all=True must return ONE case that lies inside its input (sample points, then complete exact LP search) and is "
        "one of the cases of an all=True call on the same text. Per simplify call the values absval / _simplify returned in THAT call "
        "(recorded through the module-level names) go to the Lean model of simplify's top level, whose answer must be what simplify "
        "returned; the keywords _simplify receives must be the caller's. non-trivial (seq) = a call after the first that returned >= 2 "
        "sign cases with all=True, or a later solve / linear_symbolic / symbolic_bounds call.")


def main(tier, seed):
    t0 = time.time()
    proof = framework.proof_stage(PID, MODULE, THEOREMS, tier)
    nshards, per = (16, 100) if tier == "quick" else (64, 300)
    run = framework.run_shards("c12", "run_shard", PID, seed, nshards, per, tier)
    run["findings"] = witnesses() + run["findings"]

    def search_more():
        r = framework.run_shards("c12", "run_shard", PID, seed + 7919, 16, 60, tier)
        return r["findings"]
    tb = ["Lean 4.33 kernel; axioms per theorem listed under coverage.theorems (propext, Classical.choice, Quot.sound only)",
          "the validators validate / solveOK / sameSystem (Model/Symbolic.lean) are proved sound for every system over every linearly ordered field; "
          "the driver runs them at Lean's Rat on the exact rational value of every literal",
          "UNTRUSTED but checked on every case: the python translator text -> linear forms (harness/c12_util.py), compared at exact "
          "random points with an independent interpreter of the text (python ast + Fraction)",
          "the reading of a text line: python precedence via ast; a float literal denotes the binary64 python would use, an integer "
          "literal the integer; a ZeroDivisionError means 'not satisfied'",
          "merge / _flip / comparator / equals (+ the flip decision of _simplify1): literal Lean models tied to the code by differential "
          "comparison, exhaustively over the finite tables",
          "validateX (Model/Symbolic2.lean): absolute values and product divisors; for a product divisor the theorem is about points of the "
          "extended space in which the extra variable equals the monomial it stands for, which every real point extends to uniquely",
          "simplifyTop (Model/SymbolicTop.lean): the top level of simplify (absval cases -> one _simplify per case with the caller's "
          "keywords -> flatten -> select) as a function of the values of THIS call; tied to the code by recording absval / _simplify / "
          "random.randint through the module-level names on every simplify call of the seq stream",
          "sympy and the string surgery inside simplify/solve are NOT modelled: their output is validated per run, nothing is proved about them"]
    assumptions = ["theorems are about real-closed-free ordered-field semantics; binary64 rounding of the evaluation of a constraint is outside the property",
                   "general float coefficients make sympy print 15-digit roundings: those cases are only checked away from the boundaries (toleranced stream)",
                   "the validator is sound, not complete: a rejection is followed by a separating-point search; no rejection without a separating point "
                   "occurs on the unchanged tree for the generated class"]
    return framework.finish(PID, tier, seed, t0, proof, run, RULE, tb, assumptions, search_more=search_more)


def replay(path):
    """re-execute exactly one stored case (implementation + validator) and print the verdict"""
    common.import_mystic()
    data = json.load(open(path))
    case = data.get("case") or (data.get("correspondence_not_checking") or [{}])[0].get("case", {})
    cid = case.get("id")
    findings = []; hist = {}
    if case.get("stream") in ("core", "flip"):
        findings = core_cases()[0] + flip_cases()[0]
    elif case.get("stream") == "witness" or cid is None:
        findings = witnesses()
    else:
        run_cases([(cid["stream"], cid["seed"], cid["shard"], cid["k"])], hist, findings)
    known = {e["class_key"] for e in framework.load_known(PID)}
    rc = 0
    for f in findings:
        if f["class_key"] in known:
            print("KNOWN-FINDING: property=%s %s [%s]" % (PID, f["what"], f["class_key"]))
        else:
            print("VIOLATION property=%s replay=%s%s" % (PID, path, "" if f["kind"] == "monitor" else " no-failing-input-found"))
            print("  " + f["what"])
            rc = 1
    if not findings:
        print("replay: no finding reproduced (%s)" % (json.dumps(hist),))
    return rc
