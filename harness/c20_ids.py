"""C20, ids through the parameter files (streams `idfile` and `idex` of harness/c20.py).

The clause: "write_support_file / write_raw_file / write_converge_file output can be read back by the matching
readers to the same trajectory" - the same parameters, the same costs and, entry by entry, the id that was
recorded with `mon(x, y, id)`.

What is generated: ONE monitor per case whose recorded id sequence is taken from a family of patterns (no ids, one
id, blocks, round robin, palindromes, equal ends around different ids, one entry that differs at the front / the
back / inside, None around / inside ints, increasing, decreasing, random) - or, in the exhaustive stream, EVERY id
sequence up to a length over a small alphabet - built by direct calls or by `+` / extend / prepend of the monitors
of the blocks; 1-4 parameters, scalar or vector costs, special floats, k in {None, +-2^n}; optionally a header
and extra keywords for the writers.  The monitor is written by each of the three writers and every file is read by
`read_raw_file`, by the MATCHING reader (`read_support_file`, `read_converge_file`), with and without `iter`, and
by `read_history`.

Monitor (the property on the real code, from the ARGUMENTS of the calls): the id column read back is the recorded
id sequence, the iteration number of an entry is the number of earlier entries with the same id, there is one entry
per record, the decoded parameters and the costs are the recorded ones, `iter=False` returns the same data, and
writing leaves the monitor unchanged.
Correspondence: the same program on Model/Monitor + Model/MungeFormats (`prog` with the file ops `wraw wsup wconv
rsup rconv rhist`) and the `id = ...` entry found in the file text against `idsWritten` / `processIds`
(`idfile`)."""
import os, itertools, importlib
import c20 as H

WRITERS = [("write_raw_file", "read_raw_file", "wraw", None),
           ("write_support_file", "read_support_file", "wsup", "rsup"),
           ("write_converge_file", "read_converge_file", "wconv", "rconv")]
NSLOTS = {"quick": 16, "thorough": 64}


def idclass(ids):
    """configuration class of a recorded id sequence (part of the class keys)"""
    if not ids:
        return "no-records"
    if all(i is None for i in ids):
        return "no-ids"
    if all(i == ids[0] for i in ids):
        return "one-id"
    s = "ends-equal" if ids[0] == ids[-1] else "ends-differ"
    return "several-ids/" + s + ("/with-None" if any(i is None for i in ids) else "")


def per_id_iter(ids):
    return [ids[:i].count(j) for i, j in enumerate(ids)]


def id_column(steps, n):
    """the id of every entry of the `iter` list of a reader: (iteration,) has none"""
    if steps is None:
        return [None] * n
    return [(tuple(s)[1] if len(s) > 1 else None) for s in steps]


def exhaustive_patterns(tier):
    """every id sequence of length <= 4 over {None, 0, 1, 2} and of length 5, 6 over {None, 0, 1}; the thorough tier
    adds length 5 over four and length 7 over three symbols.  The order is fixed: a pattern index is a replay key."""
    out = []
    for n in range(0, 5):
        out += [list(t) for t in itertools.product([None, 0, 1, 2], repeat=n)]
    for n in (5, 6):
        out += [list(t) for t in itertools.product([None, 0, 1], repeat=n)]
    if tier != "quick":
        out += [list(t) for t in itertools.product([None, 0, 1, 2], repeat=5)]
        out += [list(t) for t in itertools.product([None, 0, 1], repeat=7)]
    return out


PATTERN_KINDS = ["none", "constant", "constant", "blocks", "blocks", "roundrobin", "roundrobin", "palindrome", "palindrome",
                 "ends-equal", "ends-equal", "ends-equal", "first-differs", "last-differs", "middle-differs",
                 "none-at-ends", "none-at-ends", "none-inside", "none-first", "none-last", "increasing", "decreasing", "random", "random"]


def gen_id_pattern(rng):
    n = rng.choice([1, 2, 2, 3, 3, 3, 4, 4, 4, 5, 6, 8, 12])
    pool = list(rng.choice([[0, 1], [0, 1, 2], [3, 5], [0, 7, -1], [2, 0, 1, 10 ** 6], [0, 1, 2, 3, 4], [-3, 0]]))
    rng.shuffle(pool)
    a, b = pool[0], pool[1]
    kind = rng.choice(PATTERN_KINDS)
    if kind == "none":
        ids = [None] * n
    elif kind == "constant":
        ids = [a] * n
    elif kind == "blocks":
        ids = []
        while len(ids) < n:
            nxt = rng.choice([v for v in pool + [None] if not ids or v != ids[-1]])
            ids += [nxt] * rng.randint(1, max(1, n // 2))
        ids = ids[:n]
    elif kind == "roundrobin":
        m = rng.randint(2, len(pool))
        ids = [pool[i % m] for i in range(n)]
    elif kind == "palindrome":
        half = [rng.choice(pool) for _ in range(n // 2)]
        ids = half + ([rng.choice(pool + [None])] if n % 2 else []) + half[::-1]
    elif kind == "ends-equal":
        mid = [rng.choice(pool + [None]) for _ in range(max(0, n - 2))]
        if mid and all(v == a for v in mid):
            mid[rng.randrange(len(mid))] = b
        ids = [a] + mid + ([a] if n > 1 else [])
    elif kind == "first-differs":
        ids = ([b] + [a] * (n - 1))
    elif kind == "last-differs":
        ids = ([a] * (n - 1) + [b])
    elif kind == "middle-differs":
        ids = [a] * n
        if n >= 3:
            ids[rng.randint(1, n - 2)] = rng.choice([b, None])
    elif kind == "none-at-ends":
        ids = [None] + [rng.choice(pool) for _ in range(max(0, n - 2))] + ([None] if n > 1 else [])
    elif kind == "none-inside":
        ids = [rng.choice([a, b]) for _ in range(n)]
        for _ in range(rng.randint(1, 2)):
            if n >= 3:
                ids[rng.randint(1, n - 2)] = None
    elif kind == "none-first":
        ids = [None] + [a] * (n - 1)
    elif kind == "none-last":
        ids = [a] * (n - 1) + [None]
    elif kind == "increasing":
        ids = list(range(n))
    elif kind == "decreasing":
        ids = list(range(n))[::-1]
    else:
        ids = [rng.choice(pool + [None]) for _ in range(n)]
    return kind, ids


def steps_tok(ids):
    if ids is None:
        return "none"
    return [[str(int(t[0]))] if len(t) == 1 else [str(int(t[0])), H.idtok(t[1])] for t in ids]


def gen_value(rng, k, special_ok=True):
    """a python float that survives `(y * k) / k` and repr/eval exactly"""
    r = rng.random()
    if k is None:
        if r < 0.3 and special_ok:
            return rng.choice(H.SPECIALS)
        if r < 0.5:
            return rng.uniform(-1, 1) * 10.0 ** rng.randint(-12, 12)
        return H.dyadic(rng, -8, 8, 8)
    if r < 0.25 and special_ok:
        return rng.choice([H.INF, -H.INF, H.NAN, 0.0, -0.0, 1e250, -1e-250])
    return H.dyadic(rng, -8, 8, 8)


def split_blocks(rng, n):
    """2-3 consecutive blocks (possibly empty) covering range(n)"""
    cuts = sorted(rng.randint(0, n) for _ in range(rng.choice([1, 1, 2])))
    edges = [0] + cuts + [n]
    return [(edges[i], edges[i + 1]) for i in range(len(edges) - 1)]


def run_idfile(rng, tmpdir, tag, ids=None, pname="exhaustive"):
    """returns dict(lines=[(kind, line, expected, readable)], findings=[(kind, key, what)], readable=[..], hist={..})"""
    from mystic import munge
    from mystic.monitors import Monitor
    fs = []; hist = {}; readable = []

    def h(key, n=1):
        hist[key] = hist.get(key, 0) + n

    def find(kind, key, what):
        """the first finding of a case is reported: the same file read through the next reader, or the same id entry
        written by the next writer, would only multiply the class keys of one mechanism (listed known findings are always recorded)"""
        if key in H.KNOWN_KEYS or not any(f[1] not in H.KNOWN_KEYS for f in fs):
            fs.append((kind, key, what))

    if ids is None:
        pname, ids = gen_id_pattern(rng)
    n = len(ids)
    icl = idclass(ids)
    h("idfile:pattern:" + pname); h("idfile:ids:" + icl); h("idfile:records:%s" % (n if n < 5 else "5+"))
    dim = rng.choice([1, 2, 2, 3, 4])
    k = rng.choice([None, None, None, None, 1, -1, 2, 0.5, 4.0, -2])
    vcost = rng.random() < 0.2
    ncost = rng.choice([1, 2, 3])
    xs = [[gen_value(rng, None) for _ in range(dim)] for _ in range(n)]
    if rng.random() < 0.15:
        xs = [[float(int(v)) if v == v and abs(v) < 1e6 else v for v in x] for x in xs]
    ys = [([gen_value(rng, k) for _ in range(ncost)] if vcost else gen_value(rng, k)) for _ in range(n)]
    wantx = [H.pv_of(x) for x in xs]; wanty = [H.pv_of(y) for y in ys]
    kw = {} if k is None else {"k": k}
    ops = []

    def new(r):
        ops.append("(new %d %s nolog)" % (r, H.ktok(k)))
        return Monitor(**kw)

    np_ids = rng.random() < 0.05 and any(i is not None for i in ids)     # ids as numpy integers (e.g. taken from numpy.arange)
    if np_ids:
        h("idfile:numpy-integer-ids")

    def call(m, r, j):
        x = list(xs[j]); y = list(ys[j]) if vcost else ys[j]
        i = ids[j] if not np_ids or ids[j] is None else H.np.int64(ids[j])
        if vcost and rng.random() < 0.5:
            y = tuple(y)
        if i is None and rng.random() < 0.5:
            m(x, y)
        else:
            m(x, y, i) if rng.random() < 0.5 else m(x, y, id=i)
        ops.append("(call %d %s %s %s)" % (r, H.tstr(wantx[j]), H.tstr(wanty[j]), H.idtok(ids[j])))

    reg = 0
    mode = "calls" if (n < 2 or rng.random() < 0.7) else rng.choice(["add", "extend", "prepend"])
    h("idfile:built-by:" + mode)
    with H.quiet():
        if mode == "calls":
            m = new(0)
            for j in range(n):
                call(m, 0, j)
        else:
            blocks = split_blocks(rng, n)
            parts = []
            for r, (lo, hi) in enumerate(blocks, start=1):
                p = new(r)
                for j in range(lo, hi):
                    call(p, r, j)
                parts.append(p)
            if mode == "add":
                m = parts[0] + parts[1]
                ops.append("(add 0 1 2)")
                if len(parts) == 3:
                    m = m + parts[2]
                    ops.append("(add 0 0 3)")
            elif mode == "extend":
                m = parts[0]; reg = 1
                for r in range(1, len(parts)):
                    m.extend(parts[r]); ops.append("(extend 1 %d)" % (r + 1))
            else:
                m = parts[-1]; reg = len(parts)
                for r in range(len(parts) - 2, -1, -1):
                    m.prepend(parts[r]); ops.append("(prepend %d %d)" % (len(parts), r + 1))
    readable.append("Monitor(k=%r) with ids %r%s (pattern %s, built by %s), %d parameter(s), %s costs"
                    % (k, ids, " as numpy.int64" if np_ids else "", pname, mode, dim, "vector" if vcost else "scalar"))
    # the monitor itself (C20, first clause) - the files are compared with the ARGUMENTS, so say when the monitor is already off
    try:
        okm = len(m) == n and list(m.id) == ids and H.same_tok([H.pv_of(v) for v in m.x], wantx) and H.same_tok([H.pv_of(v) for v in m.y], wanty)
    except Exception:
        okm = False
    if not okm:
        find("monitor", "Monitor/records-wrong/built-by-%s" % mode, "monitor built by %s: ids %r x %r y %r, recorded ids %r x %r y %r" % (mode, m.id, m.x, m.y, ids, xs, ys))
        return {"lines": [], "findings": fs, "readable": readable, "hist": hist}
    wkw = {}
    if rng.random() < 0.3:
        wkw["header"] = rng.choice(["run %d" % rng.randint(0, 99), "solver = Powell; k = 2", "# twice", "id = 7", "x" * 40])
    if rng.random() < 0.25:
        wkw[rng.choice(["npts", "ndim", "label_", "Best"])] = rng.choice([4, -1, 2.5, [1, 2], (3,), [[1.0], [2.0]]])
    if wkw:
        h("idfile:writer-keywords")
        readable.append("writer keywords %r" % (wkw,))
    def check_steps(s2, rids, note=""):
        """the clause on one `iter` list: one entry per record, the recorded id with every entry, one counter per id"""
        try:
            cnt = None if rids is None else len(rids)
            col = id_column(rids, n)
            its = list(range(n)) if rids is None else [int(tuple(s)[0]) for s in rids]
        except Exception as exc:
            find("monitor", "%s/iter-entries-unreadable" % s2, "ids %r: iter list %r (%r)" % (ids, rids, exc))
            return
        if (cnt is None and n > 0) or (cnt is not None and cnt != n):
            find("monitor", "%s/iterations-count" % s2, "ids %r: %r iteration entries %r for %d records" % (ids, cnt, rids, n))
        elif col != ids:
            find("monitor", "%s/ids-changed/%s" % (s2, icl), "recorded ids %r, read back %r (iter list %r)%s" % (ids, col, rids, note))
        elif its != per_id_iter(ids):
            find("monitor", "%s/iteration-numbers-wrong/%s" % (s2, icl), "recorded ids %r: iteration numbers %r, expected one counter per id %r"
                 % (ids, its, per_id_iter(ids)))
        h("idfile:read:" + s2)

    expects = []        # per file op: expected token tree
    seen_entry = {}
    for writer, reader, wop, rop in WRITERS:
        path = os.path.join(tmpdir, "c20i_%s_%s.py" % (tag, wop))
        site = "%s->%s" % (writer, reader)
        try:
            with H.quiet():
                getattr(munge, writer)(m, path, **dict(wkw))
                importlib.invalidate_caches()
                text = open(path).read()
                raw_it = munge.read_raw_file(path, iter=True)
                raw_no = munge.read_raw_file(path)
                mat_it = getattr(munge, reader)(path, iter=True)
                mat_no = getattr(munge, reader)(path)
                his_it = munge.read_history(path, iter=True)
        except Exception as exc:
            if np_ids and isinstance(exc, NameError) and "np" in str(exc) and icl.startswith("several-ids"):
                # the numpy-2 repr of numpy integers in the id LIST of a parameter file (listed finding).  Inside the class the
                # strongest true statement is still checked: the id entry of the file, evaluated with numpy at hand, is the
                # recorded id sequence
                try:
                    line = [l for l in open(path).read().split("\n") if l.startswith("id = ")][-1]
                    back = [None if v is None else int(v) for v in eval(line[5:], {"np": H.np})]
                except Exception as exc2:
                    line, back = "?", repr(exc2)
                if back != ids:
                    find("monitor", "%s/id-entry-wrong/numpy-integer-ids" % writer, "recorded ids %r, the file says %r" % (ids, line))
                else:
                    find("monitor", H.KEY_D2I % writer, "%s of a monitor whose ids are the numpy integers %r wrote %r; reading the file raised %r" % (writer, ids, line, exc))
                h("idfile:numpy-integer-ids:unreadable")
                H.forget_module(path)
                continue
            H.forget_module(path)
            find("monitor", "%s/raises" % site, "ids %r%s: %r" % (ids, " keywords %r" % (wkw,) if wkw else "", exc))
            break
        H.forget_module(path)
        h("idfile:files:" + wop)
        # ---- what was written for the ids
        entry = [l for l in text.split("\n") if l.startswith("id = ")]
        try:
            if not entry:
                seen_entry[writer] = "absent"
            else:
                v = eval(entry[-1][5:], {})
                seen_entry[writer] = ["single", H.idtok(v)] if not isinstance(v, list) else ["many"] + [H.idtok(u) for u in v]
        except Exception as exc:
            find("monitor", "%s/id-entry-unreadable" % writer, "file line %r (%r)" % (entry, exc))
        # ---- normalise the two reads of the matching reader
        try:
            if rop is None:
                m_ids, m_par, m_cost = mat_it
                mn_par, mn_cost = mat_no
            else:
                m_ids, (m_par, m_cost) = mat_it
                mn_par, mn_cost = mat_no
            r_ids, r_par, r_cost = raw_it
            rn_par, rn_cost = raw_no
        except Exception as exc:
            find("monitor", "%s/result-shape" % site, "ids %r: read %r / %r (%r)" % (ids, mat_it, raw_it, exc))
            break
        # ---- tokens for the model
        try:
            d3 = wop != "wraw"
            tp = [[[H.f2b(float(u)) for u in cell] for cell in row] for row in r_par] if d3 else [H.pv_of(p) for p in r_par]
            expects.append((wop, ["f", steps_tok(r_ids), tp, [H.pv_of(c) for c in r_cost]], "%s -> read_raw_file(iter=True)" % writer))
            if rop:
                tpm = [[[H.f2b(float(u)) for u in cell] for cell in row] for row in m_par]
                expects.append((rop, ["f", steps_tok(m_ids), tpm, [H.pv_of(c) for c in m_cost]], "%s -> %s(iter=True)" % (writer, reader)))
        except Exception as exc:
            find("monitor", "%s/result-shape" % site, "ids %r: read %r / %r (%r)" % (ids, mat_it, raw_it, exc))
            break
        # ---- the property, on every read
        reads = [("read_raw_file", r_ids)] + ([(reader, m_ids)] if rop else [])     # the matching reader of the raw format IS read_raw_file
        for rname, rids in reads + [("read_history", his_it[0] if isinstance(his_it, tuple) and len(his_it) == 3 else "?")]:
            check_steps("%s->%s" % (writer, rname), rids, " (the file says %r)" % (entry[-1] if entry else "no id entry",))
        try:
            if rop is None:
                dec_r = [H.pv_of(p) for p in r_par]; dec_m = [H.pv_of(p) for p in m_par]
            elif wop == "wsup":
                dec_r = [["v"] + [H.f2b(float(r_par[j][i][0])) for j in range(dim)] for i in range(n)] if n else ([] if list(r_par) == [] else None)
                dec_m = [["v"] + [H.f2b(float(m_par[0][j][i])) for j in range(dim)] for i in range(n)] if n else ([] if list(m_par) == [] else None)
                if n and not (len(r_par) == dim and all(len(row) == n and all(len(c) == 1 for c in row) for row in r_par)
                              and len(m_par) == 1 and len(m_par[0]) == dim and all(len(c) == n for c in m_par[0])):
                    dec_r = None
            else:
                dec_r = [["v"] + [H.f2b(float(r_par[i][j][0])) for j in range(dim)] for i in range(n)]
                dec_m = [["v"] + [H.f2b(float(m_par[i][0][j])) for j in range(dim)] for i in range(n)]
                if not (len(r_par) == n and all(len(row) == dim and all(len(c) == 1 for c in row) for row in r_par)
                        and len(m_par) == n and all(len(row) == 1 and len(row[0]) == dim for row in m_par)):
                    dec_r = None
        except Exception:
            dec_r = dec_m = None
        if dec_r is None or not H.same_tok(dec_r, wantx):
            find("monitor", "%s->read_raw_file/trajectory-wrong" % writer, "read %r, recorded %r" % (r_par, xs))
        elif dec_m is None or not H.same_tok(dec_m, wantx):
            find("monitor", "%s/trajectory-wrong" % site, "read %r, recorded %r" % (m_par, xs))
        for rname, cost in (("read_raw_file", r_cost), (reader, m_cost)):
            try:
                okc = H.same_tok([H.pv_of(c) for c in cost], wanty)
            except Exception:
                okc = False
            if not okc:
                find("monitor", "%s->%s/cost-wrong" % (writer, rname), "k=%r: read %r, recorded %r" % (k, cost, ys))
        # iter=False returns the same data; read_history on the file returns what read_raw_file returns
        try:
            same_no = (H.same_tok(H.nest_tok(rn_par, H.ftok), H.nest_tok(r_par, H.ftok)) and H.same_tok(H.nest_tok(rn_cost, H.ftok), H.nest_tok(r_cost, H.ftok))
                       and H.same_tok(H.nest_tok(mn_par, H.ftok), H.nest_tok(m_par, H.ftok)) and H.same_tok(H.nest_tok(mn_cost, H.ftok), H.nest_tok(m_cost, H.ftok)))
            same_his = (his_it[0] is None) == (r_ids is None) and (r_ids is None or [tuple(t) for t in his_it[0]] == [tuple(t) for t in r_ids]) \
                and H.same_tok(H.nest_tok(his_it[1], H.ftok), H.nest_tok(r_par, H.ftok)) and H.same_tok(H.nest_tok(his_it[2], H.ftok), H.nest_tok(r_cost, H.ftok))
        except Exception:
            same_no = same_his = False
        if not same_no:
            find("monitor", "%s/iter=False-differs-from-iter=True" % site, "iter=False: %r / %r, iter=True: %r / %r" % (raw_no, mat_no, raw_it, mat_it))
        if not same_his:
            find("monitor", "%s->read_history/differs-from-read_raw_file" % writer, "read_history %r, read_raw_file %r" % (his_it, raw_it))
    # the writers and readers must not have touched the monitor
    try:
        okm = len(m) == n and list(m.id) == ids and H.same_tok([H.pv_of(v) for v in m.x], wantx) and H.same_tok([H.pv_of(v) for v in m.y], wanty)
    except Exception:
        okm = False
    if not okm:
        find("monitor", "munge.write_*/alters-monitor", "after writing: ids %r x %r y %r, recorded ids %r x %r y %r" % (m.id, m.x, m.y, ids, xs, ys))
    # the monitor's own id list through the readers that take a monitor
    lines = []
    try:
        with H.quiet():
            tr = munge.read_trajectories(m, iter=True)
            rh = munge.read_history(m, iter=True)
        for rname, rids in (("read_trajectories(monitor)", tr[0]), ("read_history(monitor)", rh[0])):
            if n:
                check_steps(rname, rids)
        if n:
            lines.append(("idpidsl", "C20 pidsl (ids (%s)) (n %d)" % (" ".join(H.idtok(i) for i in ids), n), steps_tok(tr[0]), "read_trajectories(monitor, iter=True)"))
        expects.append(("rhist", ["f", steps_tok(rh[0]), [[[H.f2b(float(u)) for u in cell] for cell in row] for row in rh[1]], [H.pv_of(c) for c in rh[2]]],
                        "read_history(monitor, iter=True)"))
    except Exception as exc:
        find("monitor", "read_history(monitor)/raises", "ids %r: %r" % (ids, exc))
    prog = "C20 prog (nreg 4) (ops (%s))" % " ".join(ops + ["(%s %d)" % (op, reg) for op, _, _ in expects])
    lines.append(("idprog", prog, (len(ops), [e for _, e, _ in expects], [w for _, _, w in expects]), "program"))
    lines.append(("identry", "C20 idfile (ids (%s))" % " ".join(H.idtok(i) for i in ids), seen_entry, "id entry"))
    return {"lines": lines, "findings": fs, "readable": readable, "hist": hist, "ids": ids}
