"""C12, second layer: translator / python twin for the extended validator (Model/Symbolic2.lean `validateX`):
absolute values (the absval pre-pass of simplify), divisors affine in several variables, divisors that are a product
of two single-variable factors (the monomial x_i*x_j becomes an extra variable of the linear forms), and the generators of
the `simplifyx` / `solvex` / core-table streams of harness/c12.py.  Nothing here imports mystic."""
import ast
from fractions import Fraction as Fr
import c12_util as U

ABS0 = 10 ** 6          # atoms >= ABS0 stand for abs(...) sub-expressions inside the translator


class Ctx:
    """names of the real variables + the table of monomials (i, j) -> index of the extra variable"""

    def __init__(self, names):
        self.names = list(names)
        self.n = len(names)
        self.idx = {nm: i for i, nm in enumerate(names)}
        self.monos = {}
        self.abs = []        # inner affine polynomials of the abs atoms of the line being translated

    def mono(self, i, j):
        key = (min(i, j), max(i, j))
        if key not in self.monos:
            self.monos[key] = self.n + len(self.monos)
        return self.monos[key]

    @property
    def N(self):
        return self.n + len(self.monos)

    def ext(self, pt):
        """real point -> point of the extended space (monomial values appended)"""
        out = list(pt) + [Fr(0)] * len(self.monos)
        for (i, j), m in self.monos.items():
            out[m] = pt[i] * pt[j]
        return out


def rfx(node, ctx):
    """rational function (N, D) of an expression; abs(e) with e a polynomial becomes an atom"""
    if isinstance(node, ast.Call):
        if isinstance(node.func, ast.Name) and node.func.id == "abs" and len(node.args) == 1 and not node.keywords:
            n, d = rfx(node.args[0], ctx)
            if not U.p_isconst(d) or any(a >= ABS0 for m in n for a in m) or U.p_deg(n) > 1:
                raise U.OutsideClass("abs of a non-affine expression")
            n = U.p_scale(n, 1 / d[()])
            if n in ctx.abs:
                k = ctx.abs.index(n)
            else:
                ctx.abs.append(n); k = len(ctx.abs) - 1
            return {(ABS0 + k,): Fr(1)}, {(): Fr(1)}
        raise U.OutsideClass("call")
    if isinstance(node, ast.Constant):
        v = node.value
        if isinstance(v, bool) or not isinstance(v, (int, float)):
            raise U.OutsideClass("constant")
        return U.p_const(Fr(v)), {(): Fr(1)}
    if isinstance(node, ast.Name):
        if node.id not in ctx.idx:
            raise U.OutsideClass("name %r" % node.id)
        return {(ctx.idx[node.id],): Fr(1)}, {(): Fr(1)}
    if isinstance(node, ast.UnaryOp):
        n, d = rfx(node.operand, ctx)
        if isinstance(node.op, ast.USub):
            return U.p_scale(n, -1), d
        if isinstance(node.op, ast.UAdd):
            return n, d
        raise U.OutsideClass("unary")
    if isinstance(node, ast.BinOp):
        n1, d1 = rfx(node.left, ctx)
        n2, d2 = rfx(node.right, ctx)
        if isinstance(node.op, (ast.Add, ast.Sub)):
            s = 1 if isinstance(node.op, ast.Add) else -1
            if d1 == d2:
                return U._norm(U.p_add(n1, n2, s), d1)
            return U._norm(U.p_add(U.p_mul(n1, d2), U.p_mul(n2, d1), s), U.p_mul(d1, d2))
        if isinstance(node.op, ast.Mult):
            return U._norm(U.p_mul(n1, n2), U.p_mul(d1, d2))
        if isinstance(node.op, ast.Div):
            if not n2:
                raise U.OutsideClass("division by the constant zero")
            return U._norm(U.p_mul(n1, d2), U.p_mul(d1, n2))
        if isinstance(node.op, ast.Pow):
            if isinstance(node.right, ast.Constant) and node.right.value == 2:
                return U._norm(U.p_mul(n1, n1), U.p_mul(d1, d1))
            raise U.OutsideClass("pow")
        raise U.OutsideClass("binop")
    raise U.OutsideClass("node %s" % type(node).__name__)


def split_abs(poly):
    """-> (polynomial without abs atoms, {k: coefficient of abs atom k}); abs atoms must occur linearly"""
    rest = {}; co = {}
    for m, c in poly.items():
        ab = [a for a in m if a >= ABS0]
        if not ab:
            rest[m] = c
        elif len(m) == 1:
            co[m[0] - ABS0] = co.get(m[0] - ABS0, 0) + c
        else:
            raise U.OutsideClass("abs(...) multiplied by a variable")
    return rest, co


def sform(poly, ctx):
    """polynomial of degree <= 2 without abs atoms -> sparse form {0: const, k+1: coefficient of variable k}"""
    f = {}
    for m, c in poly.items():
        if any(a >= ABS0 for a in m) or len(m) > 2:
            raise U.OutsideClass("degree > 2")
        k = 0 if m == () else (m[0] + 1 if len(m) == 1 else ctx.mono(m[0], m[1]) + 1)
        f[k] = f.get(k, 0) + c
    return f


def factor2(D):
    """D = (a*x_i + b) * (c*x_j + d) with i != j -> (a, b, i, c, d, j) or None"""
    two = [m for m in D if len(m) == 2]
    if len(two) != 1 or two[0][0] == two[0][1] or any(len(m) > 2 for m in D):
        return None
    i, j = two[0]
    if any(len(m) == 1 and m[0] not in (i, j) for m in D):
        return None
    mm = D[two[0]]; u = D.get((i,), Fr(0)); v = D.get((j,), Fr(0)); w = D.get((), Fr(0))
    # (mm*x_i + v) * (x_j + u/mm) = mm x_i x_j + u x_i + v x_j + u v / mm
    if w != u * v / mm:
        return None
    return (mm, v, i, Fr(1), u / mm, j)


def translate_x(text, ctx):
    """one line -> sparse extended item:
       ('absl', [(c, inner sparse form)], ('lin', cmp, L, R) | ('rat', cmp, P, Q, r))  |  ('rat2', cmp, P, a, b, i, c, d, j, m, r)"""
    ctx.abs = []
    l, c, r = U.split_line(text)
    nl, dl = rfx(U._parse(l), ctx)
    nr, dr = rfx(U._parse(r), ctx)
    inner = lambda: [sform(p, ctx) for p in ctx.abs]

    def with_abs(P, base_of):
        rest, co = split_abs(P)
        inn = inner()
        return rest, [(co[k], inn[k]) for k in sorted(co) if co[k] != 0]
    if U.p_isconst(dl) and U.p_isconst(dr):
        L, co1 = split_abs(nl); R, co2 = split_abs(nr)
        inn = inner()
        ts = [(co1.get(k, 0) - co2.get(k, 0), inn[k]) for k in range(len(inn)) if co1.get(k, 0) - co2.get(k, 0) != 0]
        return ("absl", ts, ("lin", c, sform(L, ctx), sform(R, ctx)))
    if U.p_isconst(dr) and U.p_isconst(nr):
        P, D, rr, cc = nl, dl, nr.get((), Fr(0)), c
    elif U.p_isconst(dl) and U.p_isconst(nl):
        P, D, rr, cc = nr, dr, nl.get((), Fr(0)), U.FLIP[c]
    else:
        if dl == dr:
            P, D = U.p_add(nl, nr, -1), dl
        else:
            P, D = U.p_add(U.p_mul(nl, dr), U.p_mul(nr, dl), -1), U.p_mul(dl, dr)
        rr, cc = Fr(0), c
    if any(a >= ABS0 for m in D for a in m):
        raise U.OutsideClass("abs in a divisor")
    P, co = split_abs(P)
    inn = inner()
    ts = [(co[k], inn[k]) for k in sorted(co) if co[k] != 0]
    if U.p_deg(D) == 1 and U.p_deg(P) <= 1:
        return ("absl", ts, ("rat", cc, sform(P, ctx), sform(D, ctx), rr))
    fac = factor2(D)
    if fac is not None and not ts and U.p_deg(P) <= 1:
        a, b, i, c2, d, j = fac
        return ("rat2", cc, sform(P, ctx), a, b, i, c2, d, j, ctx.mono(i, j), rr)
    raise U.OutsideClass("divisor outside the class: %r" % (text,))


def dense(f, N):
    out = [Fr(0)] * (N + 1)
    for k, v in f.items():
        out[k] = Fr(v)
    return out


def densify(it, N):
    if it[0] == "absl":
        b = it[2]
        base = ("lin", b[1], dense(b[2], N), dense(b[3], N)) if b[0] == "lin" else ("rat", b[1], dense(b[2], N), dense(b[3], N), b[4])
        return ("absl", [(c, dense(a, N)) for c, a in it[1]], base)
    return ("rat2", it[1], dense(it[2], N)) + tuple(it[3:])


def plain_line(it):
    """an extended item that is a plain linear line -> ('lin', cmp, L, R) (for the returned text), else None"""
    if it[0] == "absl" and not it[1] and it[2][0] == "lin":
        return it[2]
    return None


# ------------------------------------------------------------------ evaluation (translator check), python twin of expandX
def xitem_holds(it, x):
    """x: point of the extended space"""
    if it[0] == "absl":
        s = sum(c * abs(U.f_eval(a, x)) for c, a in it[1])
        b = it[2]
        if b[0] == "lin":
            return U.cmp_holds(b[1], U.f_eval(b[2], x) + s, U.f_eval(b[3], x))
        q = U.f_eval(b[3], x)
        return q != 0 and U.cmp_holds(b[1], (U.f_eval(b[2], x) + s) / q, b[4])
    _, cmp, P, a, b, i, c, d, j, m, r = it
    q = (a * x[i] + b) * (c * x[j] + d)
    return q != 0 and U.cmp_holds(cmp, U.f_eval(P, x) / q, r)


def _unit(N, k, a, b=0):
    f = [Fr(0)] * (N + 1); f[0] = Fr(b); f[k + 1] = Fr(a); return f


def _addf(f, g, s=1):
    return [x + s * y for x, y in zip(f, g)]


def expand_xitem(it, N):
    zero = [Fr(0)] * (N + 1)
    if it[0] == "absl":
        cases = [([], it[2])]
        for c, a in it[1]:
            new = []
            for conds, b in cases:
                for sg, cond in ((1, "ge"), (-1, "le")):
                    add = [sg * c * v for v in a]
                    b2 = (b[0], b[1], _addf(b[2], add)) + tuple(b[3:])
                    new.append((conds + [("lin", cond, a, zero)], b2))
            cases = new
        out = []
        for conds, b in cases:
            for alt in U.expand([b], N):
                out.append(conds + alt)
        return out
    _, cmp, P, a, b, i, c, d, j, m, r = it
    q1 = _unit(N, i, a, b); q2 = _unit(N, j, c, d)
    Q = _addf(_addf(_unit(N, m, a * c), _unit(N, i, a * d)), _unit(N, j, b * c, b * d))
    rQ = [r * v for v in Q]
    if cmp in ("eq", "ne"):
        return [[("lin", "ne", q1, zero), ("lin", "ne", q2, zero), ("lin", cmp, P, rQ)]]
    fl = U.FLIP[cmp]
    return [[("lin", "gt", q1, zero), ("lin", "gt", q2, zero), ("lin", cmp, P, rQ)],
            [("lin", "gt", q1, zero), ("lin", "lt", q2, zero), ("lin", fl, P, rQ)],
            [("lin", "lt", q1, zero), ("lin", "gt", q2, zero), ("lin", fl, P, rQ)],
            [("lin", "lt", q1, zero), ("lin", "lt", q2, zero), ("lin", cmp, P, rQ)]]


def expand_x(items, N):
    cases = [[]]
    for it in items:
        alts = expand_xitem(it, N)
        cases = [s + a for s in cases for a in alts]
    return cases


def pxitem(it):
    if it[0] == "absl":
        return "(absl (%s) %s)" % (" ".join("(%s %s)" % (U.pnum(c), U.pform(a)) for c, a in it[1]), U.pitem(it[2]))
    _, cmp, P, a, b, i, c, d, j, m, r = it
    return "(rat2 %s %s %s %s %d %s %s %d %d %s)" % (cmp, U.pform(P), U.pnum(a), U.pnum(b), i, U.pnum(c), U.pnum(d), j, m, U.pnum(r))


# ------------------------------------------------------------------ interpreter with abs (python's abs on exact values)
def ev_abs(node, env):
    """U.ev extended with abs(...)"""
    if isinstance(node, ast.Call):
        if isinstance(node.func, ast.Name) and node.func.id == "abs" and len(node.args) == 1:
            return abs(ev_abs(node.args[0], env))
        raise U.OutsideClass("call")
    if isinstance(node, ast.UnaryOp):
        v = ev_abs(node.operand, env)
        return -v if isinstance(node.op, ast.USub) else v
    if isinstance(node, ast.BinOp):
        a = ev_abs(node.left, env); b = ev_abs(node.right, env)
        if isinstance(node.op, ast.Add):
            return a + b
        if isinstance(node.op, ast.Sub):
            return a - b
        if isinstance(node.op, ast.Mult):
            return a * b
        if isinstance(node.op, ast.Div):
            if b == 0:
                raise ZeroDivisionError
            return a / b
        if isinstance(node.op, ast.Pow):
            if b.denominator == 1 and 0 <= b <= 4:
                return a ** int(b)
            raise U.OutsideClass("pow")
        raise U.OutsideClass("binop")
    return U.ev(node, env)


class XTextLine(U.TextLine):
    """a relation that may contain abs(...)"""

    def holds(self, env):
        try:
            return U.cmp_holds(self.cmp, ev_abs(self.l, env), ev_abs(self.r, env))
        except ZeroDivisionError:
            return False

    def margin(self, env):
        return Fr(1)


# ------------------------------------------------------------------ generators
def coef(rng, kind, unit=0.35):
    if rng.random() < unit:
        v = 1
    elif kind == "int":
        v = rng.choice([2, 3, 4, 5, 7, 10, 12])
    else:
        v = rng.choice([0.5, 0.25, 2.0, 1.5, 4.0, 0.75])
    return v if rng.random() < 0.55 else -v


def cst(rng, kind):
    v = rng.randint(1, 12) if kind == "int" else rng.randint(1, 48) / 4.0
    return v if rng.random() < 0.55 else -v


def fmt_term(c, name):
    mag = abs(c)
    s = repr(mag)
    body = name if mag == 1 else "%s*%s" % (s, name)
    return (c < 0, body)


def join(rng, terms, const=None):
    parts = list(terms)
    if const is not None and const != 0:
        parts.append((const < 0, repr(abs(const))))
    rng.shuffle(parts)
    if not parts:
        return "0"
    out = ""
    for k, (neg, body) in enumerate(parts):
        if k == 0:
            out = ("-" + body) if neg else body
        else:
            out += (" - " if neg else " + ") + body
    return out


def affine_text(rng, names, vs, kind, const_p=0.6):
    terms = [fmt_term(coef(rng, kind), names[i]) for i in vs]
    c = cst(rng, kind) if rng.random() < const_p else None
    return join(rng, terms, c)


INEQ = ["<", "<=", ">", ">="]
ALLC = ["<", "<=", ">", ">=", "<", "<=", ">", ">=", "=", "!="]


def gen_multidiv(rng, names, kind):
    """affine / (affine in 2-3 variables) cmp const"""
    n = len(names)
    dv = rng.sample(range(n), min(n, rng.choice([2, 2, 3])))
    others = [i for i in range(n) if i not in dv] or [dv[0]]
    num = affine_text(rng, names, rng.sample(others, rng.randint(1, min(2, len(others)))), kind)
    den = affine_text(rng, names, dv, kind, 0.4)
    r = cst(rng, kind)
    cmp = rng.choice(ALLC)
    q = "(%s)/(%s)" % (num, den)
    return ("%s %s %s" % (q, cmp, repr(r))) if rng.random() < 0.8 else ("%s %s %s" % (repr(r), cmp, q))


def gen_prod(rng, names, kind):
    """affine / ((a*x_i + b)*(c*x_j + d)) cmp const, i != j, numerator over other variables"""
    n = len(names)
    i, j = rng.sample(range(n), 2)
    others = [k for k in range(n) if k not in (i, j)]
    if others and rng.random() < 0.8:
        num = affine_text(rng, names, rng.sample(others, 1), kind)
        num = num if num.replace("_", "a").isalnum() else "(%s)" % num
    else:
        num = repr(abs(cst(rng, kind)))

    def fac(k):
        if rng.random() < 0.5:
            return names[k]
        return "(%s)" % affine_text(rng, names, [k], kind, 1.0)
    r = cst(rng, kind)
    cmp = rng.choice(ALLC)
    den = "(%s*%s)" % (fac(i), fac(j))
    return "%s/%s %s %s" % (num, den, cmp, repr(r))


def gen_abs(rng, names, kind):
    """c1*abs(affine) [+ c2*abs(affine)] + affine cmp affine ; now and then abs on the right or abs(...)/x_k"""
    n = len(names)
    k = rng.random()
    nabs = 1 if k < 0.7 else 2
    parts = []
    for _ in range(nabs):
        inner = affine_text(rng, names, rng.sample(range(n), rng.randint(1, min(2, n))), kind)
        c = coef(rng, kind, 0.6)
        parts.append((c < 0, ("abs(%s)" % inner) if abs(c) == 1 else "%s*abs(%s)" % (repr(abs(c)), inner)))
    cmp = rng.choice(ALLC)
    m = rng.random()
    if m < 0.15 and n >= 2:
        d = rng.randrange(n)
        return "%s/%s %s %s" % (parts[0][1], names[d], cmp, repr(cst(rng, kind)))
    extra = [fmt_term(coef(rng, kind), names[i]) for i in rng.sample(range(n), rng.randint(0, min(2, n)))] if rng.random() < 0.5 else []
    lhs = join(rng, parts + extra, cst(rng, kind) if rng.random() < 0.3 else None)
    rhs = repr(cst(rng, kind)) if rng.random() < 0.6 else affine_text(rng, names, rng.sample(range(n), 1), kind)
    if m > 0.85:
        lhs, rhs = rhs, lhs
    return "%s %s %s" % (lhs, cmp, rhs)


def gen_lin(rng, names, kind, vs=None, cmp=None):
    n = len(names)
    vs = vs if vs is not None else rng.sample(range(n), rng.randint(1, min(3, n)))
    cut = rng.randint(1, len(vs))
    lhs = join(rng, [fmt_term(coef(rng, kind), names[i]) for i in vs[:cut]], cst(rng, kind) if rng.random() < 0.3 else None)
    rhs = join(rng, [fmt_term(coef(rng, kind), names[i]) for i in vs[cut:]], cst(rng, kind) if (rng.random() < 0.8 or cut == len(vs)) else None)
    return "%s %s %s" % (lhs, cmp or rng.choice(ALLC), rhs)


def gen_chain(rng, names, kind):
    """equalities mixed with inequalities sharing variables; each line's variables overlap the previous line's"""
    n = len(names)
    order = list(range(n)); rng.shuffle(order)
    lines = []
    for k in range(rng.randint(2, min(4, max(2, n)))):
        a = order[k % n]; b = order[(k + 1) % n]
        vs = [a] if a == b else [a, b]
        if rng.random() < 0.3 and n > 2:
            vs.append(order[(k + 2) % n])
        vs = list(dict.fromkeys(vs))
        rng.shuffle(vs)
        cmp = "=" if (k == 0 and rng.random() < 0.7) or rng.random() < 0.25 else rng.choice(INEQ + ["!="])
        lines.append(gen_lin(rng, names, kind, vs, cmp))
    rng.shuffle(lines)
    return lines


MANY_NAMES = [list("abcdefghijklmn"), ["p", "q", "r", "s", "t", "u", "w", "y", "z", "aa", "bb", "cc", "dd"],
              ["v%d" % i for i in range(13)], ["k%02d" % i for i in range(12)]]
