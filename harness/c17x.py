"""C17, extended streams (imported by c17.py):
  xcomb  - constraints.and_/or_/not_ with members that RAISE (every except clause of l.552-562 etc.), return other
           lengths, scribble over their argument before raising: real run vs Model/CombinatorsX (guarded DSL members)
  oracle - stateful / non-deterministic members: every member call of the real run is recorded (input, outcome) and
           the model, fed those outcomes as an oracle, must hand every call the very vector the real member received
  pen    - coupler.and_/or_/not_ penalty OBJECTS (nine member types, k/h, nesting, with_penalty / as_penalty leaves)
           vs Model/PenaltyTree.evalT, plus the zero-set clauses on the real values
  cpl    - inner/outer/additive and their _proxy variants with decorator-time and call-time arguments,
           constraints.with_constraint, vs Model/Couplers
"""
import math
import random as _random
import common
from common import fl, f2b, same_vec, same_float, gfloat, dyadic, parse_reply, floats_of
import dsl
from framework import Finding

ACTS = ["zdiv", "tverr", "raise", "short", "long"]


# ------------------------------------------------------------------ exceptions by class
def _fpe():
    import numpy as np
    try:
        with np.errstate(all="raise"):
            np.float64(1e308) * np.float64(10.0)
    except FloatingPointError as e:
        return e
    return FloatingPointError("overflow encountered in multiply")


class _MyZero(ZeroDivisionError):
    pass


class _MyValue(ValueError):
    pass


def make_exc(act, rng):
    """an exception object of the class the model calls `act`; the classification below IS the reading of
    constraints.py l.554-562: ZeroDivisionError (and subclasses) -> zdiv; TypeError/ValueError (and subclasses)
    whose args[0] is a str m with m.find('not supported') != 0 and m.rfind("'complex'") != 0 -> tverr (swallowed);
    everything else propagates"""
    if act == "zdiv":
        return rng.choice([lambda: ZeroDivisionError("float division by zero"), lambda: _MyZero("division by zero"),
                           lambda: ZeroDivisionError()])()
    if act == "tverr":
        return rng.choice([
            lambda: TypeError("unsupported operand type(s) for +: 'int' and 'str'"),
            lambda: ValueError("math domain error"),
            lambda: TypeError("'<' not supported between instances of 'complex' and 'float'"),
            lambda: TypeError(""),
            lambda: _MyValue("could not convert string to float: 'a'"),
            lambda: ValueError("x 'complex' y"),
            lambda: TypeError("is not supported"),
        ])()
    if act == "raise":
        return rng.choice([
            lambda: OverflowError("math range error"),
            _fpe,
            lambda: IndexError("list index out of range"),
            lambda: TypeError("not supported between instances"),     # find(...) == 0  -> re-raised
            lambda: ValueError("'complex' numbers are not ordered"),   # rfind(...) == 0 -> re-raised
            lambda: TypeError(),                                       # exc.args[0] -> IndexError
            lambda: ValueError(5),                                     # (5).find -> AttributeError
            lambda: KeyError("k"),
            lambda: RuntimeError("boom"),
            lambda: ArithmeticError("generic"),
        ])()
    raise AssertionError(act)


# ------------------------------------------------------------------ recording the combinators' random draws
class DrawRecorder:
    """random.randint / random.random (looked up through the module at call time) replaced by recorders; every draw
    is tagged with the number of member calls made so far, which identifies the replacement it belongs to"""

    def __init__(self, rng, calls):
        self.rng = rng
        self.calls = calls
        self.log = []

    def __enter__(self):
        self._ri, self._rr = _random.randint, _random.random
        rec = self

        def randint(a, b):
            v = rec.rng.randint(a, b); rec.log.append(("i", v, rec.calls[0])); return v

        def rand():
            k = rec.rng.random()
            v = 0.0 if k < 0.05 else (1.0 if k < 0.10 else rec.rng.random())
            rec.log.append(("u", v, rec.calls[0])); return v
        _random.randint, _random.random = randint, rand
        return self

    def __exit__(self, *a):
        _random.randint, _random.random = self._ri, self._rr


def draw_groups(log, kind):
    """s-expression of the draw stream: or_ -> one randint per replacement; and_/not_ -> one group of
    (randint, random) pairs per replacement (grouped by the member-call count at draw time)"""
    if kind == "or":
        return "(" + " ".join(str(v) for t, v, c in log) + ")", len(log)
    groups = []
    cur = None
    for t, v, c in log:
        if cur is None or cur[0] != c:
            cur = (c, []); groups.append(cur)
        cur[1].append((t, v))
    out = []
    for c, g in groups:
        pairs = []
        for k in range(0, len(g) - 1, 2):
            pairs.append("(%d %s)" % (g[k][1], f2b(g[k + 1][1])))
        out.append("(" + " ".join(pairs) + ")")
    return "(" + " ".join(out) + ")", len(groups)


def run_real(kind, fns, cap, x, rng, calls):
    """the real combinator over python callables `fns`; returns fired, y / raised exception, draws"""
    from mystic import constraints as C
    fired = []
    onexit = lambda v: (fired.append("exit"), v)[1]
    onfail = lambda v: (fired.append("fail"), v)[1]
    exc = None
    y = None
    with DrawRecorder(rng, calls) as rec:
        try:
            if kind == "and":
                y = C.and_(*fns, maxiter=cap, onexit=onexit, onfail=onfail)(list(x))
            elif kind == "or":
                y = C.or_(*fns, maxiter=cap, onexit=onexit, onfail=onfail)(list(x))
            else:
                y = C.not_(fns[0], maxiter=cap, onexit=onexit, onfail=onfail)(list(x))
        except Exception as e:      # noqa - anything a member raised and the combinator let through
            exc = e
    return {"fired": fired, "y": None if y is None else [float(a) for a in y], "exc": exc, "draws": rec.log}


def compare(kind, obs, rep, dim_unused, case, findings, stream):
    """model reply vs real run: path / result / calls / replacements"""
    r = parse_reply(rep)
    if r[0] != "ok":
        findings.append(Finding("correspondence", "%s/%s_/model-%s" % (stream, kind, r[0]), "model replied %r" % (rep,), case))
        return None
    mpath = "exit" if "success" in r[2] else ("fail" if "fail" in r[2] else "raised")
    if obs["exc"] is not None:
        ipath = "raised"
    else:
        ipath = obs["fired"][0] if len(obs["fired"]) == 1 else repr(obs["fired"])
    diffs = []
    if mpath != ipath:
        diffs.append("path model=%s impl=%s%s" % (mpath, ipath, "" if obs["exc"] is None else " (%r)" % (obs["exc"],)))
    if mpath != "raised" and obs["y"] is not None and not same_vec(floats_of(r[1]["y"]), obs["y"]):
        diffs.append("result model=%r impl=%r" % (floats_of(r[1]["y"]), obs["y"]))
    if int(r[1]["calls"]) != obs["calls"]:
        diffs.append("member calls model=%s impl=%d" % (r[1]["calls"], obs["calls"]))
    if int(r[1]["draws"]) != obs["ngroups"]:
        diffs.append("random replacements model=%s impl=%d" % (r[1]["draws"], obs["ngroups"]))
    if diffs:
        findings.append(Finding("correspondence", "%s/%s_/diverges" % (stream, kind), "; ".join(diffs), case))
    return r, mpath, ipath


# ------------------------------------------------------------------ xcomb: guarded DSL members
def gen_guard(rng, dim):
    if rng.random() < 0.35:
        return None
    act = rng.choice(["zdiv", "tverr", "tverr", "raise", "raise", "short", "long"])
    i = rng.randrange(dim)
    thr = rng.choice([float("-inf"), dyadic(rng, -3, 3, 2), dyadic(rng, -3, 3, 2), float(rng.randint(-2, 2))])
    return (act, i, thr)


def guard_sexp(g, con):
    if g is None:
        return "(g none %s)" % dsl.con_sexp(con)
    return "(g %s %d %s %s)" % (g[0], g[1], f2b(g[2]), dsl.con_sexp(con))


def guarded_callable(g, con, rng, calls, scribble, raised):
    """python member: guard fires when x[i] > thr"""
    def f(v):
        calls[0] += 1
        vv = [float(t) for t in v]
        if 12345.0 in vv:
            raised.append("LEAK")
        fire = g is not None and g[1] < len(vv) and vv[g[1]] > g[2]
        if fire and g[0] in ("zdiv", "tverr", "raise"):
            e = make_exc(g[0], rng)
            if scribble:                       # mutate the argument, THEN raise: the combinator works on a copy
                for k in range(len(v)):
                    v[k] = 12345.0
            raised.append(e)
            raise e
        if fire and g[0] == "short":
            return vv[:-1]
        if fire and g[0] == "long":
            return vv + [1.0]
        return dsl.con_apply(con, vv)
    return f


def outcome(g, con, v):
    """the model-level outcome of member (g, con) on v, evaluated by the harness (for the monitor)"""
    vv = [float(t) for t in v]
    if g is not None and g[1] < len(vv) and vv[g[1]] > g[2]:
        if g[0] in ("zdiv", "tverr", "raise"):
            return (g[0], None)
        return ("ret", vv[:-1] if g[0] == "short" else vv + [1.0])
    try:
        return ("ret", dsl.con_apply(con, vv))
    except ZeroDivisionError:
        return ("zdiv", None)
    except IndexError:
        return ("raise", None)


def monitor_success(kind, stream, outs, y, n, model, out):
    """the property on the implementation's own success: outs[i] = outcome of member i on y"""
    fixed = [o[0] == "ret" and o[1] == y for o in outs]
    if kind == "and":
        moved = [i for i, ok in enumerate(fixed) if not ok]
        if moved:
            key = "and_/success-not-fixed/other"
            if model is not None and model[0] == "ok" and "success" in model[2] and same_vec(floats_of(model[1]["y"]), y):
                t = int(model[1]["t"]); links = int(model[1]["links"])
                if len(moved) == 1 and n > 0 and moved[0] == (t + 1) % n and links >= n - 1:
                    key = "and_/success-not-fixed/unverified-member-not-idempotent"
                elif links < n - 1:
                    key = "and_/success-not-fixed/random-replacement-collision"
            out.append((key, "and_ returned %r through onexit but member(s) %r change it / raise on it" % (y, moved)))
    elif kind == "or":
        if n > 0 and not any(fixed):
            out.append(("or_/success-not-fixed", "or_ returned %r through onexit but every member changes it / raises on it" % (y,)))
    else:
        if not (outs[0][0] == "ret" and outs[0][1] != y):
            out.append(("not_/success-not-moved", "not_ returned %r through onexit but the member does not change it (%r)" % (y, outs[0])))


def xcomb_case(rng, hist):
    import c17
    kind = rng.choice(["and", "and", "or", "or", "not"])
    dim = rng.randint(1, 4)
    n = 1 if kind == "not" else rng.choice([1, 2, 2, 3, 4])
    cons = [c17.gen_member(rng, dim, rng.choice(["idem", "idem", "any"])) for _ in range(n)]
    guards = [gen_guard(rng, dim) for _ in range(n)]
    if any(g is not None and g[0] == "short" for g in guards):
        # vectors may shrink: only members that work at every length (the DSL twins differ on a bad index)
        cons = [rng.choice([("id",), ("rot",), ("rint", 0), ("rint", 0, 1)]) for _ in range(n)]
    cap = rng.choice([0, 1, 2, 3, 5, 8, 13])
    x = c17.gen_point(rng, dim)
    calls = [0]; raised = []
    scribble = rng.random() < 0.5
    fns = [guarded_callable(g, c, rng, calls, scribble, raised) for g, c in zip(guards, cons)]
    obs = run_real(kind, fns, cap, x, rng, calls)
    obs["calls"] = calls[0]
    ds, ng = draw_groups(obs["draws"], kind)
    obs["ngroups"] = ng
    ms = " ".join(guard_sexp(g, c) for g, c in zip(guards, cons))
    if kind == "not":
        line = "C17 xnot (cap %d) (x %s) (member %s) (draws %s)" % (cap, fl(x), ms, ds)
    else:
        line = "C17 x%s (cap %d) (x %s) (members (%s)) (draws %s)" % (kind, cap * n, fl(x), ms, ds)
    return {"stream": "xcomb", "kind": kind, "guards": guards, "cons": cons, "cap": cap, "x": x, "obs": obs,
            "line": line, "raised": raised, "n": n}


def xcomb_check(cs, rep, findings, hist):
    kind, obs = cs["kind"], cs["obs"]
    case = {"stream": "xcomb", "kind": kind, "members": [guard_sexp(g, c) for g, c in zip(cs["guards"], cs["cons"])],
            "maxiter": cs["cap"], "x": cs["x"], "request": cs["line"], "model": rep,
            "impl": {"fired": obs["fired"], "y": obs["y"], "calls": obs["calls"], "exc": repr(obs["exc"])}}
    res = compare(kind, obs, rep, None, case, findings, "xcomb")
    mon = []
    leak = "LEAK" in cs["raised"] or (obs["y"] is not None and 12345.0 in obs["y"] and 12345.0 not in cs["x"])
    cs["raised"] = [e for e in cs["raised"] if e != "LEAK"]
    if leak:
        mon.append(("comb/argument-mutation-leaked", "a member scribbled 12345.0 over its argument before raising and the value "
                    "re-appeared in a later member input / the result: the member was not handed a copy"))
    classes = [classify(e) for e in cs["raised"]]
    if obs["exc"] is None and "raise" in classes:
        mon.append(("comb/propagating-class-swallowed", "%s_ swallowed %r (only ZeroDivisionError and TypeError/ValueError "
                    "not about unsupported complex comparison are documented as handled)" % (kind, cs["raised"][classes.index("raise")])))
    if obs["exc"] is not None and "raise" not in classes:
        mon.append(("comb/swallowed-class-propagated", "%s_ let %r through although every exception its members raised (%r) "
                    "belongs to the classes it handles (ZeroDivisionError, TypeError/ValueError)" % (kind, obs["exc"], cs["raised"])))
    if obs["exc"] is not None:
        # monitor: a propagating exception fires no exit path and is the member's own exception (`raise exc`) or
        # the one the handler itself produced while inspecting it (IndexError / AttributeError on exc.args[0])
        if obs["fired"]:
            mon.append(("comb/raised-after-exit-path", "%s_ raised %r after firing %r" % (kind, obs["exc"], obs["fired"])))
        last = cs["raised"][-1] if cs["raised"] else None
        if last is None or not (obs["exc"] is last or isinstance(obs["exc"], (IndexError, AttributeError))):
            mon.append(("comb/foreign-exception", "%s_ raised %r, which is not what its member raised (%r)" % (kind, obs["exc"], last)))
    elif len(obs["fired"]) != 1:
        mon.append(("%s_/exit-paths" % kind, "onexit/onfail fired %r (exactly one of them must fire exactly once)" % (obs["fired"],)))
    elif obs["fired"][0] == "exit":
        outs = [outcome(g, c, obs["y"]) for g, c in zip(cs["guards"], cs["cons"])]
        monitor_success(kind, "xcomb", outs, obs["y"], cs["n"], res[0] if res else None, mon)
    # bounds (the theorems' statements, on the real run)
    n = cs["n"]
    capn = cs["cap"] if kind == "not" else cs["cap"] * n
    if obs["calls"] > max(n if kind != "not" else 0, capn):
        mon.append(("comb/calls-exceed-bound", "%s_ made %d member calls, bound max(n, maxiter*n) = %d" % (kind, obs["calls"], max(n, capn))))
    if obs["ngroups"] > (capn if kind == "not" else max(0, capn - n)):
        mon.append(("comb/draws-exceed-bound", "%s_ made %d random replacements, bound %d" % (kind, obs["ngroups"], max(0, capn - n))))
    for key, what in mon:
        findings.append(Finding("monitor", key, what, case))
    acts = sorted(set(g[0] for g in cs["guards"] if g is not None)) or ["plain"]
    path = "raised" if obs["exc"] is not None else (obs["fired"][0] if len(obs["fired"]) == 1 else "?")
    tag = "xcomb:%s:%s:%s" % (kind, path, "+".join(acts))
    hist[tag] = hist.get(tag, 0) + 1
    for e in cs["raised"]:
        k = "xcomb-exc:%s" % type(e).__name__
        hist[k] = hist.get(k, 0) + 1
    return obs["calls"] > n or obs["exc"] is not None


# ------------------------------------------------------------------ oracle: stateful / non-deterministic members
def gen_stateful(rng, dim):
    """a python member with internal state; returns (callable factory, description)"""
    k = rng.choice(["counter", "noisy", "flip", "late-raise", "late-short", "decay", "plain"])
    i = rng.randrange(dim)
    m = rng.randint(1, 5)
    step = rng.choice([1.0, 0.5, -0.25])
    act = rng.choice(["zdiv", "tverr", "raise"])
    lo = dyadic(rng, -2, 2, 2)

    def factory(state, rng2):
        def f(vv):
            state[0] += 1
            c = state[0]
            if k == "counter":              # moves x[i] for its first m calls, then is the identity
                if c <= m:
                    vv[i] = vv[i] + step
                return vv
            if k == "noisy":                # random answers for its first m calls
                if c <= m:
                    vv[i] = rng2.choice([0.0, 1.0, vv[i], vv[i] + 0.5])
                return vv
            if k == "flip":                 # alternates between two clamps
                if c % 2:
                    vv[i] = max(lo, vv[i])
                else:
                    vv[i] = min(lo + 1.0, vv[i])
                return vv
            if k == "late-raise":           # raises on its m-th call only
                if c == m:
                    raise make_exc(act, rng2)
                vv[i] = max(lo, vv[i])
                return vv
            if k == "late-short":           # returns a shorter vector on its m-th call only
                if c == m:
                    return vv[:-1]
                return vv
            if k == "decay":                # non-idempotent contraction with a memory
                vv[i] = vv[i] * 0.5 + float(c % 3)
                return vv
            vv[i] = max(lo, min(lo + 2.0, vv[i]))
            return vv
        return f
    return factory, "%s(i=%d,m=%d,step=%r,act=%s,lo=%r)" % (k, i, m, step, act, lo)


def classify(e):
    """constraints.py l.554-562 read as a function of the exception object"""
    if isinstance(e, ZeroDivisionError):
        return "zdiv"
    if isinstance(e, (TypeError, ValueError)):
        if not e.args or not isinstance(e.args[0], str):
            return "raise"
        m = e.args[0]
        if m.find("not supported") and m.rfind("'complex'"):
            return "tverr"
        return "raise"
    return "raise"


def oracle_case(rng, hist):
    import c17
    kind = rng.choice(["and", "and", "or", "or", "not"])
    dim = rng.randint(1, 3)
    n = 1 if kind == "not" else rng.choice([1, 2, 2, 3])
    cap = rng.choice([1, 2, 3, 5, 8, 13])
    x = c17.gen_point(rng, dim)
    calls = [0]
    recs = []
    descs = []
    fns = []
    leaks = []
    for _ in range(n):
        factory, d = gen_stateful(rng, dim)
        descs.append(d)
        inner = factory([0], rng)

        def wrap(inner=inner):
            def f(v):
                calls[0] += 1
                inp = [float(t) for t in v]
                if -777.0 in inp:
                    leaks.append(1)
                try:
                    y = inner([float(t) for t in v])
                except Exception as e:       # noqa
                    recs.append((inp, classify(e), None))
                    for k in range(len(v)):
                        v[k] = -777.0        # scribble, then raise
                    raise
                recs.append((inp, "ret", [float(t) for t in y]))
                return y
            return f
        fns.append(wrap())
    obs = run_real(kind, fns, cap, x, rng, calls)
    obs["calls"] = calls[0]
    ds, ng = draw_groups(obs["draws"], kind)
    obs["ngroups"] = ng
    rs = " ".join("(%s %s)" % (fl(inp), ("(ret %s)" % fl(y)) if o == "ret" else o) for inp, o, y in recs)
    if kind == "not":
        line = "C17 onot (cap %d) (x %s) (recs (%s)) (draws %s)" % (cap, fl(x), rs, ds)
    else:
        line = "C17 o%s (n %d) (cap %d) (x %s) (recs (%s)) (draws %s)" % (kind, n, cap * n, fl(x), rs, ds)
    return {"stream": "oracle", "kind": kind, "descs": descs, "cap": cap, "x": x, "obs": obs, "line": line,
            "recs": recs, "n": n, "leaks": leaks}


def oracle_check(cs, rep, findings, hist):
    kind, obs = cs["kind"], cs["obs"]
    case = {"stream": "oracle", "kind": kind, "members": cs["descs"], "maxiter": cs["cap"], "x": cs["x"],
            "request": cs["line"], "model": rep,
            "impl": {"fired": obs["fired"], "y": obs["y"], "calls": obs["calls"], "exc": repr(obs["exc"])}}
    res = compare(kind, obs, rep, None, case, findings, "oracle")
    mon = []
    recs = cs["recs"]
    n = cs["n"]
    if cs["leaks"] or (obs["y"] is not None and -777.0 in obs["y"]):
        mon.append(("comb/argument-mutation-leaked", "a member scribbled -777.0 over its argument before raising and the value "
                    "re-appeared in a later member input / the result: the member was not handed a copy"))
    classes = [o for inp, o, out in recs if o != "ret"]
    if obs["exc"] is None and "raise" in classes:
        mon.append(("comb/propagating-class-swallowed", "%s_ swallowed an exception of a class it does not handle" % kind))
    if obs["exc"] is not None and "raise" not in classes:
        mon.append(("comb/swallowed-class-propagated", "%s_ let %r through although every member exception was of a handled class" % (kind, obs["exc"])))
    # every member call gets the vector the documented iteration prescribes - checked directly for and_:
    # call j receives the latest entry (previous output, or the previous input again after a swallowed exception,
    # or a random replacement of it - the latter only when draws were consumed)
    if kind == "and" and not obs["draws"]:
        prev = [float(t) for t in cs["x"]]
        for j, (inp, o, out) in enumerate(recs):
            if inp != prev:
                mon.append(("and_/member-input-not-latest", "and_ call %d received %r, the latest entry is %r" % (j, inp, prev)))
                break
            prev = out if o == "ret" else inp
    if obs["exc"] is None and obs["fired"] == ["exit"] and res is not None and res[1] == "exit":
        # the oracle form of the property (and_success_links_oracle / or_ / not_): the calls the theorem names
        # returned the result unchanged - checked on the RECORDED calls of the real run
        y = obs["y"]; t = int(res[0][1]["t"]); links = int(res[0][1]["links"])
        if kind == "and" and n > 0:
            for m in range(min(links, n - 1)):
                inp, o, out = recs[t - m]
                if not (o == "ret" and inp == y and out == y):
                    mon.append(("and_/oracle-link-broken", "and_ success %r at step %d: call %d was %r -> %r (%s)" % (y, t, t - m, inp, out, o)))
        elif kind == "or" and n > 0:
            if not any(o == "ret" and inp == y and out == y for inp, o, out in recs):
                mon.append(("or_/oracle-no-fixing-call", "or_ success %r but no recorded call returned it unchanged" % (y,)))
        elif kind == "not":
            inp, o, out = recs[-1]
            if not (o == "ret" and inp == y and out != y):
                mon.append(("not_/oracle-not-moved", "not_ success %r but its last call was %r -> %r (%s)" % (y, inp, out, o)))
    if obs["exc"] is None and len(obs["fired"]) != 1:
        mon.append(("%s_/exit-paths" % kind, "onexit/onfail fired %r" % (obs["fired"],)))
    for key, what in mon:
        findings.append(Finding("monitor", key, what, case))
    path = "raised" if obs["exc"] is not None else (obs["fired"][0] if len(obs["fired"]) == 1 else "?")
    tag = "oracle:%s:%s" % (kind, path)
    hist[tag] = hist.get(tag, 0) + 1
    return obs["calls"] > n


# ------------------------------------------------------------------ pen: penalty objects
PT = [("qEq", "quadratic_equality", True), ("lEq", "linear_equality", True), ("uEq", "uniform_equality", True),
      ("uIneq", "uniform_inequality", False), ("qIneq", "quadratic_inequality", False),
      ("lIneq", "linear_inequality", False), ("barrier", "barrier_inequality", False),
      ("lagIneq", "lagrange_inequality", False), ("lagEq", "lagrange_equality", True)]
PT_BY = {t[0]: t for t in PT}
CONFORMING = ("qEq", "lEq", "uEq", "uIneq", "qIneq", "lIneq")


def gen_pnode(rng, dim, depth, leaves, exact):
    """spec node: dict(kind=leaf|and|or|not, t, k, h, n, ...)"""
    kinds = ["leaf"] * 3 + (["and", "or", "not"] if depth > 0 else [])
    kind = rng.choice(kinds)
    kk = (lambda: rng.choice([1, 2, 4])) if exact else (lambda: rng.choice([1, 2, 100, 0.5, 3.7]))
    hh = (lambda: rng.choice([1, 2])) if exact else (lambda: rng.choice([5, 2, 1, 1.5]))
    if kind == "leaf":
        types = [t for t in PT_BY if not (exact and t == "barrier")]
        t = rng.choice(types)
        if not exact and rng.random() < 0.15:
            import c17
            con = c17.gen_member(rng, dim, "idem")
            leaves.append(("rnorm", con))
            return {"kind": "leaf", "via": "as_penalty", "t": t, "k": kk(), "h": hh(), "n": rng.choice([0, 0, 1, 2]),
                    "leaf": len(leaves) - 1}
        i = rng.randrange(dim)
        a = dyadic(rng, -2, 2, 2)
        e = ("-", ("x", i), ("c", a)) if rng.random() < 0.7 else ("-", ("*", ("x", i), ("x", rng.randrange(dim))), ("c", a))
        leaves.append(("e", e))
        return {"kind": "leaf", "via": rng.choice(["ptype", "with_penalty"]), "t": t, "k": kk(), "h": hh(),
                "n": rng.choice([0, 0, 0, 1, 2]), "leaf": len(leaves) - 1}
    if kind == "not":
        m = gen_pnode(rng, dim, depth - 1, leaves, exact)
        # default: the member's type, k = 1 (settings.setdefault), h = the type's default 5
        opts = {}
        if rng.random() < 0.5:
            opts["k"] = kk()
        if rng.random() < 0.3:
            opts["h"] = hh()
        return {"kind": "not", "m": m, "opts": opts, "t": m["t"], "k": opts.get("k", 1), "h": opts.get("h", 5),
                "n": rng.choice([0, 0, 1])}
    nm = rng.randint(1, 3)
    ms = [gen_pnode(rng, dim, depth - 1, leaves, exact) for _ in range(nm)]
    opts = {}
    if rng.random() < 0.5:
        opts["k"] = kk()
    if rng.random() < 0.3:
        opts["h"] = hh()
    t = "lEq"
    if rng.random() < 0.3:
        t = rng.choice([tt for tt in CONFORMING])
        opts["ptype"] = t
    return {"kind": kind, "ms": ms, "opts": opts, "t": t, "k": opts.get("k", 1), "h": opts.get("h", 5),
            "n": rng.choice([0, 0, 1])}


def build_pnode(node, leaves):
    from mystic import penalty as P, coupler, constraints as C
    if node["kind"] == "leaf":
        ptype = getattr(P, PT_BY[node["t"]][1])
        lf = leaves[node["leaf"]]
        if lf[0] == "rnorm":
            con = lf[1]
            obj = C.as_penalty(lambda v: dsl.con_apply(con, v), ptype, k=node["k"], h=node["h"])
        else:
            e = lf[1]
            cond = lambda v: dsl.ev(e, v)
            if node["via"] == "with_penalty":
                obj = C.with_penalty(ptype, k=node["k"], h=node["h"])(cond)
            else:
                obj = ptype(cond, k=node["k"], h=node["h"])(lambda v: 0.0)
    elif node["kind"] == "not":
        node["mobj"] = build_pnode(node["m"], leaves)
        obj = coupler.not_(node["mobj"], **node["opts"])
    else:
        node["mobjs"] = [build_pnode(m, leaves) for m in node["ms"]]
        opts = dict(node["opts"])
        if "ptype" in opts:
            opts["ptype"] = getattr(P, PT_BY[opts["ptype"]][1])
        obj = (coupler.and_ if node["kind"] == "and" else coupler.or_)(*node["mobjs"], **opts)
    if node["n"]:
        obj.iter(node["n"])
    node["obj"] = obj
    return obj


def num(v):
    return f2b(float(v))


def pc_sexp(node):
    if node["kind"] == "leaf":
        return "(leaf %d)" % node["leaf"]
    if node["kind"] == "not":
        return "(not %s %s)" % (node["t"], pc_sexp(node["m"]))
    return "(%s %s)" % (node["kind"], " ".join(pt_sexp(m) for m in node["ms"]))


def pt_sexp(node):
    return "(pen (%s %s %s %d ()) %s (base 0))" % (node["t"], num(node["k"]), num(node["h"]), node["n"], pc_sexp(node))


def all_nodes(node):
    yield node
    if node["kind"] == "not":
        for t in all_nodes(node["m"]):
            yield t
    elif node["kind"] in ("and", "or"):
        for m in node["ms"]:
            for t in all_nodes(m):
                yield t


def pcall(obj, v):
    try:
        return float(obj(list(v)))
    except ZeroDivisionError:
        return "zerodiv"


def pen_case(rng, hist):
    dim = rng.randint(1, 3)
    exact = rng.random() < 0.6
    leaves = []
    root = gen_pnode(rng, dim, 2, leaves, exact)
    if root["kind"] == "leaf":
        root = {"kind": rng.choice(["and", "or"]), "ms": [root, gen_pnode(rng, dim, 1, leaves, exact)], "opts": {},
                "t": "lEq", "k": 1, "h": 5, "n": 0}
    build_pnode(root, leaves)
    # points: on / either side of the leaves' boundaries
    pts = []
    for _ in range(4):
        if exact:
            pts.append([dyadic(rng, -3, 3, 4) for _ in range(dim)])
        else:
            pts.append([rng.choice([dyadic(rng, -3, 3, 4), gfloat(rng, 4.0)]) for _ in range(dim)])
    vals = [pcall(root["obj"], v) for v in pts]
    ls = " ".join("(e %s)" % dsl.expr_sexp(l[1]) if l[0] == "e" else "(rnorm %s)" % dsl.con_sexp(l[1]) for l in leaves)
    line = "C17 pen (leaves (%s)) (t %s) (pts (%s))" % (ls, pt_sexp(root), " ".join(fl(v) for v in pts))
    return {"stream": "pen", "root": root, "leaves": leaves, "pts": pts, "vals": vals, "line": line, "exact": exact}


def close(a, b, rel=1e-9):
    if a == b or (a != a and b != b):
        return True
    if math.isinf(a) or math.isinf(b):
        return False
    return abs(a - b) <= rel * max(abs(a), abs(b), 1e-300)


def pen_check(cs, rep, findings, hist):
    pr = parse_reply(rep)
    r = pr[1].get("r") if pr[0] == "ok" else None
    case = {"stream": "pen", "tree": pt_sexp(cs["root"]), "leaves": [repr(l) for l in cs["leaves"]], "pts": cs["pts"],
            "impl": cs["vals"], "model": rep, "request": cs["line"], "exact": cs["exact"]}
    if r is None or len(r) != len(cs["pts"]):
        findings.append(Finding("correspondence", "pen/model-error", "model replied %r" % (rep,), case))
        return False
    for v, item, x in zip(cs["vals"], r, cs["pts"]):
        if item[0] == "raise":
            mv = item[1]
            ok = (v == mv)
            bit = ok
        else:
            mv = common.b2f(item[1])
            ok = isinstance(v, float) and (close(v, mv) if not cs["exact"] else same_float(v, mv))
            bit = isinstance(v, float) and same_float(v, mv)
        key = "pen:exact" if cs["exact"] else ("pen:tol:bit-identical" if bit else "pen:tol:within-1e-9")
        hist[key] = hist.get(key, 0) + 1
        if not ok:
            findings.append(Finding("correspondence", "pen/value-diverges/%s" % cs["root"]["kind"],
                                    "combined penalty at x=%r: model %r impl %r" % (x, mv, v), case))
    # a penalty combinator object is a function of the point: evaluated again (after all the other evaluations, in
    # reverse order) it returns what it returned the first time
    for v, x in reversed(list(zip(cs["vals"], cs["pts"]))):
        for rep_ in range(2):
            w = pcall(cs["root"]["obj"], x)
            same = (w == v) if not (isinstance(w, float) and isinstance(v, float)) else same_float(w, v)
            hist["pen-mon:re-evaluated"] = hist.get("pen-mon:re-evaluated", 0) + 1
            if not same:
                findings.append(Finding("monitor", "coupler/pen-%s-reused-differs" % cs["root"]["kind"],
                                        "one penalty %s_ object evaluated again at x=%r gives %r, the first evaluation gave %r"
                                        % (cs["root"]["kind"], x, w, v), case))
                break
    # monitor: the clauses on the real objects, at every combinator node of the tree
    for node in all_nodes(cs["root"]):
        if node["kind"] == "leaf":
            hist["pen-leaf:%s:%s" % (node["t"], node["via"])] = hist.get("pen-leaf:%s:%s" % (node["t"], node["via"]), 0) + 1
            if node["via"] == "as_penalty":
                # adapter: the condition of as_penalty(c) is the Euclidean distance |c(x) - x| (zero iff c keeps x)
                con = cs["leaves"][node["leaf"]][1]
                for x in cs["pts"]:
                    try:
                        cx = dsl.con_apply(con, x)
                        d = math.sqrt(sum((p - q) ** 2 for p, q in zip(cx, x)))
                        got = float(node["obj"].func(list(x)))
                    except ZeroDivisionError:
                        continue
                    if not close(got, d, 1e-9) or (got == 0.0) != (cx == [float(t) for t in x]):
                        findings.append(Finding("monitor", "adapter/as_penalty-rnorm", "as_penalty(c).func(x) = %r at x=%r, "
                                                "|c(x) - x| = %r" % (got, x, d), case))
                    hist["pen-mon:as_penalty"] = hist.get("pen-mon:as_penalty", 0) + 1
            continue
        hist["pen-node:%s:%s" % (node["kind"], node["t"])] = hist.get("pen-node:%s:%s" % (node["kind"], node["t"]), 0) + 1
        if node["t"] not in CONFORMING or not (node["k"] > 0 and node["h"] > 0):
            continue
        for x in cs["pts"]:
            w = pcall(node["obj"], x)
            if node["kind"] in ("and", "or"):
                mv = [pcall(m["obj"], x) for m in node["ms"]]
                if any(not isinstance(t, float) for t in mv):
                    if w != float("inf"):
                        findings.append(Finding("monitor", "coupler/pen-%s-raise" % node["kind"],
                                                "a member raises at x=%r but %s_ returns %r (expected inf)" % (x, node["kind"], w), case))
                    continue
                if any(t < 0 or t != t or math.isinf(t) for t in mv) or not isinstance(w, float):
                    continue
                want = all(t == 0.0 for t in mv) if node["kind"] == "and" else any(t == 0.0 for t in mv)
                if (w == 0.0) != want or w < 0:
                    findings.append(Finding("monitor", "coupler/pen-%s" % node["kind"],
                                            "penalty %s_ = %r but member penalties %r at x=%r" % (node["kind"], w, mv, x), case))
                hist["pen-mon:%s" % node["kind"]] = hist.get("pen-mon:%s" % node["kind"], 0) + 1
            else:
                m = node["m"]
                try:
                    cv = float(m["obj"].func(list(x)))
                except ZeroDivisionError:
                    continue
                if cv != cv or not isinstance(w, float):
                    continue
                iseq = PT_BY[node["t"]][2]
                want = (cv == 0.0) if iseq else (cv < 0.0)
                if (w > 0.0) != want:
                    findings.append(Finding("monitor", "coupler/pen-not",
                                            "not_(%s) = %r at member condition value %r (x=%r): penalised=%r, expected %r"
                                            % (node["t"], w, cv, x, w > 0.0, want), case))
                hist["pen-mon:not:%s" % ("eq" if iseq else "ineq")] = hist.get("pen-mon:not:%s" % ("eq" if iseq else "ineq"), 0) + 1
    return True


# ------------------------------------------------------------------ cpl: couplers with arguments
def cpl_case(rng, hist):
    import c17
    from mystic import coupler, constraints as C
    dim = rng.randint(1, 4)
    x = c17.gen_point(rng, dim)
    c = c17.gen_member(rng, dim, "idem")
    e = dsl.gen_expr(rng, dim, 2)
    e2 = dsl.gen_expr(rng, dim, 2)
    a = rng.choice([0.0, 1.0, -0.5, dyadic(rng, -3, 3, 4), gfloat(rng, 3.0)])
    b = rng.choice([1.0, 2.0, -1.0, dyadic(rng, -3, 3, 4), gfloat(rng, 3.0)])
    cA = lambda v, a: [t + a for t in dsl.con_apply(c, v)]
    fB = lambda v, b: dsl.ev(e, v) * b
    gB = lambda v, b: [t * b for t in v]
    pA = lambda v, a: dsl.ev(e2, v) - a
    kw = rng.random() < 0.5          # decorator-time bundle given as kwds instead of args
    A = dict(kwds={"a": a}) if kw else dict(args=(a,))
    Ab = dict(kwds={"b": a}) if kw else dict(args=(a,))
    # ONE coupled function per coupler, called on a SEQUENCE of (x, b) inputs (a solver evaluates the same coupled cost /
    # constraint at every candidate): the call at position `pos` is the one sent to the model, every call is monitored
    objs = {
        "inner": coupler.inner(cA, **A)(fB),
        "outer": coupler.outer(cA, **A)(gB),
        "innerp": coupler.inner_proxy(cA, **Ab)(fB),
        "outerp": coupler.outer_proxy(cA, **Ab)(gB),
        "add": coupler.additive(pA, **A)(fB),
        "addp": coupler.additive_proxy(pA, **Ab)(fB),
        "wi": C.with_constraint(coupler.inner, **A)(cA),
        "wo": C.with_constraint(coupler.outer, **A)(cA),
        "wip": C.with_constraint(coupler.inner_proxy)(cA),
        "wop": C.with_constraint(coupler.outer_proxy)(cA),
    }
    nob = ("wi", "wo")

    def want_of(x, b):
        return {"inner": fB(cA(x, a), b), "outer": cA(gB(x, b), a), "innerp": fB(cA(x, b), a),
                "outerp": cA(gB(x, a), b), "add": fB(x, b) + pA(x, a), "addp": fB(x, a) + pA(x, b),
                "wi": cA(x, a), "wo": cA(x, a), "wip": cA(x, b), "wop": cA(x, b)}
    nseq = rng.choice([1, 2, 3, 4])
    pos = rng.randrange(nseq)
    seq = []
    for k_ in range(nseq):
        if k_ == pos:
            seq.append((x, b))
        elif seq and rng.random() < 0.3:
            seq.append(rng.choice(seq))
        else:
            seq.append((c17.gen_point(rng, dim), rng.choice([1.0, 2.0, -1.0, dyadic(rng, -3, 3, 4), gfloat(rng, 3.0)])))
    xs = list(x)
    got = {}
    seqbad = []
    for k_, (xk, bk) in enumerate(seq):
        try:
            wk = want_of(xk, bk)
        except ZeroDivisionError:
            if k_ == pos:
                return None
            continue
        for name, fn_ in objs.items():
            arg = xs if k_ == pos else list(xk)
            try:
                v = fn_(arg) if name in nob else fn_(arg, bk)
            except ZeroDivisionError:
                return None
            except Exception as exc:       # noqa - the coupler mis-routed its argument bundles
                v = exc
            if k_ == pos:
                got[name] = v
            elif isinstance(v, Exception):
                seqbad.append((name, k_, xk, bk, repr(v), wk[name]))
            elif isinstance(v, float):
                if not same_float(v, wk[name]):
                    seqbad.append((name, k_, xk, bk, v, wk[name]))
            elif not same_vec([float(t) for t in v], wk[name]):
                seqbad.append((name, k_, xk, bk, [float(t) for t in v], wk[name]))
            if k_ != pos and [float(t) for t in arg] != [float(t) for t in xk]:
                seqbad.append(("argument", k_, xk, bk, [float(t) for t in arg], xk))
    line = "C17 cpl (x %s) (c %s) (f %s) (p %s) (a %s) (b %s)" % (fl(x), dsl.con_sexp(c), dsl.expr_sexp(e), dsl.expr_sexp(e2), f2b(a), f2b(b))
    return {"stream": "cpl", "x": x, "xs": xs, "got": got, "line": line, "kw": kw, "pos": pos, "nseq": nseq, "seqbad": seqbad,
            "want": want_of(x, b)}


def cpl_check(cs, rep, findings, hist):
    r = parse_reply(rep)
    case = {"stream": "cpl", "x": cs["x"], "request": cs["line"], "model": rep, "position_in_sequence": cs["pos"], "sequence_length": cs["nseq"],
            "impl": {k: (v if isinstance(v, float) else (repr(v) if isinstance(v, Exception) else list(v))) for k, v in cs["got"].items()}}
    for name, k_, xk, bk, v, w in cs["seqbad"]:
        if name == "argument":
            findings.append(Finding("monitor", "coupler/argument-modified", "call #%d of a reused coupled function modified its argument %r -> %r" % (k_, xk, v), dict(case, x=xk, b=bk)))
        else:
            findings.append(Finding("monitor", "coupler/%s-reused-args" % name, "call #%d of ONE coupled function (%s, with arguments) at x=%r b=%r gives %r, "
                                    "the documented composition gives %r" % (k_, name, xk, bk, v, w), dict(case, x=xk, b=bk)))
    hist["cpl-seq:%d@%d" % (cs["nseq"], cs["pos"])] = hist.get("cpl-seq:%d@%d" % (cs["nseq"], cs["pos"]), 0) + 1
    if r[0] != "ok":
        findings.append(Finding("correspondence", "cpl/model-%s" % r[0], "model replied %r" % (rep,), case))
        return False
    for k, v in cs["got"].items():
        if isinstance(v, Exception):
            findings.append(Finding("monitor", "coupler/%s-raises" % k, "coupler %s with arguments raised %r; the documented "
                                    "composition gives %r" % (k, v, cs["want"][k]), case))
            continue
        if isinstance(v, float):
            ok = same_float(v, common.b2f(r[1][k]))
            okm = same_float(v, cs["want"][k])
        else:
            ok = same_vec([float(t) for t in v], floats_of(r[1][k]))
            okm = same_vec([float(t) for t in v], cs["want"][k])
        if not ok:
            findings.append(Finding("correspondence", "cpl/%s-diverges" % k, "coupler %s: model %r impl %r" % (k, r[1][k], v), case))
        if not okm:
            findings.append(Finding("monitor", "coupler/%s-args" % k, "coupler %s with arguments: got %r, documented composition gives %r" % (k, v, cs["want"][k]), case))
    if [float(t) for t in cs["xs"]] != [float(t) for t in cs["x"]]:
        findings.append(Finding("monitor", "coupler/argument-modified", "a coupled function modified its argument", case))
    hist["cpl:%s" % ("kwds" if cs["kw"] else "args")] = hist.get("cpl:%s" % ("kwds" if cs["kw"] else "args"), 0) + 10
    return True


GEN = {"xcomb": xcomb_case, "oracle": oracle_case, "pen": pen_case, "cpl": cpl_case}
CHECK = {"xcomb": xcomb_check, "oracle": oracle_check, "pen": pen_check, "cpl": cpl_check}
