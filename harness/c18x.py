"""C18, second deepening: case families for
  * the shape logic of mystic.math.distance (absolute_distance: dimension promotion `dmin`, `pair`, transposes / newaxis
    slices, broadcasting; chebyshev / hamming / minkowski / euclidean / manhattan with `axis=`, every p incl. 0 and inf,
    the overflow fall-back, integer-typed and mixed-shape inputs, `xp=None`),
  * standard_moment / skewness / kurtosis / expected_variance / expected_std,
  * impose_moment (order, tol, skew as coded), impose_product, integer-typed normalize / impose_sum / impose_weight_norm.
The families follow the conventions of c18.py (same dict; `check(reply) -> diffs, monitor, tag, nontrivial`)."""
import math, warnings
from fractions import Fraction as Fr
import common
from common import fl, fll, f2b, b2f, dyadic, floats_of
import dsl

INF = float("inf")


def B():
    import c18
    return c18


# ------------------------------------------------------------------ helpers
def nl(ns):
    return "(" + " ".join(str(int(n)) for n in ns) + ")"


def np_state():
    import numpy as np
    return dict(np.geterr())


def flat_of(a):
    """(shape, flat float list) of whatever the implementation returned"""
    import numpy as np
    r = np.asarray(a, dtype=float)
    return list(r.shape), [float(t) for t in r.ravel().tolist()]


def nest_shape(v):
    import numpy as np
    return list(np.asarray(v, dtype=float).shape)


def q_metric(kind, p, a, b):
    """textbook distance of two points in exact rationals: returns the value whose relation to the result is checked:
    ('eq', q) result == q ; ('pow', q) result**p == q"""
    dq = [abs(Fr(s) - Fr(t)) for s, t in zip(a, b)]
    if kind == "chebyshev" or p == "inf":
        return ("eq", max(dq))
    if kind == "hamming":
        return ("eq", Fr(sum(1 for t in dq if t != 0)))
    return ("pow", sum(t ** p for t in dq))


# ------------------------------------------------------------------ distance metrics with their shape logic
def gen_arr(rng, shape, exact, ints):
    def val():
        if ints:
            return float(rng.randint(-6, 6))
        if exact:
            return dyadic(rng, -4, 4, 4)
        return rng.uniform(-5, 5) if rng.random() > 0.2 else float(rng.randint(-2, 2))
    if len(shape) == 0:
        return val()
    if len(shape) == 1:
        return [val() for _ in range(shape[0])]
    return [[val() for _ in range(shape[1])] for _ in range(shape[0])]


def fam_dista(rng, exact):
    import numpy as np
    from mystic.math import distance as D
    b = B()
    kind = rng.choice(["chebyshev", "hamming", "manhattan", "euclidean", "minkowski", "minkowski"])
    p = {"manhattan": 1, "euclidean": 2}.get(kind, rng.choice([1, 2, 3, 3, 4, 0, "inf", 7]))
    if kind in ("chebyshev", "hamming"):
        p = 1
    form = rng.choice(["matrix", "matrix", "pairwise", "pairwise", "promote", "promote", "wild", "wild"])
    d = rng.randint(1, 4)
    same = False
    if form == "matrix":                                     # the documented common usage: pair=False, axis=0
        n = rng.randint(1, 4); m = rng.randint(1, 4)
        sx, sy, pair, dmin, axis = [n, d], [m, d], False, rng.choice([0, 0, 1, 2]), rng.choice([0, 0, 0, -3])
    elif form == "pairwise":                                 # pair=True, axis=1 (one row broadcasts)
        n = rng.randint(1, 4); m = n if rng.random() < 0.75 else 1
        sx, sy, pair, dmin, axis = [n, d], [m, d], True, rng.choice([0, 0, 2]), rng.choice([1, 1, -1])
        if rng.random() < 0.15:
            sx, sy = sy, sx
    elif form == "promote":                                  # a single point given as a 1-D array, or dmin=2 on two 1-D arrays
        k = rng.random()
        n = rng.randint(1, 4)
        if k < 0.35:
            sx, sy, pair, dmin, axis = [n, d], [d], False, 0, 0
        elif k < 0.55:
            sx, sy, pair, dmin, axis = [d], [n, d], False, rng.choice([0, 2]), 0
        elif k < 0.8:
            sx, sy, pair, dmin, axis = [d], [d], rng.random() < 0.5, 2, rng.choice([0, 0, None])
            if pair:
                axis = rng.choice([1, -1, None])
        else:
            sx, sy, pair, dmin, axis = [d], [d], True, rng.choice([0, 1]), rng.choice([None, 0, -1])
    else:
        def shp():
            nd = rng.choice([0, 1, 1, 2, 2])
            if nd == 0:
                return []
            if nd == 1:
                return [rng.choice([0, 1, 1, 2, 3, d])]
            return [rng.choice([1, 2, 3]), rng.choice([1, d, d])]
        sx, sy = shp(), shp()
        pair = rng.random() < 0.5
        dmin = rng.choice([0, 0, 1, 2, 3])
        axis = rng.choice([None, None, 0, 1, -1, 2, -2, 5])
    ints = rng.random() < 0.15
    X = gen_arr(rng, sx, exact, ints); Y = gen_arr(rng, sy, exact, ints)
    if rng.random() < 0.12:
        same = True; Y = X; sy = sx                          # xp=None
    # shared coordinates (hamming / zero distances) and special values
    xf = np.asarray(X, dtype=float).ravel().tolist(); yf = np.asarray(Y, dtype=float).ravel().tolist()
    if not same and yf and xf and len(sx) == len(sy) == 2 and sx[1] == sy[1]:
        for i in range(sx[0]):
            for c in range(sx[1]):
                if rng.random() < 0.25:
                    X[i][c] = Y[rng.randrange(sy[0])][c]
    special = None
    if not exact and not ints and rng.random() < 0.12 and len(sx) == 2 and sx[0] and sx[1]:
        special = rng.choice(["inf", "huge", "nan", "tiny", "tiny"])
        i0 = rng.randrange(sx[0])
        if special == "tiny":
            # a coordinate difference that is non-zero but whose p-th power underflows, beside ordinary ones, through
            # every calling form (the float-range stream c18r.py covers the documented forms scale-free)
            c0 = rng.randrange(sx[1])
            tiny = lambda: rng.choice([1, -1]) * 10.0 ** rng.uniform(-320, -60)
            X[i0][c0] = tiny()
            if not same and len(sy) == 2 and sy[1] == sx[1]:
                for j in range(sy[0]):
                    if rng.random() < 0.7:
                        Y[j][c0] = rng.choice([0.0, tiny()])
        else:
            X[i0][rng.randrange(sx[1])] = {"inf": INF, "huge": 1e200 * rng.choice([1, -1]), "nan": float("nan")}[special]
        if special == "huge" and rng.random() < 0.7:
            X[i0][rng.randrange(sx[1])] = 1e200 * rng.choice([1, -1, 0.5])       # often a second huge coordinate in the same point
    xf = np.asarray(X, dtype=float).ravel().tolist(); yf = np.asarray(Y, dtype=float).ravel().tolist()
    # argument typing: python lists, float arrays, integer lists / integer arrays
    def typed(v, shape):
        if ints:
            iv = np.asarray(v, dtype=float).astype(np.int64)
            return iv.tolist() if rng.random() < 0.5 else iv
        k = rng.random()
        return np.array(v, dtype=float) if k < 0.5 else v
    ax = typed(X, sx); ay = None if same and rng.random() < 0.7 else (ax if same else typed(Y, sy))
    keep_x = np.array(ax, dtype=float).copy(); keep_y = None if ay is None else np.array(ay, dtype=float).copy()
    fn = getattr(D, kind)
    kw = {"pair": pair, "dmin": dmin, "axis": axis}
    if kind == "minkowski":
        kw["p"] = np.inf if p == "inf" else p
    st0 = np_state()
    obs = b.call(lambda: flat_of(fn(ax, ay, **kw)))
    st1 = np_state()
    np.seterr(**st0)
    mutated = (not np.array_equal(keep_x, np.array(ax, dtype=float), equal_nan=True) or
               (ay is not None and not np.array_equal(keep_y, np.array(ay, dtype=float), equal_nan=True)))
    line = "C18 dista (kind %s) (p %s) (xshape %s) (x %s) (yshape %s) (y %s) (pair %s) (dmin %d) (axis %s)" % (
        kind, p, nl(sx), fl(xf), nl(sy), fl(yf), "true" if pair else "false", dmin, "none" if axis is None else axis)
    # exactness: max / count always; sums when every |a-b|^p is a small dyadic and the lanes are short
    pw = p if isinstance(p, int) else 1
    ct = b.Cert()
    if kind in ("manhattan", "euclidean", "minkowski") and p != "inf" and special is None:
        terms = [ct.pow(abs(s - t), pw) for s in xf for t in yf]
        if len(xf) * len(yf) <= 64:
            for t in terms:
                if not b.nice(t):
                    ct.ok = False
        else:
            ct.ok = False
        if max(len(xf), len(yf), 1) * max(sx + sy + [1]) > 32:
            ct.ok = False
    summing = kind in ("manhattan", "euclidean", "minkowski") and p != "inf"
    ex = (not summing) or (special is None and exact and ct.ok and p == 1)
    scale = 20.0
    inputs = {"x": X, "y": None if same else Y, "kind": kind, "p": p, "pair": pair, "dmin": dmin, "axis": axis, "ints": ints}

    def check(r):
        tag = "dista:%s:p=%s:%s" % (kind, p, form)
        mon = []
        if st1 != st0:
            cls = "exception-exit" if obs[0] == "err" else "normal-return"
            mon.append(("%s/numpy-error-state/%s" % (kind if kind != "euclidean" and kind != "manhattan" else "minkowski", cls),
                        "numpy.geterr() was %r before and %r after %s(%r)" % (st0, st1, kind, kw)))
        if mutated:
            mon.append(("%s/mutates-input" % kind, "the argument arrays were edited"))
        if obs[0] == "err" or r[0] == "err":
            dd = [] if (obs[0] == r[0] and obs[1] == r[1]) else ["%s: impl=%r model=%r" % (kind, obs, r[:2])]
            return dd, mon, tag + ":err-" + (obs[1] if obs[0] == "err" else "model"), False
        ishape, iv = obs[1]
        mshape = [int(t) for t in r[1]["shape"]]; mv = floats_of(r[1]["d"])
        dd = []
        if ishape != mshape:
            dd.append("%s: shape impl=%r model=%r" % (kind, ishape, mshape))
        elif not b.cmp_vec(ex, iv, mv, scale):
            dd.append("%s: impl=%r model=%r (%s)" % (kind, iv, mv, "bit-exact" if ex else "rel 1e-9"))
        # monitor: the textbook distance per pair of points, for the documented forms
        cells = None
        pts = lambda v, s: [v] if len(s) == 1 else v
        if special in (None, "huge", "tiny") and len(sx) >= 1 and len(sy) >= 1 and (sx[-1] == sy[-1]) and sx[-1] >= 1:
            PX = pts(X, sx); PY = pts(Y, sy)
            k = max(len(sx), len(sy), dmin)
            if k == 2 and not pair and axis in (0, -3):
                want = [len(PX), len(PY)]
                cells = [(i * len(PY) + j, PX[i], PY[j]) for i in range(len(PX)) for j in range(len(PY))]
            elif k == 2 and pair and axis in (1, -1) and (len(PX) == len(PY) or 1 in (len(PX), len(PY))):
                nn = max(len(PX), len(PY))
                want = [nn]
                cells = [(i, PX[i if len(PX) > 1 else 0], PY[i if len(PY) > 1 else 0]) for i in range(nn)]
            elif k == 2 and pair and axis is None and len(PX) == len(PY) == 1:
                want = []; cells = [(0, PX[0], PY[0])]
        if cells is not None:
            if ishape != want:
                mon.append(("%s/shape" % kind, "result shape %r, expected %r (x %r, x' %r, pair=%r dmin=%r axis=%r)" % (ishape, want, sx, sy, pair, dmin, axis)))
            else:
                for idx, a_, b_ in cells:
                    v = iv[idx]
                    rel, q = q_metric(kind, p, a_, b_)
                    good = (v == v) and (abs(v) != INF) and (b.q_close(Fr(v), q, scale) if rel == "eq" else (v >= 0 and b.q_close(Fr(v) ** p, q, scale ** p)))
                    if not good and special == "huge" and rel == "pow" and (v == v) and abs(v) != INF:
                        # an overflowing power: the documented answer is the infinity norm (l.187 "use the infinity norm")
                        good = b.q_close(Fr(v), q_metric("chebyshev", p, a_, b_)[1], scale)
                        import c18r
                        if good and c18r.overflow_state(c18r.cell_terms(a_, b_), p) == "no":
                            # ... of THIS pair of points; the fall-back replaces the whole array (finding F66)
                            mon.append(("minkowski/definition/overflow-of-another-cell", "%s(%r, %r%s) = %r: the infinity norm of this pair "
                                        "(its own powers do not overflow; another pair of the same call does) (pair=%r dmin=%r axis=%r)" % (
                                            kind, a_, b_, (", p=%s" % p) if kind == "minkowski" else "", v, pair, dmin, axis)))
                            break
                    if not good:
                        mon.append(("%s/definition" % kind, "%s(%r, %r%s) = %r (pair=%r dmin=%r axis=%r%s)" % (
                            kind, a_, b_, (", p=%s" % p) if kind == "minkowski" else "", v, pair, dmin, axis, ", integer-typed" if ints else "")))
                        break
            tag += ":textbook"
        tag += ":%s%s%s" % ("exact" if ex else "general", ":int-typed" if ints else "", ":xp=None" if same else "")
        if special:
            tag += ":" + special
        return dd, mon, tag, len(iv) > 1 or (sx + [1])[-1] > 1
    return dict(op="dist/" + kind, inputs=inputs, line=line, obs=obs, exact=ex, check=check)


# ------------------------------------------------------------------ standardised moments, expected variance / std
def two_point(rng):
    """weights (k, 1) on (c - a, c + k a), k a perfect square: mean c, variance k a^2 (a perfect square), third
    central moment k (k - 1) a^3, split over duplicated samples; every intermediate is a small dyadic"""
    k = rng.choice([1, 4, 4, 9])
    a = rng.choice([0.25, 0.5, 1.0, 2.0]) if k < 9 else rng.choice([0.25, 0.5])
    c = dyadic(rng, -2, 2, 4)
    if rng.random() < 0.5:
        a = -a
    xs = [c - a, c + k * a]; ws = [float(k), 1.0]
    if rng.random() < 0.5:                                   # split the heavy point
        xs = [c - a, c - a, c + k * a]; ws = [k / 2.0, k / 2.0, 1.0]
    if rng.random() < 0.4:                                   # a weightless bystander
        j = rng.randrange(len(xs) + 1); xs.insert(j, dyadic(rng, -4, 4, 4)); ws.insert(j, 0.0)
    if rng.random() < 0.25:                                  # a negative weight cancelled by a positive one on the same sample
        j = rng.randrange(len(xs)); x0 = xs[j]
        xs += [x0, x0]; ws += [-0.5, 0.5]
    s = rng.choice([0.5, 1.0, 1.0, 2.0])
    ws = [w * s for w in ws]
    idx = list(range(len(xs))); rng.shuffle(idx)
    return [xs[i] for i in idx], [ws[i] for i in idx]


def fam_moment2(rng, exact):
    from mystic.math import measures as M
    b = B()
    sub = rng.choice(["standard_moment", "standard_moment", "skewness", "kurtosis", "expected_variance"])
    ct = b.Cert()
    if sub == "expected_variance":
        n = rng.randint(1, 6); dim = rng.randint(1, 3)
        pts = b.gen_points(rng, n, dim, exact)
        e = b.gen_f(rng, dim, exact)
        weighted = rng.random() < 0.75
        ws = b.gen_weights(rng, n, exact, pzero=0.3, negative=(rng.random() < 0.25)) if weighted else None
        tol = rng.choice([0.0, 0.0, 0.25, 0.5])
        if ws and rng.random() < 0.25:
            tol = abs(rng.choice(ws))
        ys = [dsl.ev(e, q) for q in pts]
        keep = list(range(n)) if ws is None else [i for i in range(n) if abs(ws[i]) > tol]
        kw_ = None if ws is None else [ws[i] for i in keep]
        ky = [ys[i] for i in keep]
        if keep:
            v = ct.moment(ky, kw_, 2)
        called = []

        def f(q):
            called.append(b.flist(q)); return dsl.ev(e, q)
        obs = b.call(lambda: (float(M.expected_variance(f, pts, ws, tol)), float(M.expected_std(f, pts, ws, tol))))
        ex = exact and ct.ok
        line = "C18 expected2 (f %s) (pts %s) (ws %s) (tol %s)" % (dsl.expr_sexp(e), fll(pts), b.wtok(ws), f2b(tol))
        scale = max([abs(y) for y in ys] + [1.0]) ** 2

        def check(r):
            mon = []
            if obs[0] == "err" or r[0] == "err":
                d = [] if (obs[0] == r[0] and obs[1] == r[1]) else ["expected_variance: impl=%r model=%r" % (obs, r[:2])]
                return d, mon, "expected_variance:err", False
            d = b.diff_scalar("expected_variance", ex, ("ok", obs[1][0]), r, "v", scale) + b.diff_scalar("expected_std", ex, ("ok", obs[1][1]), r, "sd", scale)
            if keep and (kw_ is None or sum(b.fr(kw_)) != 0):
                want = b.q_wmoment(ky, kw_, 2)
                v, sd = obs[1]
                if not (v == v) or not b.q_close(Fr(v), want, scale):
                    mon.append(("expected_variance/definition", "expected_variance = %r, textbook %r (values %r weights %r tol %r)" % (v, float(want), ys, ws, tol)))
                elif v >= 0 and not b.close(sd, math.sqrt(v)):
                    mon.append(("expected_std/definition", "expected_std %r != sqrt(expected_variance %r)" % (sd, v)))
                if ws is not None and sorted(called) != sorted([pts[i] for i in keep] * 2):
                    mon.append(("expected_variance/evaluates-light-points", "f evaluated at %r, expected only |w|>tol points %r (twice)" % (called, [pts[i] for i in keep])))
            return d, mon, "expected_variance:%s:%s" % ("weighted" if ws is not None else "plain", "exact" if ex else "general"), ws is not None and 0 < len(keep) < n
        return dict(op="expected_variance", inputs={"f": dsl.expr_sexp(e), "pts": pts, "ws": ws, "tol": tol}, line=line, obs=obs, exact=ex, check=check)
    order = {"skewness": 3, "kurtosis": 4}.get(sub, rng.choice([0, 1, 2, 3, 3, 4, 5]))
    tol = rng.choice([0, 0, 0, 0.5, 2.0]) if sub == "standard_moment" else 0
    if exact and rng.random() < 0.7:
        xs, ws = two_point(rng)
        if rng.random() < 0.2 and all(w == ws[0] for w in ws):
            ws = None
    else:
        xs, ws = b.gen_xw(rng, exact, nmin=2, distinct=True)
        if ws is not None and rng.random() < 0.2 and len(ws) >= 2:
            ws[rng.randrange(len(ws))] *= -0.5                 # a negative weight
    if not exact:
        for _ in range(40):
            if (ws is None or sum(b.fr(ws)) != 0) and b.q_wmoment(xs, ws, 2) >= Fr(1, 20):
                break
            xs, ws = b.gen_xw(rng, exact, nmin=2, distinct=True)
        else:
            xs, ws = [0.5, 2.25, -1.125], None
    if exact and rng.random() < 0.05:
        xs = [xs[0]] * len(xs)                                # degenerate: zero variance
    var = ct.moment(xs, ws, 2)
    sd = math.sqrt(var) if var == var and var >= 0 else float("nan")
    if not (sd == sd) or Fr(sd) * Fr(sd) != Fr(var):
        ct.ok = False
    else:
        ct.pow(sd, order)
    ct.moment(xs, ws, order)
    ex = exact and ct.ok
    if sub == "standard_moment":
        obs = b.call(lambda: float(M.standard_moment(b.maybe_np(rng, xs), b.maybe_np(rng, ws), order, tol)))
    elif sub == "skewness":
        obs = b.call(lambda: float(M.skewness(b.maybe_np(rng, xs), b.maybe_np(rng, ws))))
    else:
        obs = b.call(lambda: float(M.kurtosis(b.maybe_np(rng, xs), b.maybe_np(rng, ws))))
    line = "C18 stat2 (kind %s) (xs %s) (ws %s) (order %d) (tol %s)" % (sub, fl(xs), b.wtok(ws), order, f2b(tol))
    scale = 16.0

    def check(r):
        mon = []
        d = b.diff_scalar(sub, ex, obs, r, "v", scale)
        if obs[0] == "ok" and (ws is None or sum(b.fr(ws)) != 0):
            qv = b.q_wmoment(xs, ws, 2)
            v = obs[1]
            if qv > Fr(1, 1000) or (qv > 0 and ex):
                if order == 2:
                    ok_ = v == 1.0
                else:
                    qm = Fr(1) if order == 0 else (Fr(0) if order == 1 else b.q_wmoment(xs, ws, order))
                    cut = order >= 2 and abs(qm) <= Fr(tol)
                    near_cut = order >= 2 and tol and b.q_close(abs(qm), Fr(tol), 1.0)
                    if cut:
                        qm = Fr(0)
                    # (moment / sigma^order)^2 = moment^2 / variance^order
                    ok_ = (v == v) and abs(v) != INF and (near_cut or (b.q_close(Fr(v) ** 2 * qv ** order, qm ** 2, float(qv ** order) + 1.0)
                                                                     and (qm == 0 or (v > 0) == (qm > 0))))
                if not ok_:
                    mon.append(("%s/definition" % sub, "%s(%r, %r, order=%d, tol=%r) = %r; textbook moment/sigma^order with variance %r" %
                                (sub, xs, ws, order, tol, v, float(qv))))
        nt = len(set(xs)) > 1
        return d, mon, "%s:order=%d:%s:%s" % (sub, order, "weighted" if ws is not None else "plain", "exact" if ex else "general"), nt
    return dict(op=sub, inputs={"xs": xs, "ws": ws, "order": order, "tol": tol}, line=line, obs=obs, exact=ex, check=check)


# ------------------------------------------------------------------ impose_moment
def small_xw(rng, exact):
    """small integer / half-integer samples with power-of-two total weight: moments up to order 4 stay exact"""
    n = rng.randint(2, 5)
    if exact:
        den = rng.choice([1, 1, 2])
        xs = [rng.randint(-3 * den, 3 * den) / den for _ in range(n)]
        if len(set(xs)) < 2:
            xs[0] += 1.0
        if rng.random() < 0.6:
            T = rng.choice([2, 4, 4, 8])
            ws = [float(q) for q in B().compose(rng, T, n, 0.2)]
        else:
            ws = None
            if n not in (2, 4):
                xs = xs[:4] if n > 4 else xs[:2]
    else:
        xs = [rng.uniform(-4, 4) for _ in range(n)]
        ws = None if rng.random() < 0.4 else [0.0 if rng.random() < 0.15 else rng.uniform(0.1, 3.0) for _ in range(n)]
        if ws is not None and not any(ws):
            ws[0] = 1.0
    return xs, ws


def fam_impose_moment(rng, exact):
    import numpy as np
    from mystic.math import measures as M
    b = B()
    order = rng.choice([0, 1, 2, 2, 3, 3, 4, 5])
    skew = rng.choice([None, None, None, True, False])
    tol = rng.choice([0, 0, 0, 0, 0.25])
    xs, ws = small_xw(rng, exact)
    if not exact and order >= 2:
        # the property excludes (near-)degenerate moments: keep the general stream well conditioned (a moment that is
        # zero in exact arithmetic is rounding noise in floats, and impose_moment divides by it), and away from the tol cut
        sk0 = (order % 2 == 1) if skew is None else bool(skew)
        for _ in range(40):
            y0 = [x * x for x in xs] if sk0 else xs
            if ws is None or sum(b.fr(ws)) != 0:
                q0 = abs(b.q_wmoment(y0, ws, order))
                if q0 >= Fr(1, 20) and abs(q0 - Fr(tol)) >= Fr(1, 100):
                    break
            xs, ws = small_xw(rng, exact)
        else:
            xs, ws = [0.5, 2.25, -1.125, 3.0], None
    degenerate = exact and rng.random() < 0.08
    if degenerate:
        xs = [xs[0]] * len(xs)
    n = len(xs)
    ct = b.Cert()
    m0 = ct.mean(xs, ws)
    sk = (order % 2 == 1) if skew is None else bool(skew)
    ys = [x * x for x in xs] if sk else list(xs)
    sv = ct.moment(ys, ws, order) if order >= 2 else 0.0
    if order >= 2 and tol and sv == sv and abs(sv) <= tol:
        sv = 0.0
    # target: sv * r^order for a dyadic r (exact n-th root), sometimes of the opposite sign, 0, or negative
    rr = rng.choice([0.5, 1.0, 2.0, 1.5, 0.25]) if exact else rng.uniform(0.3, 2.5)
    k = rng.random()
    if order == 0:
        t = rng.choice([1.0, 1.0, 2.0, 0.0])
    elif order == 1:
        t = rng.choice([0.0, 0.0, 1.5])
    else:
        t = sv * rr ** order if (sv == sv and sv) else rng.choice([0.0, 1.0])
        if k < 0.2:
            t = -t
        elif k < 0.26:
            t = 0.0
    scale_f = 0.0
    if order >= 2 and sv and sv == sv:
        fact = t / sv
        scale_f = float(np.power(abs(fact), 1.0 / order))
        if Fr(scale_f) ** order != Fr(abs(fact)) or Fr(fact) * Fr(sv) != Fr(t):
            ct.ok = False
        zs = list(ys)
        if order % 2 and fact < 0:
            zs = [max(ys) + min(ys) - y for y in ys]
        zs = [z * scale_f for z in zs]
        ct.mean(zs, ws)
    ex = exact and ct.ok
    kw = {}
    if skew is not None:
        kw["skew"] = skew
    xs_in = b.maybe_np(rng, xs); ws_in = b.maybe_np(rng, ws)
    keep = list(xs)
    obs = b.call(lambda: b.flist(M.impose_moment(t, xs_in, ws_in, order, tol, **kw)))
    mutated = b.flist(xs_in) != keep
    line = "C18 impose_moment (t %s) (xs %s) (ws %s) (order %d) (tol %s) (skew %s)" % (
        f2b(t), fl(xs), b.wtok(ws), order, f2b(tol), "none" if skew is None else ("true" if skew else "false"))
    scale = max([abs(y) for y in ys] + [abs(t), 1.0]) * 4

    def check(r):
        mon = []
        tag = "impose_moment:order=%d:skew=%s" % (order, skew)
        if mutated:
            mon.append(("impose_moment/mutates-input", "the samples were edited"))
        if obs[0] == "err" or r[0] == "err":
            d = [] if (obs[0] == r[0] and obs[1] == r[1]) else ["impose_moment: impl=%r model=%r" % (obs, r[:2])]
            return d, mon, tag + ":err", False
        y = obs[1]
        d = b.diff_vec("impose_moment", ex, y, r, "y", scale)
        wok = ws is None or sum(b.fr(ws)) != 0
        if len(y) != n:
            mon.append(("impose_moment/length", "returned %d points for %d samples" % (len(y), n)))
        elif wok and order >= 2 and b.finite(y):
            qsv = b.q_wmoment(ys, ws, order)
            nondeg = abs(qsv) > max(Fr(tol), Fr(1, 100)) if not ex else (qsv != 0 and abs(qsv) > Fr(tol))
            reachable = (order % 2 == 1) or (t >= 0 and Fr(t) / qsv >= 0) if qsv != 0 else False
            if nondeg and reachable:
                qm = b.q_wmoment(y, ws, order)
                if not b.q_close(qm, Fr(t), scale ** order):
                    mon.append(("impose_moment/target", "moment(order=%d) of the result is %r, target %r (xs=%r ws=%r skew=%r tol=%r)" %
                                (order, float(qm), t, xs, ws, skew, tol)))
                if not b.q_close(b.q_wmean(y, ws), b.q_wmean(xs, ws), scale):
                    mon.append(("impose_moment/mean-kept", "mean %r -> %r (xs=%r ws=%r order=%d skew=%r)" %
                                (float(b.q_wmean(xs, ws)), float(b.q_wmean(y, ws)), xs, ws, order, skew)))
                tag += ":target-checked"
        if wok and order >= 2 and len(y) == n:
            # l.523-530: a moment that is zero (or within tol) cannot be rescaled: an even order collapses every sample
            # onto the mean, an odd order returns the samples for target 0 and nan otherwise
            qsv0 = b.q_wmoment(ys, ws, order)
            inside = (qsv0 == 0 and ex) or (tol and abs(qsv0) < Fr(tol) * (1 - Fr(1, 10 ** 6)) and (ex or abs(qsv0) > Fr(1, 1000)))
            if inside and not (order % 2 == 0 and t < 0):
                if order % 2 == 0:
                    okc = b.finite(y) and all(b.q_close(Fr(a), b.q_wmean(xs, ws), scale) for a in y)
                elif t == 0:
                    okc = b.finite(y) and all(b.q_close(Fr(a), Fr(c), scale) for a, c in zip(y, ys))
                else:
                    okc = all(a != a for a in y)
                if not okc:
                    mon.append(("impose_moment/degenerate-exit", "moment %r of the%s samples is within tol=%r: impose_moment(%r, %r, %r, order=%d, skew=%r) = %r" %
                                (float(qsv0), " squared" if sk else "", tol, t, xs, ws, order, skew, y)))
                tag += ":degenerate-checked"
        if wok and order >= 2 and len(y) == n and not b.finite(y):
            qsv = b.q_wmoment(ys, ws, order)
            if abs(qsv) > max(Fr(tol), Fr(1, 100)) and not (order % 2 == 0 and t < 0):
                mon.append(("impose_moment/nan-on-nondegenerate", "non-finite result %r (t=%r xs=%r ws=%r order=%d skew=%r)" % (y, t, xs, ws, order, skew)))
        elif order == 0 and b.finite(y) != (t == 1):
            mon.append(("impose_moment/order0", "order 0: target %r gives %r" % (t, y)))
        elif order == 1 and b.finite(y) != (t == 0):
            mon.append(("impose_moment/order1", "order 1: target %r gives %r" % (t, y)))
        tag += ":%s:%s%s" % ("weighted" if ws is not None else "plain", "exact" if ex else "general", "" if b.finite(y) else ":nan")
        return d, mon, tag, b.finite(y) and order >= 2 and y != xs
    return dict(op="impose_moment", inputs={"t": t, "xs": xs, "ws": ws, "order": order, "tol": tol, "skew": skew}, line=line, obs=obs, exact=ex, check=check)


# ------------------------------------------------------------------ impose_product
def fam_impose_product(rng, exact):
    import numpy as np
    from mystic.math import measures as M
    b = B()
    n = rng.randint(1, 5)
    if exact:
        ws = [rng.choice([0.5, 1.0, 2.0, 4.0, 0.25, 1.5, 3.0, -1.0, -2.0, -0.5]) for _ in range(n)]
    else:
        ws = [rng.uniform(0.2, 3.0) * rng.choice([1, 1, 1, -1]) for _ in range(n)]
    k = rng.random()
    if k < 0.08:
        ws[rng.randrange(n)] = 0.0                           # product 0
    elif k < 0.11:
        ws = []; n = 0
    w = 1.0
    for a in ws:
        w *= a
    zsum = rng.random() < 0.35
    zmass = rng.choice([1.0, 1.0, 2.0, 0.5, -1.0])
    rr = rng.choice([0.5, 1.0, 2.0, 4.0, 1.5]) if exact else rng.uniform(0.3, 3.0)
    u = rng.random()
    if u < 0.18:
        mass = 0.0
    else:
        mass = (w / rr ** n) if (w and n) else rng.choice([1.0, 2.0])
        if u < 0.42:
            mass = -mass
    ct = b.Cert()
    if exact:
        if Fr(w) != math.prod([Fr(a) for a in ws], start=Fr(1)):
            ct.ok = False
        if w and mass and n:
            q = w / mass
            root = abs(q) ** (1.0 / n)
            if Fr(q) * Fr(mass) != Fr(w) or Fr(root) ** n != abs(Fr(q)):
                ct.ok = False
            if any(Fr(a / root) * Fr(root) != Fr(a) for a in ws):
                ct.ok = False
        elif w and not mass and zsum and n >= 2:
            q = (w / ws[-1]) / zmass
            root = abs(q) ** (1.0 / (n - 1))
            if Fr(w / ws[-1]) * Fr(ws[-1]) != Fr(w) or Fr(q) * Fr(zmass) != Fr(w / ws[-1]) or Fr(root) ** (n - 1) != abs(Fr(q)):
                ct.ok = False
            if any(Fr(a / root) * Fr(root) != Fr(a) for a in ws):
                ct.ok = False
    ex = exact and ct.ok
    arg = b.maybe_np(rng, ws)
    obs = b.call(lambda: b.flist(M.impose_product(mass, arg, zsum, zmass)))
    mutated = b.flist(arg) != ws
    line = "C18 impose_product (mass %s) (ws %s) (zsum %s) (zmass %s)" % (f2b(mass), fl(ws), "true" if zsum else "false", f2b(zmass))
    scale = max([abs(a) for a in ws] + [abs(mass), 1.0]) * 4

    def check(r):
        mon = []
        if mutated:
            mon.append(("impose_product/mutates-input", "the weights were edited"))
        if obs[0] == "err" or r[0] == "err":
            d = [] if (obs[0] == r[0] and obs[1] == r[1]) else ["impose_product: impl=%r model=%r" % (obs, r[:2])]
            return d, mon, "impose_product:err-" + (obs[1] if obs[0] == "err" else "model"), False
        y = obs[1]
        d = b.diff_vec("impose_product", ex, y, r, "w", scale)
        qw = math.prod(b.fr(ws), start=Fr(1))
        branch = "zero-product" if qw == 0 else ("mass" if mass else ("zsum" if zsum else "zero-mass"))
        if len(y) != n:
            mon.append(("impose_product/length", "returned %d weights for %d" % (len(y), n)))
        elif qw != 0 and b.finite(y) and n:
            qp = math.prod(b.fr(y), start=Fr(1))
            mismatch = mass and n % 2 == 0 and (qw / Fr(mass)) < 0
            sc = scale ** n
            if mismatch:
                # an even number of weights cannot change the sign of their product under a common rescaling:
                # the strongest true statement is |product| = |mass|
                branch += ":even-sign-mismatch"
                if not b.q_close(abs(qp), abs(Fr(mass)), sc):
                    mon.append(("impose_product/magnitude", "product of impose_product(%r, %r) is %r" % (mass, ws, float(qp))))
                if not b.q_close(qp, Fr(mass), sc):
                    mon.append(("impose_product/target/even-length-sign-mismatch", "product of impose_product(%r, %r) = %r is %r, target %r" %
                                (mass, ws, y, float(qp), mass)))
            elif not b.q_close(qp, Fr(mass), sc):
                mon.append(("impose_product/target", "product of impose_product(%r, %r, zsum=%r, zmass=%r) = %r is %r" % (mass, ws, zsum, zmass, y, float(qp))))
            if not mass and not zsum and any(a != 0.0 for a in y):
                mon.append(("impose_product/zero-target", "impose_product(0, %r, zsum=False) = %r, expected all zeros" % (ws, y)))
            if not mass and zsum and n >= 2:
                # counterbalance: the last weight is zeroed, the others are rescaled to the product zmass
                qh = math.prod(b.fr(y[:-1]), start=Fr(1))
                qrest = qw / Fr(ws[-1])
                flipped = (n - 1) % 2 == 0 and qrest / Fr(zmass) < 0          # same sign obstruction as C18-K1
                if y[-1] != 0.0 or not b.q_close(abs(qh), abs(Fr(zmass)), scale ** n) or (not flipped and not b.q_close(qh, Fr(zmass), scale ** n)):
                    mon.append(("impose_product/zsum-counterbalance", "impose_product(0, %r, zsum=True, zmass=%r) = %r: last weight must be 0 and the others have product zmass (got %r)" %
                                (ws, zmass, y, float(qh))))
            if mass and not all(b.q_close(Fr(a) * Fr(ws[0]), Fr(c) * Fr(y[0]), scale * scale) for a, c in zip(y, ws)):
                mon.append(("impose_product/proportions", "impose_product(%r, %r) = %r is not a common rescaling" % (mass, ws, y)))
        return d, mon, "impose_product:%s:%s" % (branch, "exact" if ex else "general"), qw != 0 and n > 1
    return dict(op="impose_product", inputs={"mass": mass, "ws": ws, "zsum": zsum, "zmass": zmass}, line=line, obs=obs, exact=ex, check=check)


# ------------------------------------------------------------------ integer-typed weights
def fam_weights_int(rng, exact):
    """normalize / impose_sum / impose_weight_norm / 'l<p>' on INTEGER-typed weights (python ints, integer ndarray):
    the same model commands as the float streams (the values are the same numbers)."""
    import numpy as np
    from mystic.math import measures as M
    b = B()
    sub = rng.choice(["normalize", "impose_sum", "lp", "lp", "weight_norm"])
    n = rng.randint(1, 6)
    T = rng.choice([2, 4, 8, 8, 16])
    iw = b.compose(rng, T, n, 0.25)
    if rng.random() < 0.3 and n >= 2:
        # a negative entry, total still a power of two
        i, j = rng.sample(range(n), 2); iw[i] -= T; iw[j] += T
    if not exact:
        iw = [rng.randint(-3, 9) for _ in range(n)]
        if sum(iw) == 0 or not any(iw):
            iw[0] += 5
    ws = [float(a) for a in iw]
    arg = list(iw) if rng.random() < 0.5 else np.array(iw, dtype=np.int64)
    ct = b.Cert()
    W = ct.sum([abs(a) for a in ws])
    ssum = sum(iw)
    if sub == "lp":
        p = rng.choice([0, 1, 1, 2, 3, 4, 5])
        zsum = False
        if p >= 1:
            ct.sum([abs(ct.pow(a, p)) for a in ws])
        if exact and p >= 2 and W:
            tot = sum(abs(Fr(a)) ** p for a in ws); rt = float(tot) ** (1.0 / p)
            if Fr(rt) ** p != tot:
                ct.ok = False
        ex = exact and ct.ok
        obs = b.call(lambda: b.flist(M.normalize(arg, "l%d" % p, zsum)))
        line = "C18 normalize (ws %s) (lp %d) (zsum false)" % (fl(ws), p)

        def check(r):
            if obs[0] == "err" or r[0] == "err":
                d = [] if (obs[0] == r[0] and obs[1] == r[1]) else ["normalize-l%d(int): impl=%r model=%r" % (p, obs, r[:2])]
                return d, [], "normalize-int:lp:err", False
            y = obs[1]
            d = b.diff_vec("normalize(l%d,int)" % p, ex, y, r, "w", 4.0)
            mon = []
            if b.finite(y) and any(ws) and p >= 1:
                lp = sum(abs(Fr(a)) ** p for a in y)
                if not b.q_close(lp, Fr(1), 1.0):
                    mon.append(("normalize/lp-norm", "sum |w|^%d of normalize(%r, 'l%d') is %r, expected 1 (integer-typed)" % (p, iw, p, float(lp))))
                if not all(b.q_close(Fr(a) * Fr(ws[0]), Fr(c) * Fr(y[0]), 100.0) for a, c in zip(y, ws)):
                    mon.append(("normalize/proportions", "normalize(%r, 'l%d') = %r is not a common rescaling" % (iw, p, y)))
            return d, mon, "normalize-int:l%d:%s" % (p, "exact" if ex else "general"), b.finite(y) and any(y)
        return dict(op="normalize-lp-int", inputs={"ws": iw, "p": p}, line=line, obs=obs, exact=ex, check=check)
    mass = dyadic(rng, -4, 4, 4) if exact else rng.uniform(-4, 4)
    if mass == 0.0 or ssum == 0 or W == 0:
        mass = 1.0
    if ssum == 0 or W == 0:
        iw[0] += T; ws = [float(a) for a in iw]; ssum = sum(iw); W = ct.sum([abs(a) for a in ws])
        arg = list(iw) if isinstance(arg, list) else np.array(iw, dtype=np.int64)
    w1 = [a / W for a in ws]
    mm = ct.sum(w1)
    w2 = [(mass * a) / mm for a in w1] if mm else w1
    scale = max([abs(a) for a in ws] + [abs(mass), 1.0]) * 4
    if sub == "weight_norm":
        xs = b.gen_samples(rng, n, exact, ws="weighted")
        ct.mean(xs, ws); ct.mean(xs, w2)
        ex = exact and ct.ok
        obs = b.call(lambda: (lambda q: (b.flist(q[0]), b.flist(q[1])))(M.impose_weight_norm(xs, arg, mass)))
        line = "C18 weight_norm (xs %s) (ws %s) (mass %s)" % (fl(xs), fl(ws), f2b(mass))

        def check(r):
            if obs[0] == "err" or r[0] == "err":
                d = [] if (obs[0] == r[0] and obs[1] == r[1]) else ["impose_weight_norm(int): impl=%r model=%r" % (obs, r[:2])]
                return d, [], "weight_norm-int:err", False
            y, w = obs[1]
            d = b.diff_vec("impose_weight_norm.samples(int)", ex, y, r, "y", scale) + b.diff_vec("impose_weight_norm.weights(int)", ex, w, r, "w", scale)
            mon = []
            if b.finite(y) and b.finite(w) and sum(b.fr(w)) != 0:
                if not b.q_close(sum(b.fr(w)), mass, scale):
                    mon.append(("impose_weight_norm/total", "weights sum to %r, mass %r (integer-typed ws=%r)" % (float(sum(b.fr(w))), mass, iw)))
                if not b.q_close(b.q_wmean(y, w), b.q_wmean(xs, ws), scale):
                    mon.append(("impose_weight_norm/mean-kept", "weighted mean changed (integer-typed ws=%r xs=%r mass=%r)" % (iw, xs, mass)))
            return d, mon, "weight_norm-int:%s" % ("exact" if ex else "general"), n > 1
        return dict(op="impose_weight_norm-int", inputs={"xs": xs, "ws": iw, "mass": mass}, line=line, obs=obs, exact=ex, check=check)
    ex = exact and ct.ok
    if sub == "impose_sum":
        obs = b.call(lambda: b.flist(M.impose_sum(mass, arg)))
    else:
        obs = b.call(lambda: b.flist(M.normalize(arg, mass)))
    line = "C18 normalize (ws %s) (mass %s) (zsum false) (zmass %s)" % (fl(ws), f2b(mass), f2b(1.0))

    def check(r):
        if obs[0] == "err" or r[0] == "err":
            d = [] if (obs[0] == r[0] and obs[1] == r[1]) else ["%s(int): impl=%r model=%r" % (sub, obs, r[:2])]
            return d, [], "%s-int:err" % sub, False
        y = obs[1]
        d = b.diff_vec(sub + "(int)", ex, y, r, "w", scale)
        mon = []
        if len(y) != n:
            mon.append(("%s/length" % sub, "returned %d weights for %d" % (len(y), n)))
        elif b.finite(y):
            if not b.q_close(sum(b.fr(y)), mass, scale):
                mon.append(("%s/total" % sub, "%s(%r, mass=%r) sums to %r (integer-typed)" % (sub, iw, mass, float(sum(b.fr(y))))))
            if not all(b.q_close(Fr(a) * ssum, Fr(mass) * Fr(c), scale * scale) for a, c in zip(y, ws)):
                mon.append(("%s/proportions" % sub, "%s(%r, mass=%r) = %r is not a rescaling (integer-typed)" % (sub, iw, mass, y)))
        else:
            mon.append(("%s/non-finite" % sub, "%s(%r, mass=%r) = %r (integer-typed)" % (sub, iw, mass, y)))
        return d, mon, "%s-int:%s" % (sub, "exact" if ex else "general"), n > 1
    return dict(op=sub + "-int", inputs={"ws": iw, "mass": mass}, line=line, obs=obs, exact=ex, check=check)


FAMILIES_X = [("dista", fam_dista, 7), ("moment2", fam_moment2, 3), ("impose_moment", fam_impose_moment, 4),
              ("impose_product", fam_impose_product, 2), ("weights_int", fam_weights_int, 2)]


# ------------------------------------------------------------------ fixed witnesses of recorded defects
def witnesses():
    """re-confirm the recorded defects of impose_product / minkowski on fixed inputs -> [(class_key, what, desc)]"""
    import numpy as np
    from mystic.math import measures as M, distance as D
    out = []
    with warnings.catch_warnings():
        warnings.simplefilter("ignore")
        y = [float(a) for a in M.impose_product(-1.0, [1.0, 1.0])]
        if y[0] * y[1] != -1.0:
            out.append(("impose_product/target/even-length-sign-mismatch",
                        "product of impose_product(-1.0, [1.0, 1.0]) = %r is %r, target -1.0" % (y, y[0] * y[1]),
                        {"op": "impose_product", "inputs": {"mass": -1.0, "ws": [1.0, 1.0]}, "impl": repr(y)}))
        st0 = dict(np.geterr())
        try:
            D.minkowski([[1.0, 2.0]], [[3.0, 4.0]], p=0, axis=0)
        except ZeroDivisionError:
            pass
        st1 = dict(np.geterr())
        np.seterr(**st0)
        if st1 != st0:
            out.append(("minkowski/numpy-error-state/exception-exit",
                        "numpy.geterr() was %r before and %r after minkowski([[1.,2.]], [[3.,4.]], p=0, axis=0) raised ZeroDivisionError" % (st0, st1),
                        {"op": "minkowski", "inputs": {"p": 0}, "impl": repr(st1)}))
        v = float(np.asarray(D.minkowski([[0]], [[1000]], p=7, axis=0)).ravel()[0])
        if not (abs(v - 1000.0) <= 1e-6):
            out.append(("minkowski/definition/integer-typed-power-wraps",
                        "minkowski([[0]], [[1000]], p=7, axis=0) = %r, textbook distance 1000.0 (int64 power wraps silently)" % v,
                        {"op": "minkowski", "inputs": {"x": [[0]], "y": [[1000]], "p": 7}, "impl": repr(v)}))
    return out
