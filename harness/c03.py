"""C03 - see DESIGN.md section 5; shared machinery in solvercheck.py"""
import solvercheck, framework
PID = "C03"
MODULE = "MysticVerif.Props.C03"
THEOREMS = ["MysticVerif.C03.de_evaluations_constrained", "MysticVerif.C03.de_reported_constrained", "MysticVerif.C03.nm_evaluations_constrained", "MysticVerif.C03.nm_reported_constrained_partial", "MysticVerif.C03.K_common_fixpoint"]


def run_shard(pid, seed, shard, ncases, tier, extra):
    return solvercheck.run_shard(PID, seed, shard, ncases, tier, extra)


def main(tier, seed):
    return solvercheck.main(PID, MODULE, THEOREMS, tier, seed, RULE_EXTRA, TRUSTED_EXTRA)


RULE_EXTRA = 'constraints installed from the start and mid-run (always generated compatible with the box in force).'
TRUSTED_EXTRA = ['Powell: monitor only']


def replay(path):
    return solvercheck.replay(PID, path)
