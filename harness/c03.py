"""C03 - see DESIGN.md section 5; shared machinery in solvercheck.py"""
import solvercheck, framework
PID = "C03"
MODULE = "MysticVerif.Props.C03Solve"
THEOREMS = ["MysticVerif.C03.de_evaluations_constrained", "MysticVerif.C03.de_reported_constrained", "MysticVerif.C03.nm_evaluations_constrained", "MysticVerif.C03.nm_reported_constrained_partial", "MysticVerif.C03.K_common_fixpoint", "MysticVerif.C03.pw_evaluations_constrained", "MysticVerif.C03.pw_reported_constrained", "MysticVerif.C03.pw_step_record_partial", "MysticVerif.C03.pw_step_record_unconstrained_witness", "MysticVerif.C03.solve_de_constrained", "MysticVerif.C03.solve_nm_constrained", "MysticVerif.C03.solve_pw_constrained", "MysticVerif.Reconfig.reconfigured_record_origin", "MysticVerif.Reconfig.reconfigured_evaluations_constrained", "MysticVerif.Reconfig.nm_reconfigured_evaluations_constrained"]


def run_shard(pid, seed, shard, ncases, tier, extra):
    return solvercheck.run_shard(PID, seed, shard, ncases, tier, extra)


def main(tier, seed):
    return solvercheck.main(PID, MODULE, THEOREMS, tier, seed, RULE_EXTRA, TRUSTED_EXTRA)


RULE_EXTRA = 'constraints installed from the start and mid-run (always generated compatible with the box in force).'
TRUSTED_EXTRA = ["Powell: the Brent line search is an oracle of the model (which points it evaluates, which one it returns), recorded from the real run; the contract 'never worse than the start' (LsMono) is checked on every recorded search; everything else of PowellDirectionalSolver._Step is computed by the model and replayed bit for bit (histogram model:pw, pw-iterations, pw-extrapolation-searches)"]


def replay(path):
    return solvercheck.replay(PID, path)
