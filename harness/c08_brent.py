"""C08 - the Brent line search (bracket / brent / _linesearch_powell): generators, real runs, requests to the Lean
transcription (Model/Brent.lean via Drv/C08 `bracket`, `brent`, `powellb`), bit-exact comparison and the monitors
that evaluate the line-search clauses on what the real code returned (independent of the model).

Streams (case_rng(PID + "/<stream>", seed, shard, k)):
  bracket - _scipy060optimize.bracket(func, xa, xb, grow_limit, maxiter) on generated 1-D functions
  brent   - _scipy060optimize.brent(func, brack=None|2|3|bad, tol, full_output=1, maxiter) on generated 1-D functions
  lsp     - _linesearch_powell (mystic's scipy_optimize one, with maxiter, and the reference one) on n-D costs"""
import math
import numpy as np
import common
from common import fl, fll, f2b, b2f, same_vec, same_float, parse_reply, dyadic, gfloat
import dsl, solvergen

INF = float("inf")
NAN = float("nan")


def hadd(h, k, n=1):
    h[k] = h.get(k, 0) + n


def vec(x):
    return [float(v) for v in np.asarray(x, dtype=float).ravel()]


# ------------------------------------------------------------------------------------ generated 1-D functions
def gen_fn1(rng):
    """(kind, expr over x0, box or None): smooth, kinked, flat, steps, bumpy, unbounded below, +inf regions, NaN regions"""
    X = ("x", 0)
    c = rng.choice([0.0, 1.0, 0.5, 2.618034, dyadic(rng, -6, 6, 4), gfloat(rng, 5.0), rng.uniform(-30, 30), rng.uniform(-1, 2),
                    rng.choice([1e6, -3e7, 2.5e9, 1e15])])       # far away: with tol = 0 the step tol1 = 1e-11 is below one ulp of x (u == x)
    k = rng.choice([1.0, 1.0, 2.0, 0.5, 0.25, 100.0, 1e-6, rng.uniform(0.1, 10)])
    d = rng.choice([0.0, 0.0, dyadic(rng, -4, 4, 2), gfloat(rng, 5.0)])
    sh = ("-", X, ("c", c))
    kinds = ["quad", "quad", "quartic", "abs", "vee", "absquad", "const", "flatbottom", "steps", "stepabs", "stepdown", "linear",
             "negquad", "bumpy", "bumpstep", "rational", "hump", "random", "nanregion", "intquad", "intabs", "twowell", "spike"]
    kind = rng.choice(kinds)
    box = None
    if kind == "quad":
        e = ("+", ("*", ("c", k), ("sq", sh)), ("c", d))
    elif kind == "quartic":
        e = ("+", ("*", ("c", k), ("sq", ("sq", sh))), ("c", d))
    elif kind == "abs":
        e = ("+", ("*", ("c", k), ("abs", sh)), ("c", d))
    elif kind == "vee":          # asymmetric kink
        e = ("max", ("*", ("c", k), sh), ("*", ("c", -rng.choice([0.5, 2.0, 3.0])), sh))
    elif kind == "absquad":
        e = ("+", ("abs", sh), ("*", ("c", k), ("sq", ("-", X, ("c", c + rng.choice([0.0, 0.5, -1.0]))))))
    elif kind == "const":
        e = ("c", d)
    elif kind == "flatbottom":
        e = ("max", ("c", 0.0), ("-", ("abs", sh), ("c", rng.choice([0.25, 1.0, 4.0]))))
    elif kind == "steps":
        e = ("sq", ("rint", ("*", ("c", rng.choice([1.0, 2.0, 0.5, 4.0])), sh)))
    elif kind == "stepabs":
        e = ("abs", ("rint", ("*", ("c", rng.choice([1.0, 2.0, 0.5])), sh)))
    elif kind == "stepdown":     # decreasing staircase, unbounded below
        e = ("neg", ("rint", ("*", ("c", rng.choice([1.0, 0.5, 0.125])), X)))
    elif kind == "linear":
        e = ("+", ("*", ("c", rng.choice([-1.0, 1.0, -k, k, -3.0])), X), ("c", d))
    elif kind == "negquad":
        e = ("neg", ("*", ("c", k), ("sq", sh)))
    elif kind == "bumpy":        # a wide valley with narrow bumps: f(w) > f(xb) > f(xc) between bracket points
        e = ("+", ("*", ("c", rng.choice([0.01, 0.1, 1.0])), ("sq", sh)),
             ("*", ("c", rng.choice([1.0, 5.0, 0.3])), ("abs", ("-", ("*", ("c", 2.0), X), ("rint", ("*", ("c", 2.0), X))))))
    elif kind == "bumpstep":
        e = ("+", ("neg", ("rint", X)), ("*", ("c", rng.choice([3.0, 8.0, 1.5])), ("abs", ("-", X, ("rint", X)))))
    elif kind == "rational":     # bounded, flat tails: -k / (1 + (x-c)^2)
        e = ("/", ("c", -k), ("+", ("c", 1.0), ("sq", sh)))
    elif kind == "hump":         # a maximum: downhill both ways, flat tails
        e = ("/", ("c", k), ("+", ("c", 1.0), ("sq", sh)))
    elif kind == "random":
        e = dsl.gen_expr(rng, 1, depth=3)
    elif kind == "nanregion":    # inf * 0 = NaN left of c, +inf*positive = inf right of it; plus a valley
        e = ("+", ("sq", ("-", X, ("c", c - 1.0))), ("*", ("c", INF), ("max", ("c", 0.0), sh)))
    elif kind == "spike":        # a valley with a narrow spike at its bottom: from (0, 1) the parabola's vertex lands on the spike,
        # f(w) > f(xb) > f(xc): the `elif (fw > fb)` exit of bracket, which forgets the lower point (xc, fc)
        cc = rng.choice([2.0, 2.0, 1.9, 2.25, rng.uniform(1.85, 2.5)])
        e = ("+", ("*", ("c", k), ("sq", ("-", X, ("c", cc)))),
             ("*", ("c", rng.choice([50.0, 1e3, 1e6]) * k), ("max", ("c", 0.0), ("-", ("c", rng.choice([0.1, 0.2, 0.3])), ("abs", ("-", X, ("c", cc)))))))
    elif kind == "intquad":      # integers / dyadics only: exact arithmetic, exact ties
        e = ("sq", ("-", X, ("c", float(rng.randint(-4, 6)))))
    elif kind == "intabs":
        e = ("abs", ("-", X, ("c", rng.choice([0.0, 1.0, 0.5, 2.0, -1.0, 3.0]))))
    else:                        # two wells of different depth
        a, b2 = c - rng.choice([1.0, 2.0, 5.0]), c + rng.choice([1.0, 3.0])
        e = ("min", ("sq", ("-", X, ("c", a))), ("+", ("*", ("c", k), ("sq", ("-", X, ("c", b2)))), ("c", d)))
    if rng.random() < 0.22:      # strict ranges: +inf outside lo < x < hi (sometimes the start points are outside)
        lo = rng.choice([-INF, -0.5, 0.0, 0.25, -3.0, c - 1.0])
        hi = rng.choice([INF, 1.0, 1.5, 2.618034, 10.0, c + 1.0, lo + 0.5])
        box = ([lo], [hi])
        kind += "+box"
    return kind, e, box


def boxed_eval(e, box, xv):
    if box is not None:
        lo, hi = box
        if not all((l < v) and (v < h) for v, l, h in zip(xv, lo, hi)):
            return INF
    return dsl.ev(e, xv)


def box_sexp(box):
    return "none" if box is None else "(%s %s)" % (fl(box[0]), fl(box[1]))


class DslError(Exception):
    pass


def exc_name(exc, ncalls):
    if isinstance(exc, DslError):
        return "dsl"
    if isinstance(exc, RuntimeError) and "Too many iterations" in str(exc):
        return "tooMany"
    if isinstance(exc, AssertionError):
        return "notBracketX" if ncalls == 0 else "notBracketF"
    if isinstance(exc, UnboundLocalError):
        return "unbound"
    if isinstance(exc, ValueError):
        return "badBrack"
    return "other:" + type(exc).__name__


def recording(e, box, log, plus0=False):
    def func(alpha):
        a = float(alpha)
        try:
            y = boxed_eval(e, box, [a])
        except ZeroDivisionError:
            raise DslError()
        if plus0:
            y = y + 0.0
        log.append((a, float(y)))
        return y
    return func


# ------------------------------------------------------------------------------------ stream: bracket
def bracket_case(rng, tier):
    kind, e, box = gen_fn1(rng)
    q = rng.random()
    if q < 0.45:
        xa, xb = 0.0, 1.0
    elif q < 0.55:
        xa, xb = 1.0, 0.0
    elif q < 0.62:
        xa = xb = rng.choice([0.0, 1.0, dyadic(rng, -4, 4, 4)])           # degenerate: equal start points
    else:
        xa = rng.choice([0.0, dyadic(rng, -4, 4, 4), gfloat(rng, 5.0)]); xb = xa + rng.choice([1.0, -1.0, 0.5, 1e-3, dyadic(rng, -4, 4, 4), gfloat(rng, 3.0)])
    grow = rng.choice([110.0, 110.0, 110.0, 2.0, 10.0, 1.0, 1.5, 1000.0])
    maxiter = rng.choice([1000, 1000, 1000, 0, 1, 2, 3, 5, 20])
    return {"kind": kind, "expr": e, "box": box, "xa": xa, "xb": xb, "grow": grow, "maxiter": maxiter}


def run_bracket(c):
    from mystic import _scipy060optimize as REF
    log = []
    func = recording(c["expr"], c["box"], log)
    old = np.seterr(all="ignore")
    try:
        out = REF.bracket(func, xa=c["xa"], xb=c["xb"], grow_limit=c["grow"], maxiter=c["maxiter"])
        res = {"exc": "none", "xs": [float(v) for v in out[:3]], "fs": [float(v) for v in out[3:6]], "n": int(out[6])}
    except Exception as exc:
        res = {"exc": exc_name(exc, len(log))}
    finally:
        np.seterr(**old)
    res["log"] = log
    return res


def bracket_request(c):
    return "C08 bracket (cost (scalar %s)) (box %s) (xa %s) (xb %s) (grow %s) (maxiter %d)" % (
        dsl.expr_sexp(c["expr"]), box_sexp(c["box"]), f2b(c["xa"]), f2b(c["xb"]), f2b(c["grow"]), c["maxiter"])


def log_of(d):
    return [(b2f(p[0]), b2f(p[1])) for p in d["log"]]


def log_diff(ml, il):
    for i in range(max(len(ml), len(il))):
        if i >= len(ml) or i >= len(il) or not (same_float(ml[i][0], il[i][0]) and same_float(ml[i][1], il[i][1])):
            return "evaluation %d: model %r implementation %r (model made %d evaluations, implementation %d)" % (
                i, ml[i] if i < len(ml) else None, il[i] if i < len(il) else None, len(ml), len(il))
    return None


def bracket_compare(c, real, reply, hist):
    r = parse_reply(reply)
    if r[0] != "ok":
        return [("bracket/model-%s" % r[0], "model replied %r" % (reply[:200],))]
    d = r[1]
    hadd(hist, "brent:model:bracket")
    if d["exc"] != real["exc"]:
        return [("bracket/exception-diverges", "model %s, implementation %s" % (d["exc"], real["exc"]))]
    ld = log_diff(log_of(d), real["log"])
    if ld:
        return [("bracket/evaluations-diverge", ld)]
    if real["exc"] == "none":
        mx = [b2f(d[k]) for k in ("xa", "xb", "xc")]; mf = [b2f(d[k]) for k in ("fa", "fb", "fc")]
        if not (same_vec(mx, real["xs"]) and same_vec(mf, real["fs"]) and int(d["n"]) == real["n"]):
            return [("bracket/result-diverges", "model (xa,xb,xc)=%r (fa,fb,fc)=%r n=%s ; implementation %r %r n=%d"
                     % (mx, mf, d["n"], real["xs"], real["fs"], real["n"]))]
    return []


def has_nan(log):
    return any(v != v for _, v in log)


def bracket_monitor(c, real, hist):
    """bracket's contract on the real result: values are the function at the returned abscissae, every evaluation is
    counted, fb <= fa and fb <= fc, fb <= f at both start points (NaN-free runs)"""
    out = []
    hadd(hist, "bracket:exc:%s" % real["exc"])
    hadd(hist, "bracket:fn:%s" % c["kind"].split("+")[0])
    if real["exc"] != "none":
        if real["exc"] == "tooMany":
            # the raise happens at the START of pass number maxiter+2 (iter > maxiter): at least maxiter+1 passes ran
            if len(real["log"]) < 3 + c["maxiter"] + 1:
                out.append(("bracket/raises-too-early", "RuntimeError after %d evaluations with maxiter=%d" % (len(real["log"]), c["maxiter"])))
        elif real["exc"] != "dsl":
            out.append(("bracket/raises/%s" % real["exc"], "bracket raised %s" % real["exc"]))
        return out
    xs, fs, log = real["xs"], real["fs"], real["log"]
    if real["n"] != len(log):
        out.append(("bracket/funcalls-miscounted", "bracket reports %d evaluations, %d were made" % (real["n"], len(log))))
    for x, f in zip(xs, fs):
        if not any(same_float(x, a) and same_float(f, v) for a, v in log):
            out.append(("bracket/returned-point-not-evaluated", "returned (%r, %r) is not among the evaluations" % (x, f)))
            break
    if has_nan(log):
        hadd(hist, "bracket:nan-values")
        return out
    fa, fb, fc = fs
    if not (fb <= fa and fb <= fc):
        out.append(("bracket/not-a-bracket", "returned fa=%r fb=%r fc=%r: fb is not the lowest of the three" % (fa, fb, fc)))
    if not (fb <= log[0][1] and fb <= log[1][1]):
        out.append(("bracket/returned-above-start", "fb=%r above a start value (%r, %r)" % (fb, log[0][1], log[1][1])))
    if any(v < fb for _, v in log):
        hadd(hist, "bracket:lower-point-dropped(fw>fb exit)")
        if not (fb < fc):
            out.append(("bracket/lower-point-dropped-without-bump", "fb=%r is above an evaluated value although fc=%r is not above fb" % (fb, fc)))
    else:
        hadd(hist, "bracket:fb-is-least-evaluated")
    hadd(hist, "bracket:passes:%s" % ("0" if len(log) == 3 else ("1-2" if len(log) <= 6 else "3+")))
    return out


# ------------------------------------------------------------------------------------ stream: brent (1-D, direct)
TOLS = [1e-2, 1e-2, 1e-4, 1.48e-8, 0.0, 0.1, 1.0, 1e-6 * 100, 1e-12]


def brent_case(rng, tier):
    kind, e, box = gen_fn1(rng)
    q = rng.random()
    if q < 0.6:
        brack = None
    elif q < 0.75:
        a = rng.choice([0.0, 1.0, dyadic(rng, -4, 4, 4), gfloat(rng, 5.0)]); brack = (a, a + rng.choice([1.0, -1.0, 0.5, dyadic(rng, -4, 4, 4), 0.0]))
    elif q < 0.96:
        a = rng.choice([0.0, -1.0, dyadic(rng, -4, 4, 4)]); w1 = rng.choice([1.0, 0.5, 2.0, dyadic(rng, 0, 4, 4)]); w2 = rng.choice([1.0, 0.5, 3.0, dyadic(rng, 0, 4, 4)])
        t = (a, a + w1, a + w1 + w2)
        if rng.random() < 0.3:
            t = (t[2], t[1], t[0])          # reversed: the swap
        if rng.random() < 0.15:
            t = (t[1], t[0], t[2])          # not ordered
        brack = t
    else:
        brack = rng.choice([(), (0.0,), (0.0, 1.0, 2.0, 3.0)])
    tol = rng.choice(TOLS)
    maxiter = rng.choice([500] * 8 + [0, 1, 2, 3, 7, 25])
    return {"kind": kind, "expr": e, "box": box, "brack": brack, "tol": tol, "maxiter": maxiter}


def run_brent(c):
    from mystic import _scipy060optimize as REF
    log = []
    func = recording(c["expr"], c["box"], log)
    old = np.seterr(all="ignore")
    try:
        xmin, fval, it, num = REF.brent(func, brack=c["brack"], tol=c["tol"], full_output=1, maxiter=c["maxiter"])
        res = {"exc": "none", "xmin": float(xmin), "fval": float(fval), "iter": int(it), "funcalls": int(num)}
    except Exception as exc:
        res = {"exc": exc_name(exc, len(log))}
    finally:
        np.seterr(**old)
    res["log"] = log
    return res


def brack_sexp(b):
    if b is None:
        return "none"
    if len(b) in (2, 3):
        return "(" + " ".join(f2b(v) for v in b) + ")"
    return "bad"


def brent_request(c):
    return ("C08 brent (mode direct) (cost (scalar %s)) (box %s) (plus0 false) (p ()) (xi ()) (brack %s) (tol %s) (maxiter %d) (bmax 1000)"
            % (dsl.expr_sexp(c["expr"]), box_sexp(c["box"]), brack_sexp(c["brack"]), f2b(c["tol"]), c["maxiter"]))


def brent_compare(tag, real, reply, hist):
    r = parse_reply(reply)
    if r[0] != "ok":
        return [("%s/model-%s" % (tag, r[0]), "model replied %r" % (reply[:200],))]
    d = r[1]
    hadd(hist, "brent:model:%s" % tag)
    if d["exc"] != real["exc"]:
        return [("%s/exception-diverges" % tag, "model %s, implementation %s" % (d["exc"], real["exc"]))]
    ld = log_diff(log_of(d), real["log"])
    if ld:
        return [("%s/evaluations-diverge" % tag, ld)]
    if real["exc"] == "none":
        got = (int(d["iter"]), int(d["funcalls"])); want = (real["iter"], real["funcalls"])
        if not (same_float(b2f(d["xmin"]), real["xmin"]) and same_float(b2f(d["fval"]), real["fval"]) and got == want):
            return [("%s/result-diverges" % tag, "model xmin=%r fval=%r (iter, funcalls)=%r ; implementation xmin=%r fval=%r %r"
                     % (b2f(d["xmin"]), b2f(d["fval"]), got, real["xmin"], real["fval"], want))]
        if "x" in real:
            mx = [b2f(t) for t in d["x"]]; mxi = [b2f(t) for t in d["xi"]]
            if not (same_vec(mx, real["x"]) and same_vec(mxi, real["xin"])):
                return [("%s/point-diverges" % tag, "model x=%r xi=%r ; implementation x=%r xi=%r" % (mx, mxi, real["x"], real["xin"]))]
    return []


def brent_monitor(tag, c, real, hist, default_bracket):
    """Brent's contract on the real result (NaN-free runs): the returned point was evaluated and carries its value;
    reported funcalls = iterations + 1 = Brent's own evaluations; it is the LAST lowest of Brent's own evaluations;
    with the default bracket the returned value is <= the value at alpha = 0 (and at alpha = 1)"""
    out = []
    hadd(hist, "%s:exc:%s" % (tag, real["exc"]))
    brack = c.get("brack")
    if brack is not None and real["exc"] not in ("dsl",) and not real["exc"].startswith("other:"):
        # brent's checks of a user-supplied bracket, as documented: (a, b, c) with a < b < c after ordering the ends and
        # func(b) < func(a), func(c); any other length than 2 or 3 is a ValueError
        if len(brack) not in (2, 3):
            want = "badBrack"
        elif len(brack) == 3:
            xa, xb, xc = brack
            if xa > xc:
                xa, xc = xc, xa
            if not (xa < xb and xb < xc):
                want = "notBracketX"
            else:
                try:
                    fa, fb, fc = (boxed_eval(c["expr"], c["box"], [v]) for v in (xa, xb, xc))
                    want = None if (fb < fa and fb < fc) else "notBracketF"
                except ZeroDivisionError:
                    want = "?"
        else:
            want = None
        if want != "?":
            if want is not None and real["exc"] != want:
                out.append(("%s/bracket-check" % tag, "brack=%r must be rejected (%s), brent -> %s" % (brack, want, real["exc"])))
            elif want is None and real["exc"] in ("notBracketX", "notBracketF", "badBrack"):
                out.append(("%s/bracket-check" % tag, "brack=%r is a valid bracket, brent raised %s" % (brack, real["exc"])))
            elif want is None and len(brack) == 3 and real["exc"] == "none":
                lg = real["log"][:3]
                if not (len(lg) == 3 and same_vec([a for a, _ in lg], [xa, xb, xc])):
                    out.append(("%s/bracket-check" % tag, "brack=%r: the first evaluations are at %r, expected the ordered triple %r"
                                % (brack, [a for a, _ in lg], [xa, xb, xc])))
    if real["exc"] != "none":
        return out
    log = real["log"]
    if real["funcalls"] != real["iter"] + 1:
        out.append(("%s/funcalls-vs-iterations" % tag, "funcalls=%d iterations=%d" % (real["funcalls"], real["iter"])))
    if real["iter"] > c["maxiter"]:
        out.append(("%s/iterations-above-maxiter" % tag, "iterations=%d maxiter=%d" % (real["iter"], c["maxiter"])))
    if real["funcalls"] > len(log) or real["funcalls"] < 1:
        out.append(("%s/funcalls-miscounted" % tag, "reports %d evaluations of its own, %d were made in all" % (real["funcalls"], len(log))))
        return out
    own = log[len(log) - real["funcalls"]:]
    hadd(hist, "%s:stop:%s" % (tag, "maxiter" if real["iter"] >= c["maxiter"] else "converged"))
    hadd(hist, "%s:iters:%s" % (tag, "0" if real["iter"] == 0 else ("1-5" if real["iter"] <= 5 else ("6-30" if real["iter"] <= 30 else "31+"))))
    idx = [i for i, (a, v) in enumerate(own) if same_float(a, real["xmin"]) and same_float(v, real["fval"])]
    if not idx:
        out.append(("%s/returned-point-not-evaluated" % tag, "returned (%r, %r) is none of Brent's own %d evaluations" % (real["xmin"], real["fval"], len(own))))
        return out
    if has_nan(log):
        hadd(hist, "%s:nan-values" % tag)
        if default_bracket and log[0][1] == log[0][1] and not (real["fval"] <= log[0][1]):
            hadd(hist, "%s:nan-values:returned-not<=start" % tag)
        return out
    fv = real["fval"]
    if any(v < fv for _, v in own):
        out.append(("%s/returned-not-lowest" % tag, "returned value %r, Brent evaluated %r" % (fv, min(v for _, v in own))))
    else:
        last = max(i for i, (_, v) in enumerate(own) if v == fv)
        if last not in idx:
            out.append(("%s/returned-not-last-lowest" % tag, "the lowest value %r was last attained at %r (evaluation %d), returned %r"
                        % (fv, own[last][0], last, real["xmin"])))
        if sum(1 for _, v in own if v == fv) > 1:
            hadd(hist, "%s:tie-at-minimum" % tag)
    if default_bracket:
        if not (fv <= log[0][1] and fv <= log[1][1]):
            out.append(("%s/returned-above-start" % tag, "returned value %r above the value at alpha=0 (%r) or alpha=1 (%r)" % (fv, log[0][1], log[1][1])))
    if any(v < fv for _, v in log):
        hadd(hist, "%s:returned-above-a-bracket-evaluation" % tag)
    return out


# ------------------------------------------------------------------------------------ stream: _linesearch_powell (n-D)
def lsp_case(rng, tier):
    dim = rng.randint(1, 4 if tier == "quick" else 7)
    q = rng.random()
    box = None
    if q < 0.2:
        e = ("sum",) + tuple(("sq", ("rint", ("-", ("x", i), ("c", dyadic(rng, -3, 3, 2))))) for i in range(dim))
    elif q < 0.3:
        e = ("sum",) + tuple(("abs", ("-", ("x", i), ("c", float(rng.randint(-3, 3))))) for i in range(dim))
    else:
        e = solvergen.gen_cost(rng, dim, allow_vector=False)[1]
    p = [rng.choice([0.0, 1.0, -2.5, rng.uniform(-4, 4), dyadic(rng, -4, 4, 4)]) for _ in range(dim)]
    r = rng.random()
    if r < 0.4:
        i = rng.randrange(dim); xi = [0.0] * dim; xi[i] = rng.choice([1.0, 1.0, -1.0, 0.5, 1e-3, 1e3])
    elif r < 0.48:
        xi = [0.0] * dim                                       # zero direction: every point is p
    elif r < 0.56:
        xi = [rng.choice([1e-9, -1e-7, 1e-12]) * rng.uniform(0.5, 2) for _ in range(dim)]    # a replaced direction after convergence
    else:
        xi = [rng.choice([0.0, 1.0, -1.0, rng.uniform(-2, 2), dyadic(rng, -2, 2, 4)]) for _ in range(dim)]
    if rng.random() < 0.2:
        lo = [rng.choice([-INF, v - 1.0, v - 0.25, v]) for v in p]; hi = [rng.choice([INF, v + 1.0, v + 0.25, v + 3.0]) for v in p]
        box = (lo, hi)
    xtol = rng.choice([1e-4, 1e-4, 1e-2, 1e-6, 1e-8])
    maxiter = rng.choice([500] * 6 + [1, 2, 5, 30])
    which = rng.choice(["mystic", "mystic", "ref"])
    return {"dim": dim, "expr": e, "box": box, "p": p, "xi": xi, "tol": xtol * 100, "maxiter": maxiter if which == "mystic" else 500, "which": which}


def run_lsp(c):
    import mystic.scipy_optimize as SO
    from mystic import _scipy060optimize as REF
    mod = SO if c["which"] == "mystic" else REF
    log = []; pts = []
    e, box = c["expr"], c["box"]

    def cost(x):
        xv = vec(x)
        try:
            y = boxed_eval(e, box, xv)
        except ZeroDivisionError:
            raise DslError()
        pts.append((xv, float(y)))
        return y
    orig = mod.brent

    def spy(func, *a, **kw):
        def f2(alpha):
            y = func(alpha); log.append((float(alpha), float(y))); return y
        return orig(f2, *a, **kw)
    mod.brent = spy
    out_info = {}

    def spy2(func, *a, **kw):
        r = spy(func, *a, **kw)
        out_info["r"] = r
        return r
    mod.brent = spy2
    old = np.geterr()
    probe = {"divide": "warn", "over": "warn", "under": "warn", "invalid": "warn"}     # a state the routine must hand back
    try:
        if c["which"] == "mystic":
            np.seterr(**probe)
            fret, xn, xin = SO._linesearch_powell(cost, np.array(c["p"]), np.array(c["xi"]), tol=c["tol"], maxiter=c["maxiter"])
        else:
            np.seterr(all="ignore")
            fret, xn, xin = REF._linesearch_powell(cost, np.array(c["p"]), np.array(c["xi"]), tol=c["tol"])
        xmin, fval, it, num = out_info["r"]
        res = {"exc": "none", "xmin": float(xmin), "fval": float(fval), "iter": int(it), "funcalls": int(num),
               "fret": float(fret), "x": vec(xn), "xin": vec(xin)}
    except Exception as exc:
        res = {"exc": exc_name(exc, len(log))}
    finally:
        mod.brent = orig
        now = np.geterr()
        np.seterr(**old)
    res["log"] = log; res["pts"] = pts; res["errstate_restored"] = (now == probe) if c["which"] == "mystic" else True
    return res


def along_recording(c, log):
    """alpha -> cost(p + alpha*xi) with the same numpy expression as _linesearch_powell's `myfunc`"""
    p = np.array(c["p"]); xi = np.array(c["xi"])

    def f(alpha):
        try:
            y = boxed_eval(c["expr"], c["box"], vec(p + alpha * xi))
        except ZeroDivisionError:
            raise DslError()
        log.append((float(alpha), float(y)))
        return y
    return f


def lsp_request(c):
    return ("C08 brent (mode along) (cost (scalar %s)) (box %s) (plus0 false) (p %s) (xi %s) (brack none) (tol %s) (maxiter %d) (bmax 1000)"
            % (dsl.expr_sexp(c["expr"]), box_sexp(c["box"]), fl(c["p"]), fl(c["xi"]), f2b(c["tol"]), c["maxiter"]))


def lsp_monitor(c, real, hist):
    """_linesearch_powell's own lines: every cost call is at p + alpha*xi for the alpha Brent asked for; the returned
    triple is (f(alpha_min), p + alpha_min*xi, alpha_min*xi); numpy's error state is restored"""
    tag = "linesearch"
    out = brent_monitor(tag, c, real, hist, True)
    if real["exc"] != "none":
        return out
    p = np.array(c["p"]); xi = np.array(c["xi"])
    if len(real["pts"]) != len(real["log"]):
        out.append(("linesearch/cost-calls", "%d cost calls for %d alphas" % (len(real["pts"]), len(real["log"]))))
        return out
    for (a, v), (x, y) in zip(real["log"], real["pts"]):
        if not (same_vec(x, vec(p + a * xi)) and same_float(v, y)):
            out.append(("linesearch/evaluated-point", "alpha=%r: the cost was called at %r, p + alpha*xi = %r" % (a, x, vec(p + a * xi))))
            break
    am = real["xmin"]
    if not (same_float(real["fret"], real["fval"]) and same_vec(real["xin"], vec(am * xi)) and same_vec(real["x"], vec(p + am * xi))):
        out.append(("linesearch/returned-triple", "alpha_min=%r: returned (%r, %r, %r), expected (%r, %r, %r)"
                    % (am, real["fret"], real["x"], real["xin"], real["fval"], vec(p + am * xi), vec(am * xi))))
    if not real["errstate_restored"]:
        out.append(("linesearch/numpy-errstate-not-restored", "numpy.geterr() differs after _linesearch_powell"))
    hadd(hist, "linesearch:%s" % c["which"])
    if all(v == 0.0 for v in c["xi"]):
        hadd(hist, "linesearch:zero-direction")
    return out


# ------------------------------------------------------------------------------------ the published routines (scipy)
def _scipy():
    try:
        import scipy.optimize as SP
        return SP
    except Exception:
        return None


def same_log(a, b):
    return len(a) == len(b) and all(same_float(p[0], q[0]) and same_float(p[1], q[1]) for p, q in zip(a, b))


def scipy_bracket_monitor(c, real, hist):
    """the installed scipy.optimize.bracket (an independent descendant of the published routine) must evaluate exactly
    the same abscissae and, when it accepts the triple, return the same one; it additionally REJECTS triples that are
    not valid brackets (BracketError), which the 0.6.0 routine returns as they are"""
    SP = _scipy()
    if SP is None or real["exc"] in ("dsl",) or real["exc"].startswith("other:"):
        hadd(hist, "scipy:unavailable-or-skipped"); return []
    log2 = []
    f2 = recording(c["expr"], c["box"], log2)
    old = np.seterr(all="ignore")
    try:
        r = SP.bracket(f2, xa=c["xa"], xb=c["xb"], grow_limit=c["grow"], maxiter=c["maxiter"])
        sp = {"exc": "none", "xs": [float(v) for v in r[:3]], "fs": [float(v) for v in r[3:6]], "n": int(r[6])}
    except RuntimeError as exc:
        sp = {"exc": "BracketError" if type(exc).__name__ == "BracketError" else "tooMany"}
    except Exception as exc:
        sp = {"exc": type(exc).__name__}
    finally:
        np.seterr(**old)
    hadd(hist, "scipy:bracket:%s/%s" % (real["exc"], sp["exc"]))
    if not same_log(real["log"], log2):
        return [("bracket/differs-from-scipy-bracket", "evaluations differ: %s ; scipy.optimize.bracket: %s (exceptions %s / %s)"
                 % (log_diff(real["log"], log2), len(log2), real["exc"], sp["exc"]))]
    if (real["exc"] == "tooMany") != (sp["exc"] == "tooMany"):
        return [("bracket/differs-from-scipy-bracket", "maxiter=%d: bracket -> %s, scipy.optimize.bracket -> %s" % (c["maxiter"], real["exc"], sp["exc"]))]
    if real["exc"] == "none" and sp["exc"] == "none":
        if not (same_vec(real["xs"], sp["xs"]) and same_vec(real["fs"], sp["fs"]) and real["n"] == sp["n"]):
            return [("bracket/differs-from-scipy-bracket", "bracket -> %r %r n=%d ; scipy.optimize.bracket -> %r %r n=%d"
                     % (real["xs"], real["fs"], real["n"], sp["xs"], sp["fs"], sp["n"]))]
    return []


def scipy_brent_monitor(tag, c, real, hist, func_factory, brack):
    """scipy.optimize.brent on the same function: the same (xmin, fval, iterations) and the same abscissae in the same
    order - the 0.6.0 routine evaluates the bracket's middle point a second time when Brent's loop starts, scipy reuses
    the value; where scipy rejects the bracket (BracketError) its evaluations must be a prefix"""
    SP = _scipy()
    if SP is None or real["exc"] in ("dsl", "badBrack") or real["exc"].startswith("other:"):
        hadd(hist, "scipy:unavailable-or-skipped"); return []
    log2 = []
    f2 = func_factory(log2)
    old = np.seterr(all="ignore")
    try:
        r = SP.brent(f2, brack=brack, tol=c["tol"], full_output=1, maxiter=c["maxiter"])
        sp = {"exc": "none", "xmin": float(r[0]), "fval": float(r[1]), "iter": int(r[2]), "funcalls": int(r[3])}
    except Exception as exc:
        sp = {"exc": type(exc).__name__}
    finally:
        np.seterr(**old)
    hadd(hist, "scipy:%s:%s/%s" % (tag, real["exc"], sp["exc"]))
    key = "%s/differs-from-scipy-brent" % tag
    if real["exc"] == "none" and sp["exc"] == "none":
        i = len(real["log"]) - real["funcalls"]
        ded = real["log"][:i] + real["log"][i + 1:] if 0 <= i < len(real["log"]) else real["log"]
        if not (same_float(real["xmin"], sp["xmin"]) and same_float(real["fval"], sp["fval"]) and real["iter"] == sp["iter"]):
            return [(key, "brent -> xmin=%r fval=%r iterations=%d ; scipy.optimize.brent -> xmin=%r fval=%r iterations=%d"
                     % (real["xmin"], real["fval"], real["iter"], sp["xmin"], sp["fval"], sp["iter"]))]
        if not same_log(ded, log2):
            return [(key, "evaluations differ (after removing the repeated middle point): %s" % log_diff(ded, log2))]
        return []
    if (real["exc"] in ("notBracketX", "notBracketF")) != (sp["exc"] == "ValueError"):
        return [(key, "brack=%r: brent -> %s, scipy.optimize.brent -> %s" % (brack, real["exc"], sp["exc"]))]
    if sp["exc"] in ("BracketError", "RuntimeError", "ValueError") or real["exc"] != "none":
        # one side stopped in the bracketing phase: what it evaluated until then must agree with the other side
        n = min(len(log2), len(real["log"]))
        if not same_log(real["log"][:n], log2[:n]):
            return [(key, "bracketing phase differs: %s (exceptions %s / %s)" % (log_diff(real["log"][:n], log2[:n]), real["exc"], sp["exc"]))]
        if real["exc"] == "tooMany" and sp["exc"] != "RuntimeError":
            return [(key, "brent raised 'Too many iterations', scipy.optimize.brent -> %s" % sp["exc"])]
    return []
