"""C19, stream `heap`: product measures / scenarios / measures that SHARE objects.

mystic's containers are lists of mutable objects: a product_measure is a list of measure objects, a measure a list
of point_mass objects.  `product_measure([m]*2 + [n])`, `product_measure(c)`, `c[:]`, `copy.copy(c)`, `measure(m)` are
shallow: they share factor objects / point masses.  update() and load() build FRESH factors and rebind the entries of the
addressed list only; the setters (measure.positions / weights / center_mass / range / var / normalize,
product_measure.positions / center_mass) write into the point_mass objects.  A case is a small object graph (cells,
named measures, collections) and a short program of operations; after every operation ALL collections and ALL named
measures are observed.  The same program runs on the model Model/DiscreteHeap.lean (a heap of cells / measures /
collections addressed by index) and is compared state by state; the monitor evaluates the property's clauses on the
real objects, using python object identity (not the model) to know what is shared:
  update: the addressed collection carries exactly the given parameters (full length), prefix frame for short ones,
          every OTHER collection and every measure object that is not one of its factors keeps its numbers;
  load:   appends, the factors already present stay the same objects with the same numbers, nothing else changes;
  flatten / copies: read-only, a shallow copy observes the same numbers;
  setters: the addressed measure gets the value (when its point masses are distinct objects), and every measure that
          shares no point mass with the addressed one(s) keeps its numbers.
Sizes / addresses / parameter counts are resolved against the CURRENT state on both sides (factor index modulo the
current number of factors, parameter count relative to the current 2*sum(pts)), so a spec is pure PRNG output."""
import copy, math, itertools
from fractions import Fraction
import common
from common import fl, nl, f2b, same_vec, same_float, floats_of, dyadic, gfloat

RTOL = 1e-9
POOL = 48


def exc_enum(e):
    if isinstance(e, IndexError):
        return "index"
    if isinstance(e, ValueError):
        return "value"
    if isinstance(e, ZeroDivisionError):
        return "zerodiv"
    if isinstance(e, TypeError):
        return "type"
    return type(e).__name__


def close(a, b, scale=1.0):
    a = float(a); b = float(b)
    if same_float(a, b) or a == b:
        return True
    if not (math.isfinite(a) and math.isfinite(b)):
        return False
    return abs(a - b) <= RTOL * max(abs(a), abs(b)) + 1e-12 * scale


def obs_m(m):
    return [[float(p.weight) for p in m], [float(p.position) for p in m]]


def obs_c(c):
    return [[obs_m(m) for m in c], [float(v) for v in getattr(c, "values", [])]]


def same_m(a, b):
    return same_vec(a[0], b[0]) and same_vec(a[1], b[1])


def same_c(a, b):
    return len(a[0]) == len(b[0]) and all(same_m(p, q) for p, q in zip(a[0], b[0])) and same_vec(a[1], b[1])


def near_m(a, b, scale):
    return len(a[0]) == len(b[0]) and len(a[1]) == len(b[1]) and all(close(p, q, scale) for p, q in zip(a[0] + a[1], b[0] + b[1]))


def near_c(a, b, scale):
    return len(a[0]) == len(b[0]) and all(near_m(p, q, scale) for p, q in zip(a[0], b[0])) and \
        len(a[1]) == len(b[1]) and all(close(p, q, scale) for p, q in zip(a[1], b[1]))


def layout(params, sizes):
    out = []; p = 0
    for n in sizes:
        out.append([list(params[p:p + n]), list(params[p + n:p + 2 * n])]); p += 2 * n
    return out


# ------------------------------------------------------------------ request text
def addr_sexp(a):
    return "(m %d)" % a[1] if a[0] == "m" else "(f %d %d)" % (a[1], a[2])


def op_sexp(op):
    k = op[0]
    if k == "update":
        return "(update %d %s %d)" % (op[1], op[2], op[3])
    if k == "load":
        return "(load %d %s %d %s)" % (op[1], op[2], op[3], nl(op[4]))
    if k == "flatten":
        return "(flatten %d)" % op[1]
    if k == "cshare":
        return "(cshare %d %s)" % (op[1], "true" if op[2] == "copy" else "false")
    if k == "cscen":
        return "(cscen %d %d)" % (op[1], op[2])
    if k == "cnew":
        return "(cnew (%s))" % " ".join(addr_sexp(a) for a in op[1])
    if k == "mcopy":
        return "(mcopy %s)" % addr_sexp(op[1])
    if k in ("msetpos", "msetwts"):
        return "(%s %s %d %d)" % (k, addr_sexp(op[1]), op[2], op[3])
    if k == "mset":
        return "(mset %s %s %s)" % (addr_sexp(op[1]), op[2], f2b(op[3]))
    if k == "mnorm":
        return "(mnorm %s)" % addr_sexp(op[1])
    if k == "csetpos":
        return "(csetpos %d %d %s)" % (op[1], op[2], "true" if op[3] else "false")
    if k == "csetcm":
        return "(csetcm %d %d %d)" % (op[1], op[2], op[3])
    raise ValueError(k)


def request(spec):
    cells = spec["cells"]
    return "heap (cells (%s %s)) (meas (%s)) (colls (%s)) (pool %s) (ops (%s))" % (
        fl([c[0] for c in cells]), fl([c[1] for c in cells]),
        " ".join(nl(m) for m in spec["meas"]),
        " ".join("(%s %s %s)" % ("s" if c["scen"] else "p", nl(c["f"]), fl(c["values"])) for c in spec["colls"]),
        fl(spec["pool"]), " ".join(op_sexp(op) for op in spec["ops"]))


# ------------------------------------------------------------------ running a program on the real objects
class World:
    def __init__(self, spec):
        from mystic.math.discrete import point_mass, measure, product_measure, scenario
        self.cells = [point_mass(x, w) for w, x in spec["cells"]]
        self.names = [measure([self.cells[i] for i in ids]) for ids in spec["meas"]]
        self.colls = []
        for c in spec["colls"]:
            fs = [self.names[i] for i in c["f"]]
            if c["scen"]:
                s = scenario()
                s.extend(fs)                     # (scenario(pm) would load copies: extend keeps the objects)
                s.values = list(c["values"])
                self.colls.append(s)
            else:
                self.colls.append(product_measure(fs))
        self.pool = list(spec["pool"])

    def coll(self, cid):
        return self.colls[cid % len(self.colls)]

    def resolve(self, a):
        if a[0] == "f":
            c = self.coll(a[1])
            if len(c):
                return c[a[2] % len(c)]
            return self.names[a[2] % len(self.names)]
        return self.names[a[1] % len(self.names)]

    def measures(self):
        """every measure object reachable: (label, object)"""
        out = [("named measure %d" % i, m) for i, m in enumerate(self.names)]
        for ci, c in enumerate(self.colls):
            out += [("factor %d of collection %d" % (fi, ci), m) for fi, m in enumerate(c)]
        return out

    def observe(self):
        return {"colls": [obs_c(c) for c in self.colls], "names": [obs_m(m) for m in self.names]}


def nparams(mode, k, L, pool):
    n = L if mode == "full" else (L + k if mode == "plus" else k)
    return max(0, min(n, len(pool)))


def cellset(m):
    return set(id(p) for p in m)


def run_program(spec, case):
    """runs the ops on real objects; returns (statuses, observations after each op); monitor findings -> case.fail"""
    from mystic.math.discrete import measure, product_measure, scenario
    w = World(spec)
    sts = []; obs = []
    exact = spec["exact"]
    shared_seen = False
    for op in spec["ops"]:
        k = op[0]
        before = w.observe()
        reach = w.measures()
        mvals = [(lab, m, obs_m(m), cellset(m)) for lab, m in reach]
        st = "ok"

        def frame(touched_cells, what, key):
            """every measure without a point mass in `touched_cells` keeps its numbers"""
            for lab, m, o, cs in mvals:
                if not (cs & touched_cells) and not same_m(obs_m(m), o):
                    case.fail(key, "%s: %s shares no point mass with the addressed measure(s) but changed %r -> %r" % (what, lab, o, obs_m(m)))
                    return

        def others_unchanged(cid_eff, factors_before, what, key):
            after = w.observe()
            for ci in range(len(before["colls"])):
                if ci != cid_eff and not same_c(after["colls"][ci], before["colls"][ci]):
                    case.fail(key + "/other-collection-changed", "%s on collection %d changed collection %d: %r -> %r"
                              % (what, cid_eff, ci, before["colls"][ci], after["colls"][ci]))
                    return
            fid = set(id(m) for m in factors_before)
            for i, m in enumerate(w.names):
                if id(m) not in fid and not same_m(after["names"][i], before["names"][i]):
                    case.fail(key + "/foreign-measure-changed", "%s on collection %d changed named measure %d, which is not one of its factors: %r -> %r"
                              % (what, cid_eff, i, before["names"][i], after["names"][i]))
                    return

        if k in ("update", "load", "flatten", "cshare", "cscen", "csetpos", "csetcm"):
            cid = op[1] % len(w.colls)
            c = w.colls[cid]
            fobjs = list(c)
            sizes = [len(m) for m in c]
            c_before = before["colls"][cid]
            if len(set(id(m) for m in c)) < len(c):
                case.tag("heap:alias-within-collection"); shared_seen = True
            if any(id(m) in set(id(x) for x in d) for di, d in enumerate(w.colls) if di != cid for m in c):
                case.tag("heap:alias-across-collections"); shared_seen = True
        if k == "update":
            L = 2 * sum(sizes)
            params = w.pool[:nparams(op[2], op[3], L, w.pool)]
            pin = list(params)
            try:
                r = c.update(pin)
                if r is not c:
                    case.fail("heap/update/returns-self", "update() did not return the collection itself")
            except Exception as e:          # noqa
                st = exc_enum(e)
            if pin != params:
                case.fail("aliasing/update-mutates-params", "update() changed its argument")
            others_unchanged(cid, fobjs, "update(%d parameters)" % len(params), "heap/update")
            now = obs_c(c)
            if st != "ok":
                case.fail("heap/update/raises", "update raised %s (%d parameters for shape %r)" % (st, len(params), sizes))
            elif all(n > 0 for n in sizes):
                if len(params) >= L:
                    want = layout(params, sizes)
                    if not (len(now[0]) == len(want) and all(same_m(a, b) for a, b in zip(now[0], want))):
                        case.fail("heap/update/addressed", "after update(p) of a collection with shape %r (factor objects %s) the measure is %r, expected %r"
                                  % (sizes, "shared" if len(set(map(id, fobjs))) < len(fobjs) else "distinct", now[0], want))
                    flat = [float(v) for v in c.flatten()]
                    wantflat = list(params[:L]) + (now[1] if isinstance(c, scenario) else [])
                    if not same_vec(flat, wantflat):
                        case.fail("heap/update/flatten-roundtrip", "update(p).flatten() = %r, p = %r" % (flat, wantflat))
                    case.tag("heap:update-full")
                else:
                    P = len(params); off = 0; kcut = 0; want = []
                    for i, n in enumerate(sizes):
                        if off + n < P:
                            kcut = i + 1
                            ws = list(params[off:off + n]); xs = list(params[off + n:off + 2 * n])
                            want.append([ws[:len(xs)], xs])
                        else:
                            want.append(c_before[0][i])
                        off += 2 * n
                    if len(now[0]) != len(sizes):
                        case.fail("heap/update/prefix-factor-count", "update changed the number of factors %d -> %d" % (len(sizes), len(now[0])))
                    else:
                        for i in range(len(sizes)):
                            if not same_m(now[0][i], want[i]):
                                case.fail("heap/update/prefix-frame" if i >= kcut else "heap/update/prefix-addressed",
                                          "len(params)=%d reaches %d factor(s) of shape %r: factor %d is %r, expected %r"
                                          % (P, kcut, sizes, i, now[0][i], want[i])); break
                    case.tag("heap:update-short")
                if isinstance(c, scenario):
                    nv = list(params[L:]); old = c_before[1]
                    wv = nv[:len(old)] + list(old[len(nv):])
                    if not same_vec(now[1], wv):
                        case.fail("heap/update/values", "values after update %r, expected %r" % (now[1], wv))
        elif k == "load":
            npts = list(op[4]); L = 2 * sum(npts)
            params = w.pool[:nparams(op[2], op[3], L, w.pool)]
            try:
                c.load(list(params), tuple(npts))
            except Exception as e:          # noqa
                st = exc_enum(e)
            others_unchanged(cid, fobjs, "load", "heap/load")
            now = obs_c(c)
            if [id(m) for m in c[:len(fobjs)]] != [id(m) for m in fobjs] or \
                    not all(same_m(a, b) for a, b in zip(now[0][:len(fobjs)], c_before[0])):
                case.fail("heap/load/appends", "load() changed the factors already present: %r -> %r" % (c_before[0], now[0]))
            if st == "ok" and len(params) >= L and all(n > 0 for n in npts):
                want = layout(params, npts)
                got = now[0][len(fobjs):]
                if not (len(got) == len(want) and all(same_m(a, b) for a, b in zip(got, want))):
                    case.fail("heap/load/appended", "load(p, %r) appended %r, expected %r" % (npts, got, want))
            case.tag("heap:load")
        elif k == "flatten":
            flat = [float(v) for v in c.flatten()]
            want = []
            for m in c_before[0]:
                want += m[0] + m[1]
            want += c_before[1]
            if not same_vec(flat, want):
                case.fail("heap/flatten/layout", "flatten() = %r, expected %r" % (flat, want))
        elif k == "cshare":
            how = op[2]
            new = copy.copy(c) if how == "copy" else (product_measure(c) if how == "ctor" else product_measure(c[:]))
            w.colls.append(new)
            o = obs_c(new)
            wantv = c_before[1] if how == "copy" else []
            if not (len(o[0]) == len(c_before[0]) and all(same_m(a, b) for a, b in zip(o[0], c_before[0])) and same_vec(o[1], wantv)):
                case.fail("heap/copy-differs", "a shallow copy (%s) observes %r, the source %r" % (how, o, c_before))
            case.tag("heap:shallow-copy")
        elif k == "cscen":
            vals = w.pool[:op[2]]
            try:
                new = scenario(c, list(vals))
            except Exception as e:          # noqa
                st = exc_enum(e); new = scenario()
            w.colls.append(new)
            o = obs_c(new)
            if st == "ok" and not (len(o[0]) == len(c_before[0]) and all(same_m(a, b) for a, b in zip(o[0], c_before[0])) and same_vec(o[1], vals)):
                case.fail("heap/scenario-constructor", "scenario(c, values) observes %r, expected %r with values %r" % (o, c_before[0], vals))
            case.tag("heap:scenario-of")
        elif k == "cnew":
            fs = [w.resolve(a) for a in op[1]]
            new = product_measure(fs)
            w.colls.append(new)
            if len(set(map(id, fs))) < len(fs):
                case.tag("heap:alias-within-collection"); shared_seen = True
        elif k == "mcopy":
            m = w.resolve(op[1])
            w.names.append(measure(m))
            case.tag("heap:measure-shallow-copy"); shared_seen = True
        elif k in ("msetpos", "msetwts", "mset", "mnorm"):
            m = w.resolve(op[1])
            cs = cellset(m); o0 = obs_m(m); distinct = len(cs) == len(m)
            if any((c2 & cs) and m2 is not m for _, m2, _, c2 in mvals):
                case.tag("heap:setter-on-shared-cells"); shared_seen = True
            try:
                if k in ("msetpos", "msetwts"):
                    n = max(0, len(m) + op[2])
                    xs = w.pool[op[3]:op[3] + n]
                    if k == "msetpos":
                        m.positions = list(xs)
                    else:
                        m.weights = list(xs)
                elif k == "mnorm":
                    m.normalize()
                elif op[2] == "mean":
                    m.center_mass = op[3]
                elif op[2] == "range":
                    m.range = op[3]
                else:
                    m.var = op[3]
            except Exception as e:          # noqa
                st = exc_enum(e)
            frame(cs, k, "heap/setter/frame")
            o1 = obs_m(m)
            if st == "ok" and distinct:
                if k == "msetpos" and len(xs) == len(m) and not (same_vec(o1[1], xs) and same_vec(o1[0], o0[0])):
                    case.fail("heap/setter/positions-not-set", "m.positions = %r gives %r (was %r)" % (xs, o1, o0))
                if k == "msetwts" and len(xs) == len(m) and not (same_vec(o1[0], xs) and same_vec(o1[1], o0[1])):
                    case.fail("heap/setter/weights-not-set", "m.weights = %r gives %r (was %r)" % (xs, o1, o0))
                if k == "mset" and op[2] == "mean" and o0[0] and sum(o0[0]) > 0 and all(v >= 0 for v in o0[0]) \
                        and all(math.isfinite(v) for v in o1[1] + o0[1]):
                    wq = [Fraction(v) for v in o0[0]]
                    got = sum((a * Fraction(b) for a, b in zip(wq, o1[1])), Fraction(0)) / sum(wq, Fraction(0))
                    sc = max([1.0, abs(op[3])] + [abs(v) for v in o0[1]])
                    if abs(got - Fraction(op[3])) > Fraction(RTOL) * Fraction(sc) or not same_vec(o1[0], o0[0]):
                        case.fail("heap/setter/center_mass-not-achieved", "center_mass = %r gives %r (was %r)" % (op[3], o1, o0))
        if k == "csetpos":
            S = []; p = op[2]
            for n in sizes:
                S.append(w.pool[p:p + n]); p += n
            P = [tuple(reversed(t)) for t in itertools.product(*[list(s) for s in reversed(S)])] if sizes else [()]
            if op[3] and len(P) > 1:
                P = P[:-1]
            touched = set()
            for m in c:
                touched |= cellset(m)
            try:
                c.positions = P
            except Exception as e:          # noqa
                st = exc_enum(e)
            frame(touched, "product_measure.positions = ..", "heap/positions-setter/frame")
            if st == "ok" and not op[3] and len(set(map(id, c))) == len(c) and sum(len(m) for m in c) == len(touched) \
                    and all(len(S[i]) == len(m) > 0 for i, m in enumerate(c)):      # (an empty factor: the product has no point)
                now = obs_c(c)
                if not all(same_vec(a[1], s) and same_vec(a[0], b[0]) for a, s, b in zip(now[0], S, c_before[0])):
                    case.fail("heap/positions-setter", "c.positions = pack(%r) gives %r (was %r)" % (S, now[0], c_before[0]))
            case.tag("heap:positions-setter")
        elif k == "csetcm":
            vs = w.pool[op[3]:op[3] + max(0, len(c) + op[2])]
            touched = set()
            for m in c:
                touched |= cellset(m)
            try:
                c.center_mass = list(vs)
            except Exception as e:          # noqa
                st = exc_enum(e)
            frame(touched, "product_measure.center_mass = ..", "heap/center_mass-setter/frame")
            case.tag("heap:center_mass-setter")
        if k in ("flatten", "cshare", "cscen", "cnew", "mcopy"):
            after = w.observe()
            if not all(same_c(a, b) for a, b in zip(after["colls"], before["colls"])) or \
                    not all(same_m(a, b) for a, b in zip(after["names"], before["names"])):
                case.fail("aliasing/readonly-op-mutates", "%s changed existing objects: %r -> %r" % (k, before, after))
        sts.append(st)
        obs.append(w.observe())
        case.tag("heap:op-%s" % k)
        if st != "ok":
            case.tag("heap:op-raises")
    return sts, obs, shared_seen


# ------------------------------------------------------------------ case
def build_case(spec, Case):
    case = Case(spec)
    sts, obs, shared = run_program(spec, case)
    numeric = any(op[0] in ("mset", "mnorm", "csetcm") for op in spec["ops"])
    scale = max([1.0] + [abs(v) for v in spec["pool"]] + [abs(c[1]) for c in spec["cells"]]) ** 2

    def cmp(r):
        if r[0] != "ok":
            return "model %r" % (r,)
        kv = r[1]
        mst = [str(t) for t in kv["st"]]
        if mst != sts:
            return "operation statuses: model %r impl %r" % (mst, sts)
        mobs = kv["obs"]
        if len(mobs) != len(obs):
            return "model observed %d states, impl %d" % (len(mobs), len(obs))
        for i, (mo, io) in enumerate(zip(mobs, obs)):
            mc = [[[[floats_of(m[0]), floats_of(m[1])] for m in c[0]], floats_of(c[1])] for c in mo[0]]
            mn = [[floats_of(m[0]), floats_of(m[1])] for m in mo[1]]
            if len(mc) != len(io["colls"]) or len(mn) != len(io["names"]):
                return "after op %d (%s): object counts differ model %d/%d impl %d/%d" % (i, spec["ops"][i][0], len(mc), len(mn), len(io["colls"]), len(io["names"]))
            ex = all(same_c(a, b) for a, b in zip(mc, io["colls"])) and all(same_m(a, b) for a, b in zip(mn, io["names"]))
            if ex:
                continue
            if numeric and all(near_c(a, b, scale) for a, b in zip(mc, io["colls"])) and all(near_m(a, b, scale) for a, b in zip(mn, io["names"])):
                case.tol_used += 1
                continue
            return "state after op %d (%s) differs: model colls %r names %r ; impl colls %r names %r" % (
                i, op_sexp(spec["ops"][i]), mc, mn, io["colls"], io["names"])
        return None
    case.ask(request(spec), "object-graph program", {"st": sts, "obs": obs}, cmp)
    case.nontrivial = shared and any(op[0] in ("update", "load", "msetpos", "msetwts", "mset", "mnorm", "csetpos", "csetcm") for op in spec["ops"])
    case.tag("regime:exact" if spec["exact"] else "regime:general")
    return case


# ------------------------------------------------------------------ generator
def gen_heap(rng):
    exact = rng.random() < 0.6
    num = (lambda: dyadic(rng, -4, 4, 8)) if exact else (lambda: gfloat(rng, 6.0))
    wnum = (lambda: rng.choice([0.0, 0.25, 0.5, 0.5, 0.75, 1.0, 1.0, 1.5, 2.0])) if exact else \
        (lambda: 0.0 if rng.random() < 0.15 else rng.random())
    ncell = rng.randint(1, 7)
    cells = [[wnum(), num()] for _ in range(ncell)]
    if not any(c[0] > 0 for c in cells):
        cells[0][0] = 0.5
    # named measures: mostly disjoint blocks of cells, sometimes sharing cells (measure(m) is shallow), rarely a duplicate inside
    meas = []
    free = list(range(ncell)); rng.shuffle(free)
    while free and len(meas) < 4:
        n = min(len(free), rng.choice([1, 1, 2, 2, 3]))
        meas.append(free[:n]); free = free[n:]
    if rng.random() < 0.25:
        src = rng.choice(meas)
        meas.append(list(src) if rng.random() < 0.6 else rng.sample(range(ncell), min(ncell, rng.randint(1, 3))))
    if rng.random() < 0.05:
        i = rng.randrange(len(meas)); meas[i] = meas[i] + [meas[i][0]]
    nm = len(meas)
    # collections: factors drawn from the named measures; the same measure several times / in several collections
    colls = []
    for ci in range(rng.choice([1, 1, 2, 2, 3])):
        k = rng.random()
        if colls and k < 0.35:
            f = list(colls[rng.randrange(len(colls))]["f"])              # the same factor objects (product_measure(c), c[:])
            if rng.random() < 0.3 and f:
                f[rng.randrange(len(f))] = rng.randrange(nm)
        elif k < 0.65:
            a = rng.randrange(nm)                                        # [m]*k + [n]: a symmetric product
            f = [a] * rng.choice([2, 2, 3]) + ([rng.randrange(nm)] if rng.random() < 0.6 else [])
            if rng.random() < 0.4:
                rng.shuffle(f)
        else:
            f = [rng.randrange(nm) for _ in range(rng.choice([0, 1, 2, 2, 3, 3]) if rng.random() < 0.9 else 0)]
        while True:                                                      # keep the product small
            tot = 1
            for i in f:
                tot *= len(meas[i])
            if tot <= 48 or not f:
                break
            f = f[:-1]
        scen = rng.random() < 0.35
        tot = 1
        for i in f:
            tot *= len(meas[i])
        vals = [num() for _ in range(rng.choice([0, tot, tot, rng.randint(0, 4)]))] if scen else []
        colls.append({"f": f, "scen": scen, "values": vals})
    pool = [(wnum() if rng.random() < 0.5 else num()) for _ in range(POOL)]
    ops = []
    ncoll = len(colls)

    def addr():
        return ["f", rng.randrange(8), rng.randrange(6)] if rng.random() < 0.6 else ["m", rng.randrange(8)]

    def pmode():
        k = rng.random()
        if k < 0.6:
            return "full", 0
        if k < 0.8:
            return "plus", rng.randint(1, 5)
        return "abs", rng.randint(0, 14)
    for _ in range(rng.choice([1, 2, 2, 3, 3, 4, 5])):
        k = rng.random()
        if k < 0.34:
            md, kk = pmode(); ops.append(["update", rng.randrange(8), md, kk])
        elif k < 0.44:
            md, kk = pmode()
            ops.append(["load", rng.randrange(8), md, kk, [rng.choice([1, 1, 2, 3]) for _ in range(rng.choice([1, 1, 2]))]])
        elif k < 0.49:
            ops.append(["flatten", rng.randrange(8)])
        elif k < 0.60:
            ops.append(["cshare", rng.randrange(8), rng.choice(["ctor", "slice", "copy"])])
        elif k < 0.64:
            ops.append(["cscen", rng.randrange(8), rng.choice([0, 1, 2, 4, 6])])
        elif k < 0.70:
            a = addr()
            fs = [a] * rng.choice([1, 2, 2, 3]) + [addr() for _ in range(rng.choice([0, 1, 1]))]
            ops.append(["cnew", fs])
        elif k < 0.74:
            ops.append(["mcopy", addr()])
        elif k < 0.82:
            ops.append([rng.choice(["msetpos", "msetwts"]), addr(), rng.choice([0, 0, 0, 0, -1, 1]), rng.randrange(POOL - 8)])
        elif k < 0.90:
            which = rng.choice(["mean", "mean", "range", "var"])
            v = num() if which == "mean" else abs(num())
            ops.append(["mset", addr(), which, v])
        elif k < 0.92:
            ops.append(["mnorm", addr()])
        elif k < 0.97:
            ops.append(["csetpos", rng.randrange(8), rng.randrange(POOL - 16), rng.random() < 0.1])
        else:
            ops.append(["csetcm", rng.randrange(8), rng.choice([0, 0, 0, -1, 1]), rng.randrange(POOL - 8)])
    # a program that never updates / loads / sets anything exercises nothing: end it with an update
    if not any(op[0] in ("update", "load", "msetpos", "msetwts", "mset", "csetpos", "csetcm") for op in ops):
        ops.append(["update", rng.randrange(8), "full", 0])
    return {"kind": "heap", "exact": exact, "cells": cells, "meas": meas, "colls": colls, "pool": pool, "ops": ops}
