"""C12, third layer: CALL SEQUENCES.  The property quantifies over constraint systems; the real functions are called many
times in one process with different keywords, so what a call returns must be a function of THIS call's arguments only.
Here: generators of short programs of calls (the same text with other keywords in every order, variants of the text, other
functions in between, shared argument objects, a `locals` constant with another value) and the recorder that ties the top
level of `simplify` (absval cases -> one `_simplify` per case -> flatten -> select) to its Lean model
(Model/SymbolicTop.lean `simplifyTop`).  Nothing here imports mystic at module level."""
import re
from fractions import Fraction as Fr
import c12_util as U
import c12x as X

FAMILIES = ["kw", "kw", "kw", "kw", "variant", "variant", "variant", "objects", "locals", "locals", "cross", "cross", "matrix", "bounds", "pipe"]
BASES = ["rat", "rat", "rat", "multidiv", "prod", "prod", "abs", "absrat", "lin", "chain"]
LOCAL_NAMES = ["k", "c", "a", "w"]
LOCAL_VALUES = {"int": [2, -2, 3, -3, 1, -1, 5, -4], "dyadic": [2.0, -2.0, 0.5, -0.5, 1.0, -1.0, 4.0, -0.25]}


def xnames(n):
    return ["x%d" % i for i in range(n)]


def gen_base(rng, ratline, names=None):
    """a system with sign cases (rational line: single-variable, multi-variable or product divisor; abs terms; both) or a
    plain / chained linear system -> dict(kind, nk, names, lines)"""
    kind = rng.choice(BASES)
    nk = rng.choice(["int", "int", "dyadic"])
    n = rng.choice({"rat": [2, 2, 3], "multidiv": [3, 3, 4], "prod": [2, 3, 3], "abs": [1, 2, 2, 3], "absrat": [2, 3],
                    "lin": [2, 3, 4], "chain": [2, 3, 4]}[kind])
    names = xnames(n) if names is None else names[:max(n, 2)]
    if kind == "rat":
        first = [ratline(rng, names, nk, False)]
    elif kind == "multidiv":
        first = [X.gen_multidiv(rng, names, nk)]
    elif kind == "prod":
        first = [X.gen_prod(rng, names, nk)]
    elif kind == "abs":
        first = [X.gen_abs(rng, names, nk)]
    elif kind == "absrat":
        first = [X.gen_abs(rng, names, nk), ratline(rng, names, nk, False)]
    elif kind == "chain":
        first = X.gen_chain(rng, names, nk)
    else:
        first = [X.gen_lin(rng, names, nk, cmp=rng.choice(X.INEQ))]
    rest = [X.gen_lin(rng, names, nk) for _ in range(rng.choice([0, 0, 1, 1, 2]) if kind != "chain" else 0)]
    lines = first + rest
    if rng.random() < 0.4:
        rng.shuffle(lines)
    return {"kind": kind, "nk": nk, "names": names, "lines": lines}


def spell_variables(rng, names):
    """the ways to name the same variables in the `variables` argument"""
    dense = names == xnames(len(names))
    k = rng.random()
    if dense and k < 0.6:
        return "x"
    if k < 0.85:
        return list(names)
    return list(names) + ["x%d" % (len(names) + 2), "zz"][:rng.choice([1, 2])]


def gen_kw(rng, names, all_state=None, sign_free=False):
    """one keyword set.  all: absent / False / True ; cycle ; target (permutation or a single name) ; rand ; verbose"""
    kw = {}
    a = all_state if all_state is not None else rng.choice(["absent", "false", "true", "true"])
    if a != "absent":
        kw["all"] = a == "true"
    m = rng.random()
    if m < 0.2:
        kw["cycle"] = rng.random() < 0.8
    elif m < 0.4:
        t = list(names); rng.shuffle(t); kw["target"] = t
    elif m < 0.47 and not sign_free:
        kw["target"] = [rng.choice(names)]
    if rng.random() < 0.12:
        kw["rand"] = "seeded"            # replaced by a seeded generator at call time
    if rng.random() < 0.04:
        kw["verbose"] = rng.random() < 0.5
    return kw


def all_plan(rng, k):
    """the `all` states of k consecutive calls: every ordered pair of states gets reached; the order
    not-True -> True (the later call must still return every case) is the most frequent"""
    states = ["absent", "false", "true"]
    m = rng.random()
    if m < 0.45:
        plan = [rng.choice(["absent", "false"])] + [rng.choice(states) for _ in range(k - 2)] + ["true"]
    elif m < 0.6:
        plan = ["true"] + [rng.choice(states) for _ in range(k - 2)] + [rng.choice(["absent", "false"])]
    else:
        plan = [rng.choice(states) for _ in range(k)]
    return plan[:k]


# ------------------------------------------------------------------ variants of a text
def v_cmp(rng, lines, ctxt):
    j = rng.randrange(len(lines))
    parts = U.CMP_RE.split(lines[j])
    if len(parts) != 3:
        return None
    new = rng.choice([c for c in ["<", "<=", ">", ">=", "=", "!="] if c != parts[1] and not (c == "=" and parts[1] == "==")])
    out = list(lines); out[j] = parts[0] + new + parts[2]
    return out


def v_drop(rng, lines, ctxt):
    if len(lines) < 2:
        return None
    j = rng.randrange(len(lines))
    return lines[:j] + lines[j + 1:]


def v_add(rng, lines, ctxt):
    return lines + [X.gen_lin(rng, ctxt["names"], ctxt["nk"])]


def v_perm(rng, lines, ctxt):
    if len(lines) < 2:
        return None
    out = list(lines); out.reverse()
    return out


def v_regen(rng, lines, ctxt):
    out = list(lines); out[rng.randrange(len(lines))] = X.gen_lin(rng, ctxt["names"], ctxt["nk"])
    return out


def v_rename(rng, lines, ctxt):
    names = ctxt["names"]
    if len(names) < 2:
        return None
    perm = list(names); rng.shuffle(perm)
    if perm == names:
        perm = names[1:] + names[:1]
    mp = dict(zip(names, perm))
    pat = re.compile(r"\b(%s)\b" % "|".join(re.escape(nm) for nm in sorted(names, key=len, reverse=True)))
    return [pat.sub(lambda m: mp[m.group(1)], l) for l in lines]


def v_neg(rng, lines, ctxt):
    """one numeric literal gets the other sign (text differs in one character)"""
    j = rng.randrange(len(lines))
    ms = list(re.finditer(r"(?<![\w.])(\d+\.?\d*)", lines[j]))
    ms = [m for m in ms if not re.match(r"x\d", lines[j][max(0, m.start() - 1):m.end()])]
    if not ms:
        return None
    m = rng.choice(ms)
    out = list(lines); out[j] = lines[j][:m.start()] + "(-" + m.group(1) + ")" + lines[j][m.end():]
    return out


VARIANTS = [("cmp", v_cmp), ("cmp", v_cmp), ("drop", v_drop), ("add", v_add), ("perm", v_perm), ("regen", v_regen),
            ("rename", v_rename), ("neg", v_neg), ("neg", v_neg)]


def layout(rng, lines):
    """the same lines laid out as users write them: plain, or indented inside a triple-quoted string"""
    k = rng.random()
    if k < 0.7:
        return "\n".join(lines)
    if k < 0.9:
        return "\n" + "\n".join("    " + l for l in lines) + "\n"
    return "\n".join(l + " " for l in lines) + "\n"


def simplify_step(lines, variables, kw, rel, text=None, locals_=None, share=None):
    return {"fn": "simplify", "lines": list(lines), "text": text if text is not None else "\n".join(lines), "variables": variables,
            "kw": kw, "rel": rel, "locals": locals_, "share": share}


# ------------------------------------------------------------------ families
def fam_kw(rng, ratline, objects=False):
    base = gen_base(rng, ratline)
    names = base["names"]
    k = rng.choice([2, 2, 2, 3, 3, 4])
    plan = all_plan(rng, k)
    steps = []
    share = None
    if objects:
        # the SAME argument objects go into every call (a call that edits its arguments in place changes the next call)
        share = {"variables": list(names) + (["zz"] if rng.random() < 0.3 else []), "target": None, "locals": {}}
        if rng.random() < 0.6:
            t = list(names); rng.shuffle(t); share["target"] = t
        if rng.random() < 0.5:
            share["locals"] = {"unused_%d" % rng.randint(0, 9): 1.5}
    text = layout(rng, base["lines"])
    for j in range(k):
        kw = gen_kw(rng, names, plan[j])
        if objects:
            kw.pop("target", None)
            steps.append(simplify_step(base["lines"], share["variables"], kw, "same-text", text=text, share=share))
        else:
            steps.append(simplify_step(base["lines"], spell_variables(rng, names), kw, "same-text", text=text if rng.random() < 0.8 else layout(rng, base["lines"])))
    return {"family": "objects" if objects else "kw", "kind": base["kind"], "nk": base["nk"], "names": names, "steps": steps}


def fam_variant(rng, ratline):
    base = gen_base(rng, ratline)
    names = base["names"]; ctxt = {"names": names, "nk": base["nk"]}
    variables = spell_variables(rng, names)
    k = rng.choice([2, 2, 3, 3, 4])
    plan = all_plan(rng, k)
    cur = list(base["lines"])
    steps = [simplify_step(cur, variables, gen_kw(rng, names, plan[0]), "base")]
    for j in range(1, k):
        m = rng.random()
        if m < 0.25:
            lines, rel = list(base["lines"]), "back-to-base"
        else:
            lines = None
            for _ in range(6):
                nm, fn = rng.choice(VARIANTS)
                lines = fn(rng, cur, ctxt)
                if lines:
                    rel = "variant:" + nm; break
            if not lines:
                lines, rel = list(cur), "same-text"
        cur = lines
        steps.append(simplify_step(lines, variables if rng.random() < 0.8 else spell_variables(rng, names), gen_kw(rng, names, plan[j]), rel))
    return {"family": "variant", "kind": base["kind"], "nk": base["nk"], "names": names, "steps": steps}


def gen_local_line(rng, names, nk, sym):
    """a linear line in which the constant `sym` (given through locals=) is a coefficient or a summand"""
    n = len(names)
    vs = rng.sample(range(n), rng.randint(1, min(2, n)))
    cmp = rng.choice(X.INEQ + X.INEQ + ["=", "!="])
    t0 = names[vs[0]]
    others = [X.fmt_term(X.coef(rng, nk), names[i]) for i in vs[1:]]
    c = X.cst(rng, nk)
    shape = rng.random()
    if shape < 0.45:      # sym * x_i + ... cmp const
        lhs = X.join(rng, [(rng.random() < 0.3, "%s*%s" % (sym, t0))] + others)
        rhs = repr(c)
    elif shape < 0.65:    # x_i * sym on the right
        lhs = X.join(rng, others, c) if others else repr(c)
        rhs = "%s*%s" % (t0, sym)
    elif shape < 0.8:     # sym as a summand / bound
        lhs = X.join(rng, [X.fmt_term(X.coef(rng, nk), t0)] + others)
        rhs = "%s + %s" % (sym, repr(abs(c))) if rng.random() < 0.5 else sym
    else:                 # sym times a bracket
        inner = X.join(rng, [X.fmt_term(X.coef(rng, nk), t0)] + others, c)
        lhs = "%s*(%s)" % (sym, inner)
        rhs = repr(X.cst(rng, nk))
    return "%s %s %s" % (lhs, cmp, rhs)


def substitute(text, locals_):
    """the text python evaluates when the names of `locals_` have the given values"""
    if not locals_:
        return text
    pat = re.compile(r"\b(%s)\b" % "|".join(re.escape(nm) for nm in locals_))
    return pat.sub(lambda m: "(%r)" % (locals_[m.group(1)],), text)


def fam_locals(rng, ratline):
    nk = rng.choice(["int", "dyadic"])
    n = rng.choice([1, 2, 2, 3])
    names = xnames(n)
    sym = rng.choice(LOCAL_NAMES)
    lines = [gen_local_line(rng, names, nk, sym)] + [X.gen_lin(rng, names, nk) for _ in range(rng.choice([0, 1, 1]))]
    if rng.random() < 0.3:
        lines.append(gen_local_line(rng, names, nk, sym))
    rng.shuffle(lines)
    k = rng.choice([2, 2, 3])
    vals = LOCAL_VALUES[nk]
    v0 = rng.choice(vals)
    plan = all_plan(rng, k)
    steps = []
    v = v0
    for j in range(k):
        if j:
            m = rng.random()
            v = -v if m < 0.5 else (rng.choice(vals) if m < 0.85 else v)
        kw = gen_kw(rng, names, plan[j], sign_free=True)
        steps.append(simplify_step(lines, "x", kw, "same-text:locals", locals_={sym: v}))
    return {"family": "locals", "kind": "lin", "nk": nk, "names": names, "steps": steps}


def eq_system(rng, names, nk, A, x):
    n = len(names)
    lines = []
    for row in A:
        b = sum(Fr(v) * xv for v, xv in zip(row, x))
        nz = [j for j in range(n) if row[j] != 0]
        rng.shuffle(nz)
        cut = rng.randint(1, len(nz))
        L = X.join(rng, [X.fmt_term(row[j], names[j]) for j in nz[:cut]])
        rt = [X.fmt_term(-row[j], names[j]) for j in nz[cut:]]
        bv = int(b) if nk == "int" else float(b)
        R = X.join(rng, rt, bv) if rt else repr(bv)
        lines.append("%s = %s" % (L, R))
    return lines


def fam_cross(rng, ratline):
    """consistent systems of equalities: solve and simplify in turn, other targets / variable spellings, then the system with
    another right-hand side or another coefficient"""
    nk = rng.choice(["int", "int", "dyadic"])
    n = rng.choice([2, 2, 3, 3, 4])
    names = xnames(n)
    m = rng.randint(1, min(n, 3))
    pool = [0, 0, 1, -1, 2, -2, 3, 5] if nk == "int" else [0, 0, 1.0, -1.0, 2.0, 0.5, -0.5, 4.0]

    def fresh_rows():
        A = [[rng.choice(pool) for _ in range(n)] for _ in range(m)]
        for row in A:
            if all(v == 0 for v in row):
                row[rng.randrange(n)] = pool[2]
        return A
    A = fresh_rows()
    x = [Fr(rng.randint(-4, 4)) for _ in range(n)]
    cur = eq_system(rng, names, nk, A, x)
    base = list(cur)
    k = rng.choice([2, 3, 3, 4])
    steps = []
    for j in range(k):
        rel = "same-text"
        if j:
            mm = rng.random()
            if mm < 0.3:
                x = [Fr(rng.randint(-4, 4)) for _ in range(n)]
                cur = eq_system(rng, names, nk, A, x); rel = "variant:rhs"
            elif mm < 0.45:
                A = [list(r) for r in A]
                i = rng.randrange(m); jj = rng.randrange(n)
                A[i][jj] = rng.choice([v for v in pool if v != 0 and v != A[i][jj]])
                cur = eq_system(rng, names, nk, A, x); rel = "variant:coefficient"
            elif mm < 0.55:
                cur = list(base); rel = "back-to-base"
        else:
            rel = "base"
        variables = spell_variables(rng, names)
        if rng.random() < 0.55:
            kw = {}
            t = rng.random()
            if t < 0.3:
                tt = list(names); rng.shuffle(tt); kw["target"] = tt
            elif t < 0.45:
                tt = list(names); rng.shuffle(tt); kw["target"] = tt[:rng.randint(1, n)]
            steps.append({"fn": "solve", "lines": list(cur), "text": "\n".join(cur), "variables": variables, "kw": kw, "rel": rel,
                          "locals": None, "share": None})
        else:
            kw = gen_kw(rng, names, sign_free=True)
            steps.append(simplify_step(cur, variables, kw, rel))
    return {"family": "cross", "kind": "chain", "nk": nk, "names": names, "steps": steps}


def gen_seq_case(rng, ratline):
    fam = rng.choice(FAMILIES)
    if fam in ("matrix", "bounds", "pipe"):
        return {"family": fam}
    if fam == "kw":
        return fam_kw(rng, ratline)
    if fam == "objects":
        return fam_kw(rng, ratline, objects=True)
    if fam == "variant":
        return fam_variant(rng, ratline)
    if fam == "locals":
        return fam_locals(rng, ratline)
    return fam_cross(rng, ratline)


def kw_diff(a, b):
    """names of the keywords in which two steps differ (variables spelling and locals included)"""
    ka = dict(a["kw"], variables=a["variables"], locals=a["locals"]); kb = dict(b["kw"], variables=b["variables"], locals=b["locals"])
    return sorted(k for k in set(ka) | set(kb) if ka.get(k, "<absent>") != kb.get(k, "<absent>"))


def relation(steps, j):
    """how call j relates to the calls before it (configuration class of the class key; kept short: the framework cuts
    replay file names at 60 characters): the first call; the same text as an earlier call of the same function - with `all` /
    `locals` / only other keywords / nothing changed -; the same text after another function; a new text (which variant)"""
    if j == 0:
        return "first"
    st = steps[j]
    same = [i for i in range(j) if steps[i]["lines"] == st["lines"] and steps[i]["fn"] == st["fn"]]
    if same:
        d = set(kw_diff(steps[same[-1]], st))
        main = sorted(d & {"all", "locals"})
        return "same:" + ("+".join(main) if main else ("other-kw" if d else "repeat"))
    other = [i for i in range(j) if steps[i]["lines"] == st["lines"]]
    if other:
        return "same:after-" + steps[other[-1]]["fn"]
    return "new:" + st["rel"].replace("variant:", "")


# ------------------------------------------------------------------ recorder for the top level of simplify
class TopTrace:
    """wrap the module-level names simplify() looks up at call time (absval, _simplify) and random.randint; record, per
    call of simplify: what absval returned, every _simplify call (case text, keywords, returned value), and the values
    drawn by the top level itself (outside absval / _simplify)"""

    def __init__(self, S):
        import random
        self.S = S; self.random = random
        self.reset()

    def reset(self):
        self.absval = []; self.parts = []; self.draws = []; self.depth = 0

    def __enter__(self):
        S = self.S
        self.o_abs, self.o_simp, self.o_randint = S.absval, S._simplify, self.random.randint
        tr = self

        def absval(constraints, **kwds):
            tr.depth += 1
            try:
                out = tr.o_abs(constraints, **kwds)
            finally:
                tr.depth -= 1
            tr.absval.append((constraints, dict(kwds), out))
            return out

        def _simplify(constraints, *a, **kwds):
            tr.depth += 1
            try:
                out = tr.o_simp(constraints, *a, **kwds)
            finally:
                tr.depth -= 1
            tr.parts.append((constraints, a, dict(kwds), out))
            return out

        def randint(lo, hi):
            v = tr.o_randint(lo, hi)
            if tr.depth == 0:
                tr.draws.append((lo, hi, v))
            return v
        S.absval, S._simplify, self.random.randint = absval, _simplify, randint
        return self

    def __exit__(self, *exc):
        self.S.absval, self.S._simplify, self.random.randint = self.o_abs, self.o_simp, self.o_randint
        return False


class Interner:
    def __init__(self):
        self.ids = {}

    def __call__(self, text):
        if text not in self.ids:
            self.ids[text] = len(self.ids) + 1
        return self.ids[text]


def pret(v, intern):
    """None / str / tuple -> protocol text of a `Ret`"""
    if v is None:
        return "none"
    if isinstance(v, str):
        return "(one %d)" % intern(v)
    if isinstance(v, tuple):
        if any(c is None for c in v):
            return None          # (a tuple from _simplify never holds None: it filters them, symbolic.py l.790)
        return "(many %s)" % " ".join(str(intern(c)) for c in v)
    return None


def top_request(tr, all_flag, result):
    """-> (request line | None, expected reply | None, note).  None request: the recorded values do not fit the protocol"""
    intern = Interner()
    if len(tr.absval) != 1:
        return None, None, "absval called %d times" % len(tr.absval)
    cons = tr.absval[0][2]
    a = pret(cons, intern)
    if a is None or cons is None:
        return None, None, "absval returned %r" % (cons,)
    parts = []
    seen = {}
    for text, args, kwds, out in tr.parts:
        p = pret(out, intern)
        if p is None:
            return None, None, "_simplify returned %r" % (out,)
        tid = intern(text)
        if tid in seen and seen[tid] != p:
            return None, None, "the same case text was simplified twice with different results"
        if tid not in seen:
            seen[tid] = p
            parts.append("(%d %s)" % (tid, p))
    r = tr.draws[-1][2] if tr.draws else 0
    line = "C12 top (all %s) (r %d) (abs %s) (parts (%s))" % ("true" if all_flag else "false", r, a, " ".join(parts))
    if isinstance(result, tuple):
        want = "ok kind=tuple cases=(%s)" % " ".join("none" if c is None else str(intern(c)) for c in result)
    elif result is None:
        want = "ok kind=single cases=(none)"
    elif isinstance(result, str):
        want = "ok kind=single cases=(%d)" % intern(result)
    else:
        return None, None, "simplify returned %r" % (result,)
    return line, want, ""
