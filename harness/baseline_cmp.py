"""compare a junit xml with BASELINE.json stable_pass: prints stable tests that did not pass"""
import sys, json, xml.etree.ElementTree as ET
base = json.load(open("/root/.vp/BASELINE.json"))
stable = set(base["stable_pass"])
t = ET.parse(sys.argv[1])
passed = set()
for tc in t.iter("testcase"):
    name = "%s::%s" % (tc.get("classname"), tc.get("name"))
    bad = any(ch.tag in ("failure", "error", "skipped") for ch in tc)
    if not bad:
        passed.add(name)
missing = sorted(stable - passed)
print("stable:", len(stable), "passed now:", len(passed), "stable-not-passed:", len(missing))
for m in missing[:20]:
    print("  ", m)
