"""C01 - see DESIGN.md section 5; shared machinery in solvercheck.py"""
import solvercheck, framework
PID = "C01"
MODULE = "MysticVerif.Props.Solve"
THEOREMS = ["MysticVerif.C01.de_member_inv", "MysticVerif.C01.de_best_inv", "MysticVerif.C01.de_best_le_members", "MysticVerif.C01.de2_step_eq_de1_step", "MysticVerif.C01.de_best_le_initial_guess", "MysticVerif.C01.nm_member_inv", "MysticVerif.C01.nm_inv_reachable", "MysticVerif.C01.nm_best_evaluated_of_fixed", "MysticVerif.C01.nm_best_le_members", "MysticVerif.C01.nm_best_not_evaluated_witness", "MysticVerif.C01.pw_best_inv", "MysticVerif.C01.pw_best_inv_gen0", "MysticVerif.C01.pw_best_le_initial_guess", "MysticVerif.SolveProps.solve_de_inv", "MysticVerif.SolveProps.solve_de_best", "MysticVerif.SolveProps.solve_state_is_open_loop", "MysticVerif.C01.ensemble_best_inherits", "MysticVerif.C01.ensemble_of_de_best", "MysticVerif.SolveProps.solve_nm_inv", "MysticVerif.SolveProps.solve_nm_members", "MysticVerif.SolveProps.solve_pw_inv", "MysticVerif.SolveProps.solve_pw_best", "MysticVerif.Reconfig.nm_redecorate_keeps_energies", "MysticVerif.Reconfig.nm_redecorate_head", "MysticVerif.Reconfig.nm_redecoration_breaks_member_energy_witness", "MysticVerif.Reconfig.reconfigured_best_origin", "MysticVerif.Reconfig.init_bestAny"]


def run_shard(pid, seed, shard, ncases, tier, extra):
    return solvercheck.run_shard(PID, seed, shard, ncases, tier, extra)


def main(tier, seed):
    return solvercheck.main(PID, MODULE, THEOREMS, tier, seed, RULE_EXTRA, TRUSTED_EXTRA)


RULE_EXTRA = 'wrapper stream: fmin/fmin_powell/diffev/diffev2 with full_output=1 (returned x evaluated, fval = cost+penalty).'
TRUSTED_EXTRA = ["Powell: in the `pw` stream the Brent line search is an oracle of the model (which points it evaluates, which one it returns), recorded from the real run, and the contract 'never worse than the start' (LsMono) is checked on every recorded search; in the `pwb` and `solve` streams the search itself is computed by the Brent model (Model/Brent.lean) for which LsMono is a theorem (Props/C04Brent.lean); everything else of PowellDirectionalSolver._Step is computed by the model and replayed bit for bit (histogram model:pw, pw-iterations, pw-extrapolation-searches)", 'ensembles: the reported best is a member\'s (theorems ensemble_best_inherits / ensemble_of_de_best on top of C09.update_best_min); member creation and the map are monitored (C09)']


def replay(path):
    return solvercheck.replay(PID, path)
