"""C09 - ensemble solvers return the best member and account for all work; the point generators behind them
(gridpts / lattice bin centres / samplepts / randomly_bin / fillpts) enumerate the full product / stay in their ranges.

Correspondence (bit-exact): real mystic.math.grid.gridpts / samplepts / randomly_bin, LatticeSolver._InitialPoints and
the ensemble's reduction (__update_bestSolver / __update_state / _total_evals, fed with the members' REAL
(bestEnergy, bestSolution, evaluations, generations, id)) vs lean Model/Ensemble.lean.  The random draws
(random.random sort keys, numpy.random.rand matrix) are recorded from / injected into the real run.
Monitor: the property itself on what the real code returns (independent of the model): itertools.product, exact
rational cell centres, real ensemble solves with every cost / constraints / penalty call attributed to its member."""
import sys, os, json, time, math, itertools, random as _random
from fractions import Fraction
import numpy as np
import common
from common import case_rng, fl, nl, f2b, b2f, same_float, same_vec, dyadic, gfloat, parse_reply, floats_of
import framework, leandrv, dsl, solvergen
from framework import Finding

PID = "C09"
MODULE = "MysticVerif.Props.C09"
THEOREMS = [
    "MysticVerif.C09.gridpts_spec",
    "MysticVerif.C09.gridpts_count",
    "MysticVerif.C09.gridpts_empty_q",
    "MysticVerif.C09.gridpts_empty_bin_witness",
    "MysticVerif.C09.lattice_bins_centres",
    "MysticVerif.C09.lattice_points_spec",
    "MysticVerif.C09.lattice_int_points_count",
    "MysticVerif.C09.samples_in_range",
    "MysticVerif.C09.samplepts_in_range",
    "MysticVerif.C09.strided_prod",
    "MysticVerif.C09.shuffle_perm",
    "MysticVerif.C09.factors_spec",
    "MysticVerif.C09.randomly_bin_spec",
    "MysticVerif.C09.randomly_bin_none_spec",
    "MysticVerif.C09.randomly_bin_zero",
    "MysticVerif.C09.update_best_min",
    "MysticVerif.C09.update_best_last_tie",
    "MysticVerif.C09.update_best_prev_irrelevant",
    "MysticVerif.C09.update_best_empty",
    "MysticVerif.C09.totals",
    "MysticVerif.C09.member_count",
    "MysticVerif.C09.member_inherits",
]

STREAMS = ["grid", "lattice", "samples", "rbin", "ensemble", "fill"]


def vecf(x):
    return [float(v) for v in np.asarray(x, dtype=float).ravel()]


def fll(xss):
    return "(" + " ".join(fl(xs) for xs in xss) + ")"


def exc_enum(e):
    if isinstance(e, IndexError):
        return "index"
    if isinstance(e, ZeroDivisionError):
        return "zerodiv"
    if isinstance(e, TypeError):
        return "type"
    return "other:" + type(e).__name__


def pts_of(sx):
    return [floats_of(p) for p in sx]


def same_pts(a, b):
    return len(a) == len(b) and all(same_vec(p, q) for p, q in zip(a, b))


def bump(hist, key, n=1):
    hist[key] = hist.get(key, 0) + n


# =================================================================== random-draw patches
class KeyRecorder:
    """random.random (looked up through the module by mystic.tools.random_state at call time) -> recorded keys;
    exact key ties are injected on purpose (stable-sort behaviour)"""

    def __init__(self, rng, ties=0.1):
        self.rng = rng; self.ties = ties; self.log = []

    def __enter__(self):
        self._orig = _random.random
        rec = self

        def rand():
            if rec.log and rec.rng.random() < rec.ties:
                v = rec.rng.choice(rec.log)
            else:
                v = rec.rng.random()
            rec.log.append(v)
            return v
        _random.random = rand
        return self

    def __exit__(self, *a):
        _random.random = self._orig


class RandPatch:
    """numpy.random.rand -> a chosen matrix (inject) or the real one, recorded"""

    def __init__(self, inject=None):
        self.inject = inject; self.log = []

    def __enter__(self):
        self._orig = np.random.rand
        rec = self

        def rand(*shape):
            if rec.inject is not None:
                a = np.array(rec.inject, dtype=float).reshape(shape)
            else:
                a = rec._orig(*shape)
            rec.log.append(a.copy())
            return a
        np.random.rand = rand
        return self

    def __exit__(self, *a):
        np.random.rand = self._orig


# =================================================================== stream: gridpts
def gen_value(rng, pool):
    if pool == "int":
        return float(rng.randint(-3, 3))
    if pool == "dyadic":
        return dyadic(rng, -4, 4, 4)
    return gfloat(rng, 6.0)


def gen_grid(rng):
    if rng.random() < 0.04:
        return {"q": []}
    nb = rng.choice([1, 1, 2, 2, 2, 3, 3, 4])
    pool = rng.choice(["int", "dyadic", "float"])
    q = []
    for _ in range(nb):
        n = rng.choice([0, 1, 1, 2, 3]) if rng.random() < 0.12 else rng.choice([1, 2, 2, 3, 3, 4, 5])
        q.append([gen_value(rng, pool) for _ in range(n)])
    return {"q": q}


def impl_grid(c):
    from mystic.math.grid import gridpts
    try:
        pts = gridpts([list(b) for b in c["q"]])
    except Exception as e:
        return {"err": exc_enum(e)}
    return {"pts": [vecf(p) for p in pts]}


def line_grid(c):
    return "C09 grid (q (%s))" % " ".join(fl(b) for b in c["q"])


def monitor_grid(c, obs):
    """grid points enumerate the full Cartesian product of the bins, in order; count = product of the bin sizes"""
    out = []
    q = c["q"]
    if "err" in obs:
        if q:
            out.append(("gridpts/raises", "gridpts raised %s on %r" % (obs["err"], q)))
        return out
    want = [list(t) for t in itertools.product(*q)]
    nprod = 1
    for b in q:
        nprod *= len(b)
    got = obs["pts"]
    if len(got) != nprod or not same_pts(got, want):
        if any(len(b) == 0 for b in q[:-1]):
            key = "gridpts/empty-bin-not-last"
        else:
            key = "gridpts/not-cartesian-product"
        out.append((key, "gridpts(%r) returned %d points %r, the Cartesian product has %d: %r" % (q, len(got), got[:6], nprod, want[:6])))
    return out


# =================================================================== stream: lattice starting points
def gen_box(rng, dim, regime, degenerate_ok=True):
    lo = []; hi = []
    for _ in range(dim):
        if regime == "dyadic":
            a = dyadic(rng, -8, 8, 4)
            w = 0.0 if (degenerate_ok and rng.random() < 0.05) else float(rng.choice([0.25, 0.5, 1, 1, 2, 3, 4, 6, 8]))
        elif regime == "float":
            a = gfloat(rng, 20.0)
            w = 0.0 if (degenerate_ok and rng.random() < 0.03) else abs(gfloat(rng, 10.0)) + rng.choice([0.0, 1e-9, 0.1])
            if w == 0.0 and not degenerate_ok:
                w = 1.0
        else:       # wide / tiny relative width
            a = rng.choice([1e6, -1e6, 1e-6, 123456.789]) * rng.choice([1.0, 3.0])
            w = rng.choice([1e-3, 1.0, 1e3])
        lo.append(a); hi.append(a + w)
    return lo, hi


def gen_lattice(rng):
    dim = rng.randint(1, 4)
    regime = rng.choice(["dyadic", "dyadic", "float", "float", "wide"])
    lo, hi = gen_box(rng, dim, regime)
    c = {"dim": dim, "regime": regime, "lower": lo, "upper": hi, "strict": rng.random() < 0.8}
    k = rng.random()
    if k < 0.05:     # malformed
        if rng.random() < 0.5 and dim > 1:
            c["nbins"] = [rng.choice([1, 2, 3]) for _ in range(dim - 1)]; c["malformed"] = "short"
        else:
            nb = [rng.choice([1, 2, 3]) for _ in range(dim)]
            nb[rng.randrange(dim)] = 0
            c["nbins"] = nb; c["malformed"] = "zero"
    elif k < 0.70:
        c["nbins"] = [rng.choice([1, 1, 2, 2, 3, 4, 5, 8]) for _ in range(dim)]
    else:
        c["N"] = rng.choice([1, 2, 3, 4, 5, 6, 7, 8, 9, 10, 12, 16, 18, 24, 30])
    return c


def impl_lattice(c, rng):
    from mystic.ensemble import LatticeSolver
    nb = c["N"] if "N" in c else tuple(c["nbins"])
    try:
        s = LatticeSolver(c["dim"], nbins=nb)
        if c["strict"]:
            s.SetStrictRanges(list(c["lower"]), list(c["upper"]))
        with KeyRecorder(rng) as rec:
            pts = s._InitialPoints()
    except Exception as e:
        return {"err": exc_enum(e)}
    return {"pts": [vecf(p) for p in pts], "keys": list(rec.log), "npts": int(s._npts), "nslots": len(s._allSolvers)}


def box_of(c):
    if c["strict"]:
        return c["lower"], c["upper"]
    return [-1000.0] * c["dim"], [1000.0] * c["dim"]


def line_lattice(c, obs):
    lo, hi = box_of(c)
    if "N" in c:
        return "C09 latticeN (N %d) (dim %d) (lower %s) (upper %s) (keys %s) (strict %s)" % (c["N"], c["dim"], fl(lo), fl(hi), fl(obs.get("keys", [])), "true" if c["strict"] else "false")
    return "C09 lattice (dim %d) (lower %s) (upper %s) (nbins %s) (strict %s)" % (c["dim"], fl(lo), fl(hi), nl(c["nbins"]), "true" if c["strict"] else "false")


def cell_centre_ok(p, lo, hi, j, n, exact):
    """p is the centre of cell j of n equal cells of [lo, hi] (exact rational arithmetic on the binary64 values)"""
    L = Fraction(lo); H = Fraction(hi)
    mid = L + (H - L) * (2 * j + 1) / (2 * n)
    cl = L + (H - L) * j / n; ch = L + (H - L) * (j + 1) / n
    P = Fraction(p)
    if exact and n & (n - 1) == 0:
        # dyadic bounds and a power-of-two bin count: (hi-lo)/n and every intermediate are exact in binary64
        try:
            if Fraction(float(mid)) == mid:
                return P == mid
        except OverflowError:
            pass
    tol = Fraction(4 * max(math.ulp(lo), math.ulp(hi), math.ulp(p)))
    return cl - tol <= P <= ch + tol and abs(P - mid) <= tol and L <= P <= H


def monitor_lattice(c, obs):
    """exactly prod(nbins) / N starting points, each the centre of its own grid cell, inside the ranges,
    enumerated as the full product in lexicographic order"""
    out = []
    if c.get("malformed"):
        return out
    if "err" in obs:
        out.append(("lattice-points/raises", "LatticeSolver._InitialPoints raised %s for %r" % (obs["err"], c)))
        return out
    lo, hi = box_of(c)
    pts = obs["pts"]; dim = c["dim"]
    if "N" in c:
        want_n = c["N"]
    else:
        want_n = 1
        for n in c["nbins"]:
            want_n *= n
    if len(pts) != want_n or obs["npts"] != want_n or obs["nslots"] != want_n:
        out.append(("lattice-points/count", "requested %d members: %d starting points, _npts=%d, %d solver slots" % (want_n, len(pts), obs["npts"], obs["nslots"])))
        return out
    if any(len(p) != dim for p in pts):
        out.append(("lattice-points/dimension", "a starting point does not have %d coordinates: %r" % (dim, pts[:3])))
        return out
    exact = c["regime"] == "dyadic"
    if "N" in c:
        # the bin layout is not observable: recover it from the points (needs non-degenerate sides)
        if any(a == b for a, b in zip(lo, hi)):
            return out
        nb = [len(set(p[d] for p in pts)) for d in range(dim)]
        tot = 1
        for n in nb:
            tot *= n
        if tot != want_n:
            out.append(("lattice-points/not-a-grid", "N=%d: per-coordinate distinct values %r do not multiply to N" % (want_n, nb)))
            return out
    else:
        nb = list(c["nbins"])
    # point i <-> multi-index (lexicographic, first coordinate slowest)
    for i, p in enumerate(pts):
        r = i
        idx = [0] * dim
        for d in range(dim - 1, -1, -1):
            idx[d] = r % nb[d]; r //= nb[d]
        for d in range(dim):
            if not cell_centre_ok(p[d], lo[d], hi[d], idx[d], nb[d], exact):
                out.append(("lattice-points/not-cell-centre", "point %d coordinate %d = %r is not the centre of cell %d of %d of [%r, %r]" % (i, d, p[d], idx[d], nb[d], lo[d], hi[d])))
                return out
            if lo[d] < hi[d] and not (lo[d] < p[d] < hi[d]) and (exact or c["regime"] == "float"):
                out.append(("lattice-points/not-inside", "point %d coordinate %d = %r not strictly inside (%r, %r)" % (i, d, p[d], lo[d], hi[d])))
                return out
    return out


# =================================================================== stream: samplepts / _random_samples
U_SPECIAL = [0.0, 1.0 - 2.0 ** -53, 0.5, 2.0 ** -53, 0.25, 0.75, 1.0 - 2.0 ** -52]


def gen_samples(rng):
    dim = rng.randint(1, 4)
    npts = rng.choice([0, 1, 1, 2, 3, 4, 6])
    regime = rng.choice(["dyadic", "dyadic", "float", "wide"])
    lo, hi = gen_box(rng, dim, regime)
    c = {"dim": dim, "npts": npts, "regime": regime, "lb": lo, "ub": hi}
    k = rng.random()
    if k < 0.04:
        c["ub"] = hi[:-1]; c["malformed"] = "short-ub"          # IndexError
    elif k < 0.08:
        c["ub"] = hi + [1.0]; c["malformed"] = "long-ub"        # ignored by the code
    elif k < 0.12:
        c["lb"], c["ub"] = hi, lo; c["malformed"] = "swapped"    # outside the property's hypothesis lb <= ub
    if rng.random() < 0.25:
        c["real_rng"] = True; c["np_seed"] = rng.randrange(2 ** 31)
    else:
        us = []
        for _ in range(dim):
            row = []
            for _ in range(npts):
                t = rng.random()
                if regime == "dyadic":
                    row.append(rng.randint(0, 7) / 8.0 if t < 0.8 else rng.choice([0.0, 0.5, 0.25, 0.75]))
                else:
                    row.append(rng.choice(U_SPECIAL) if t < 0.35 else rng.random())
            us.append(row)
        c["us"] = us
    c["via"] = rng.choice(["samplepts", "samplepts", "buckshot"])
    return c


def impl_samples(c):
    from mystic.math.grid import samplepts
    from mystic.ensemble import BuckshotSolver
    try:
        if c.get("real_rng"):
            np.random.seed(c["np_seed"])
        with RandPatch(None if c.get("real_rng") else c["us"]) as rp:
            if c["via"] == "buckshot" and not c.get("malformed"):
                s = BuckshotSolver(c["dim"], npts=c["npts"])
                s.SetStrictRanges(list(c["lb"]), list(c["ub"]))
                pts = s._InitialPoints()
                extra = {"npts_attr": int(s._npts), "nslots": len(s._allSolvers)}
            else:
                pts = samplepts(list(c["lb"]), list(c["ub"]), c["npts"])
                extra = {}
    except Exception as e:
        return {"err": exc_enum(e)}
    us = rp.log[0].tolist() if rp.log else []
    return dict({"pts": [vecf(p) for p in pts], "us": us}, **extra)


def line_samples(c, obs):
    us = obs.get("us") if "us" in obs else c.get("us", [])
    return "C09 samples (lb %s) (ub %s) (npts %d) (us (%s))" % (fl(c["lb"]), fl(c["ub"]), c["npts"], " ".join(fl(r) for r in us))


def monitor_samples(c, obs, hist):
    """npts sample points, every coordinate within [lb_i, ub_i] (the upper end exactly on the exactness regime;
    in general floats lb + u*|ub-lb| may exceed ub by rounding - DESIGN 3 - and is only counted)"""
    out = []
    if c.get("malformed") in ("short-ub", "swapped"):
        return out
    if "err" in obs:
        out.append(("samplepts/raises", "samplepts raised %s for %r" % (obs["err"], c)))
        return out
    pts = obs["pts"]
    if len(pts) != c["npts"] or any(len(p) != c["dim"] for p in pts):
        out.append(("samplepts/count", "requested %d points of dimension %d, got %r" % (c["npts"], c["dim"], [len(p) for p in pts])))
        return out
    if "nslots" in obs and (obs["nslots"] != c["npts"] or obs["npts_attr"] != c["npts"]):
        out.append(("buckshot-points/count", "BuckshotSolver npts=%d has %d slots" % (c["npts"], obs["nslots"])))
    for j, p in enumerate(pts):
        for i, v in enumerate(p):
            lb = c["lb"][i]; ub = c["ub"][i]
            if v < lb:
                out.append(("samplepts/below-range", "point %d coordinate %d = %r < lb %r" % (j, i, v, lb)))
                return out
            if v > ub:
                if c["regime"] == "dyadic" or v > ub + 4 * max(math.ulp(ub), math.ulp(lb)):
                    out.append(("samplepts/above-range", "point %d coordinate %d = %r > ub %r" % (j, i, v, ub)))
                    return out
                bump(hist, "samples:upper-end-exceeded-by-rounding")
    return out


# =================================================================== stream: randomly_bin
PRIMES = [2, 3, 5, 7, 11, 13, 17, 19, 23, 29, 31, 37, 97, 101, 211, 997]


def gen_rbin(rng):
    k = rng.random()
    if k < 0.03:
        N = 0
    elif k < 0.10:
        N = 1
    elif k < 0.30:
        N = rng.choice(PRIMES)
    elif k < 0.45:
        N = rng.choice([2, 3, 5]) ** rng.randint(1, 6)
    elif k < 0.9:
        N = rng.randint(2, 400)
    else:
        N = rng.randint(400, 6000)
    t = rng.random()
    ndim = None if t < 0.3 else (0 if t < 0.33 else rng.choice([1, 1, 2, 2, 3, 3, 4, 5, 7]))
    return {"N": N, "ndim": ndim, "ones": rng.random() < 0.6, "exact": rng.random() < 0.75}


def impl_rbin(c, rng):
    from mystic.math.grid import randomly_bin
    with KeyRecorder(rng, ties=0.15) as rec:
        try:
            r = randomly_bin(c["N"], c["ndim"], ones=c["ones"], exact=c["exact"])
        except Exception as e:
            return {"err": exc_enum(e), "keys": list(rec.log)}
    return {"bins": [int(v) for v in r], "keys": list(rec.log)}


def line_rbin(c, obs):
    return "C09 rbin (N %d) (ndim %s) (ones %s) (exact %s) (keys %s)" % (
        c["N"], "none" if c["ndim"] is None else str(c["ndim"]), "true" if c["ones"] else "false",
        "true" if c["exact"] else "false", fl(obs["keys"]))


def is_prime(n):
    if n < 2:
        return False
    i = 2
    while i * i <= n:
        if n % i == 0:
            return False
        i += 1
    return True


def monitor_rbin(c, obs):
    """prod(bins) = N for every shuffle (N-1 for a prime N > 3 with exact=False, as documented); len = ndim"""
    out = []
    N = c["N"]; ndim = c["ndim"]
    if N == 0 or ndim == 0:
        return out           # degenerate requests (no bins), not in the property's domain; compared with the model only
    if "err" in obs:
        out.append(("randomly_bin/raises", "randomly_bin raised %s for %r" % (obs["err"], c)))
        return out
    bins = obs["bins"]
    want = N - 1 if (not c["exact"] and N > 3 and is_prime(N)) else N
    p = 1
    for b in bins:
        p *= b
    if p != want or any(b < 1 for b in bins):
        out.append(("randomly_bin/product", "randomly_bin(%r) = %r has product %d, expected %d" % (c, bins, p, want)))
    if ndim is not None and len(bins) != ndim:
        out.append(("randomly_bin/length", "randomly_bin(%r) = %r has %d entries, ndim = %d" % (c, bins, len(bins), ndim)))
    return out


# =================================================================== stream: fillpts / SparsitySolver points (monitor only)
def gen_fill(rng):
    dim = rng.randint(1, 3)
    lo, hi = gen_box(rng, dim, "dyadic", degenerate_ok=False)
    npts = rng.choice([0, 1, 2, 3])
    data = None
    if rng.random() < 0.5:
        data = [[a + (b - a) * rng.random() for a, b in zip(lo, hi)] for _ in range(rng.randint(1, 3))]
    rtol = rng.choice([None, None, 0.3, -0.3])
    return {"dim": dim, "lb": lo, "ub": hi, "npts": npts, "data": data, "rtol": rtol, "seed": rng.randrange(2 ** 31),
            "via": rng.choice(["fillpts", "sparsity"])}


def impl_fill(c):
    from mystic.math.grid import fillpts
    from mystic.ensemble import SparsitySolver
    _random.seed(c["seed"]); np.random.seed(c["seed"])
    try:
        if c["via"] == "sparsity":
            s = SparsitySolver(c["dim"], npts=c["npts"], rtol=c["rtol"])
            s.SetStrictRanges(list(c["lb"]), list(c["ub"]))
            pts = s._InitialPoints()
            return {"pts": [vecf(p) for p in pts], "nslots": len(s._allSolvers)}
        pts = fillpts(list(c["lb"]), list(c["ub"]), c["npts"], None if c["data"] is None else [list(d) for d in c["data"]], c["rtol"])
    except Exception as e:
        return {"err": exc_enum(e) + ":" + repr(e)[:80]}
    return {"pts": [vecf(p) for p in pts]}


def monitor_fill(c, obs):
    out = []
    if "err" in obs:
        out.append(("fillpts/raises", "%s raised %s for %r" % (c["via"], obs["err"], c)))
        return out
    pts = obs["pts"]
    if len(pts) != c["npts"] or obs.get("nslots", c["npts"]) != c["npts"]:
        if c["npts"] == 0 and c["data"] and same_pts(pts, [list(map(float, d)) for d in c["data"]]):
            # `pts = pts[-npts:]` with npts = 0 is `pts[0:]`: the legacy data come back instead of no points
            out.append(("fillpts/count/npts=0-returns-legacy-data", "fillpts(.., npts=0, data=%r) returned the %d legacy points instead of []" % (c["data"], len(pts))))
        else:
            out.append(("fillpts/count", "requested %d space-filling points, got %d" % (c["npts"], len(pts))))
        return out
    for j, p in enumerate(pts):
        if len(p) != c["dim"] or any(not (a <= v <= b) for v, a, b in zip(p, c["lb"], c["ub"])):
            out.append(("fillpts/outside-range", "space-filling point %d = %r outside [%r, %r]" % (j, p, c["lb"], c["ub"])))
            return out
    return out


# =================================================================== stream: real ensemble solves
NESTED = ["NM", "NM", "Powell", "Powell", "DE", "DE2"]


def nested_class(name):
    from mystic.solvers import (NelderMeadSimplexSolver, PowellDirectionalSolver, DifferentialEvolutionSolver,
                                DifferentialEvolutionSolver2)
    return {"NM": NelderMeadSimplexSolver, "Powell": PowellDirectionalSolver, "DE": DifferentialEvolutionSolver,
            "DE2": DifferentialEvolutionSolver2}[name]


def gen_plateau_cost(rng, dim):
    """piecewise-constant cost: exact energy ties between members are the rule, not the exception"""
    terms = [("sq", ("rint", ("-", ("x", i), ("c", dyadic(rng, -2, 2, 2))))) for i in range(dim)]
    return ("scalar", ("sum",) + tuple(terms))


def gen_ensemble(rng, tier):
    kind = rng.choice(["lattice", "lattice", "lattice", "buckshot", "buckshot", "sparsity"])
    dim = rng.randint(1, 3)
    c = {"kind": kind, "dim": dim, "api": rng.choice(["class", "class", "class", "wrapper"])}
    centre = [dyadic(rng, -3, 3, 4) for _ in range(dim)]
    regime = rng.choice(["dyadic", "dyadic", "float"])
    if rng.random() < 0.8 or kind != "lattice":
        lo, hi, bk = solvergen.gen_box(rng, dim, centre, rng.choice(["finite", "finite", "integer"]))
        if regime == "float":
            lo = [a - rng.random() * 0.1 for a in lo]; hi = [b + rng.random() * 0.1 for b in hi]
        tight, clip = rng.choice([(None, None), (None, None), (None, None), (True, None), (False, None), (True, True), (None, True)])
        c["ranges"] = (lo, hi, tight, clip)
    if kind == "lattice":
        if rng.random() < 0.7:
            nb = [rng.choice([1, 1, 2, 2, 3]) for _ in range(dim)]
            while np.prod(nb) > 9:
                nb[rng.randrange(dim)] = 1
            c["nbins"] = nb
        else:
            c["N"] = rng.choice([1, 2, 3, 4, 5, 6, 8])
    else:
        c["npts"] = rng.choice([1, 2, 3, 4, 5, 6]) if kind == "buckshot" else rng.choice([1, 2, 3])
        if kind == "sparsity":
            c["rtol"] = rng.choice([None, None, 0.3])
    c["nested"] = rng.choice(NESTED)
    if c["nested"] in ("DE", "DE2"):
        c["NP"] = rng.randint(4, 7)
    k = rng.random()
    if k < 0.3:
        c["cost"] = gen_plateau_cost(rng, dim)
    else:
        c["cost"] = solvergen.gen_cost(rng, dim, allow_vector=False)
    if rng.random() < 0.35:
        box = (c["ranges"][0], c["ranges"][1]) if c.get("ranges") else None
        con = solvergen.gen_constraints(rng, dim, box)
        # keep C03's hypothesis true: the constraint must map the box into itself EXACTLY (a pin at a + (b-a)*1.0 can
        # land one ulp outside a non-dyadic box); checked on the corners and the centre, else no constraints
        okc = True
        if box is not None:
            probes = [list(box[0]), list(box[1]), [0.5 * (a + b) for a, b in zip(*box)]]
            for pt in probes:
                y = dsl.con_apply(con, pt)
                if any(not (a <= v <= b) for v, a, b in zip(y, box[0], box[1])) or not same_vec(dsl.con_apply(con, y), y):
                    okc = False
        if okc:
            c["constraints"] = con
    if rng.random() < 0.3:
        c["penalty"] = solvergen.gen_penalty(rng, dim)
    # at least one finite limit: every run ends
    big = tier == "thorough" and rng.random() < 0.3
    maxiter = rng.choice([1, 2, 3, 5, 8, 12, 20] + ([40, 80] if big else []))
    maxfun = rng.choice([None, None, None, 1, 5, 20, 60, 200])
    if maxfun is not None and rng.random() < 0.3:
        maxiter = None
    c["limits"] = (maxiter, maxfun)
    t = solvergen.gen_termination(rng, c["nested"] if c["nested"] != "DE2" else "DE")
    if t is not None and t[0] == "CRT" and c["nested"] != "NM":
        t = ("VTR", 1e-3, 0.0)
    c["termination"] = t
    c["map"] = rng.choice(["builtin", "fwd", "rev", "shuffle", "shuffle"])
    c["map_seed"] = rng.randrange(2 ** 31)
    if c["map"] != "builtin" and rng.random() < 0.3:
        c["transport"] = "pickle"
    if kind == "lattice" and rng.random() < 0.15:
        c["dist"] = rng.choice([0.01, 0.25, 2.0])       # normal noise added to the cell centres
    if rng.random() < 0.2:
        c["instance"] = True       # a configured nested solver INSTANCE instead of a solver class
    if c["api"] == "wrapper":
        c["mode"] = "solve"
        c["ftol"] = rng.choice([1e-4, 1e-2, 1e-8]); c["gtol"] = rng.choice([10, 2, 3, None])
        c.pop("termination", None)
    else:
        c["mode"] = rng.choice(["solve", "solve", "solve-step", "steps", "steps"])
        c["nsteps"] = rng.randint(1, 6)
    c["seed"] = rng.randrange(2 ** 31)
    if c["mode"] == "solve-step":
        # an ensemble Step deep-copies every member's monitors (and pickles the member under the pickle transport):
        # keep the Step loop short
        mi, mf = c["limits"]
        c["limits"] = (min(mi, 12) if mi is not None else (8 if tier == "quick" else 12), None if mf is None else min(mf, 60))
    return c


class Tape:
    def __init__(self):
        self.cur = None
        self.cost = []     # (member, x, y)
        self.con = []      # (member, x_in, x_out)
        self.pen = []      # (member, x, p)
        self.members = None   # the member solvers as the map saw them (last call)
        self.map_calls = 0
        self.order = []


def make_map(c, tape):
    if c["map"] == "builtin":
        return None
    mrng = _random.Random(c["map_seed"])

    def the_map(f, *args, **kw):
        n = len(args[0])
        idx = list(range(n))
        if c["map"] == "rev":
            idx.reverse()
        elif c["map"] == "shuffle":
            mrng.shuffle(idx)
        tape.map_calls += 1
        res = [None] * n
        for i in idx:
            tape.cur = i
            a = [x[i] for x in args]
            if c.get("transport") == "pickle":
                # what a process-pool map does to its arguments: a dill pickle round trip of the member solver
                import dill
                a[0] = dill.copy(a[0])
            res[i] = f(*a)
        tape.cur = None
        tape.order.append(idx)
        # the member solvers the ensemble keeps are the ones the map RETURNS
        tape.members = [r[0] for r in res]
        return res
    return the_map


# The member solvers are deep copies of the configured nested solver, and AbstractSolver.__deepcopy__ copies the
# cost with dill.copy: a closure would be pickled BY VALUE (every member would log into its own private copy of the
# tape).  Module-level functions of an importable module are pickled by reference, so all members share these.
_ACTIVE = {"tape": None, "cost": None, "cons": None, "pen": None}


def the_cost(x):
    tape = _ACTIVE["tape"]
    xv = vecf(x)
    y = dsl.ev(_ACTIVE["cost"], xv)
    tape.cost.append((tape.cur, xv, y))
    return y


def the_constraints(x):
    tape = _ACTIVE["tape"]
    xin = vecf(x)
    y = dsl.con_apply(_ACTIVE["cons"], xin)
    tape.con.append((tape.cur, xin, list(y)))
    return y


def the_penalty(x):
    tape = _ACTIVE["tape"]
    xv = vecf(x)
    p = dsl.ev(_ACTIVE["pen"], xv)
    tape.pen.append((tape.cur, xv, p))
    return p


def make_functions(c, tape):
    _ACTIVE["tape"] = tape
    _ACTIVE["cost"] = c["cost"][1]
    _ACTIVE["cons"] = c.get("constraints")
    _ACTIVE["pen"] = c.get("penalty")
    return the_cost, (the_constraints if c.get("constraints") is not None else None), (the_penalty if c.get("penalty") is not None else None)


def member_view(m):
    be = m.bestEnergy
    return {"e": float(np.asarray(be, dtype=float).ravel()[0]) if be is not None else None,
            "x": vecf(m.bestSolution), "evals": int(m.evaluations), "gens": int(m.generations),
            "id": m.id}


def ensemble_view(s):
    be = s.bestEnergy
    return {"e": float(np.asarray(be, dtype=float).ravel()[0]) if be is not None else None,
            "x": vecf(s.bestSolution), "evals": int(s.evaluations), "gens": int(s.generations),
            "best_id": s._is_best(), "total": int(s._total_evals), "iters": int(s._total_iters),
            "all_evals": [int(v) for v in s._all_evals], "n": len(s._allSolvers),
            "all_e": [None if v is None else float(np.asarray(v, dtype=float).ravel()[0]) for v in s._all_bestEnergy]}


def run_ensemble(c):
    """drive a real ensemble; returns observations: a list of states (one per observed moment) + the tape"""
    import mystic.ensemble as ME
    from mystic.termination import state as tstate
    import trace as tr
    _random.seed(c["seed"]); np.random.seed(c["seed"])
    tape = Tape()
    cost, cons, pen = make_functions(c, tape)
    the_map = make_map(c, tape)
    cls = nested_class(c["nested"])
    obs = {"states": [], "err": None}
    had_np = "NP" in cls.__dict__
    old_np = cls.__dict__.get("NP")
    try:
        if c["api"] == "wrapper":
            fn = getattr(ME, c["kind"])
            first = c["N"] if "N" in c else (tuple(c["nbins"]) if "nbins" in c else c["npts"])
            kw = dict(full_output=1, disp=0, solver=cls, ftol=c["ftol"], gtol=c["gtol"],
                      maxiter=c["limits"][0], maxfun=c["limits"][1])
            if c.get("NP"):
                cls.NP = c["NP"]          # what SetNestedSolver(solver, NP=..) does
            if c.get("ranges"):
                lo, hi, tight, clip = c["ranges"]
                kw["bounds"] = list(zip(lo, hi))
                if tight is not None:
                    kw["tightrange"] = tight
                if clip is not None:
                    kw["cliprange"] = clip
            if cons is not None:
                kw["constraints"] = cons
            if pen is not None:
                kw["penalty"] = pen
            if the_map is not None:
                kw["map"] = the_map
            if c["kind"] == "sparsity" and c.get("rtol") is not None:
                kw["rtol"] = c["rtol"]
            if c.get("dist"):
                from mystic.math import Distribution
                kw["dist"] = Distribution(np.random.normal, 0.0, c["dist"])
            ret = fn(cost, c["dim"], first, **kw)
            obs["ret"] = {"x": vecf(ret[0]), "fval": float(np.asarray(ret[1], dtype=float).ravel()[0]), "iterations": int(ret[2]),
                          "fcalls": int(ret[3]), "warnflag": int(ret[4]), "all_fcalls": int(ret[5])}
            obs["n_cost"] = len(tape.cost)
            if tape.members is not None:
                obs["members"] = [member_view(m) for m in tape.members]
                obs["member_cfg"] = [member_cfg(m, tstate) for m in tape.members]
            return obs, tape
        if c["kind"] == "lattice":
            s = ME.LatticeSolver(c["dim"], nbins=(c["N"] if "N" in c else tuple(c["nbins"])))
        elif c["kind"] == "buckshot":
            s = ME.BuckshotSolver(c["dim"], npts=c["npts"])
        else:
            s = ME.SparsitySolver(c["dim"], npts=c["npts"], rtol=c.get("rtol"))
        if c.get("instance") and c["api"] == "class":
            # the user configures the nested solver himself (consistently with the ensemble); it is used as it is
            inst = cls(c["dim"], c["NP"]) if c.get("NP") else cls(c["dim"])
            if c.get("ranges"):
                lo, hi, tight, clip = c["ranges"]
                kw = {}
                if tight is not None:
                    kw["tight"] = tight
                if clip is not None:
                    kw["clip"] = clip
                inst.SetStrictRanges(list(lo), list(hi), **kw)
            if cons is not None:
                inst.SetConstraints(cons)
            if pen is not None:
                inst.SetPenalty(pen)
            inst.SetEvaluationLimits(*c["limits"])
            if c.get("termination") is not None:
                inst.SetTermination(tr.make_termination(c["termination"]))
            else:
                from mystic.termination import NormalizedChangeOverGeneration
                inst.SetTermination(NormalizedChangeOverGeneration(1e-4))
            if c["mode"] != "solve":
                # Step-mode ensembles never hand the objective to a configured instance (only `_solve` does, l.776-777):
                # without this the members raise TypeError('NoneType' object is not callable) - a crash, not a C09 result
                inst.SetObjective(cost)
            s.SetNestedSolver(inst)
        elif c.get("NP"):
            s.SetNestedSolver(cls, NP=c["NP"])
        else:
            s.SetNestedSolver(cls)
        if c.get("dist"):
            from mystic.math import Distribution
            s.SetDistribution(Distribution(np.random.normal, 0.0, c["dist"]))
        if c.get("ranges"):
            lo, hi, tight, clip = c["ranges"]
            kw = {}
            if tight is not None:
                kw["tight"] = tight
            if clip is not None:
                kw["clip"] = clip
            s.SetStrictRanges(list(lo), list(hi), **kw)
        if cons is not None:
            s.SetConstraints(cons)
        if pen is not None:
            s.SetPenalty(pen)
        s.SetEvaluationLimits(*c["limits"])
        if c.get("termination") is not None:
            s.SetTermination(tr.make_termination(c["termination"]))
        if the_map is not None:
            s.SetMapper(the_map)
        obs["requested_term"] = tstate(s._termination)
        obs["npts_attr"] = int(s._npts)

        def observe(tag):
            st = ensemble_view(s)
            st["tag"] = tag
            st["members"] = [member_view(m) for m in s._allSolvers]
            st["n_cost"] = len(tape.cost)
            st["per_member_cost"] = per_member_counts(tape, len(s._allSolvers))
            obs["states"].append(st)
        if c["mode"] == "solve":
            s.Solve(cost, disp=0)
            observe("solve")
        elif c["mode"] == "solve-step":
            s.Solve(cost, disp=0, step=True)
            observe("solve-step")
        else:
            for k in range(c["nsteps"]):
                s.Step(cost, disp=0)
                observe("step%d" % k)
        obs["member_cfg"] = [member_cfg(m, tstate) for m in s._allSolvers]
        return obs, tape
    except Exception as e:
        import traceback
        obs["err"] = "%s: %s" % (type(e).__name__, e)
        obs["tb"] = traceback.format_exc()[-1500:]
        return obs, tape
    finally:
        if had_np:
            cls.NP = old_np
        elif "NP" in cls.__dict__:
            del cls.NP


def per_member_counts(tape, n):
    if any(t[0] is None for t in tape.cost):
        return None
    cnt = [0] * n
    for m, _, _ in tape.cost:
        if 0 <= m < n:
            cnt[m] += 1
    return cnt


def member_cfg(m, tstate):
    return {"useStrict": bool(m._useStrictRange), "min": vecf(m._strictMin), "max": vecf(m._strictMax),
            "tight": m._useTightRange, "clip": m._useClipRange, "maxiter": m._maxiter, "maxfun": m._maxfun,
            "term": tstate(m._termination), "cons_is": id(m._constraints), "pen_is": id(m._penalty),
            "class": type(m).__name__, "dim": int(m.nDim)}


def line_best(members):
    ms = " ".join("(%s %s %d %d %d)" % (f2b(m["e"]), fl(m["x"]), m["evals"], m["gens"], m["id"]) for m in members)
    return "C09 best (prev none) (members (%s))" % ms


def requested_count(c):
    if "N" in c:
        return c["N"]
    if "nbins" in c:
        n = 1
        for b in c["nbins"]:
            n *= b
        return n
    return c["npts"]


def monitor_ensemble(c, obs, tape, hist):
    """the property on the real results (no model involved)"""
    out = []
    if obs["err"]:
        out.append(("ensemble/raises/%s/%s" % (c["kind"], c["nested"]), "ensemble run raised %s" % obs["err"]))
        return out
    want_n = requested_count(c)
    tagged = c["map"] != "builtin"
    lo = hi = None
    if c.get("ranges"):
        lo, hi = c["ranges"][0], c["ranges"][1]
    key = lambda clause: "ensemble/%s/%s/%s" % (clause, c["kind"], c["nested"])

    def check_members(members, rep_e, rep_x, rep_evals, total, n_cost, per_member, where):
        es = [m["e"] for m in members]
        if any(e is None or e != e for e in es):
            out.append((key("member-energy-missing"), "%s: member energies %r" % (where, es))); return
        mn = min(es)
        if not same_float(rep_e, mn) and rep_e != mn:
            out.append((key("best-not-minimum"), "%s: reported best energy %r, minimum over the members is %r (%r)" % (where, rep_e, mn, es)))
        elif not any(m["e"] == mn and same_vec(m["x"], rep_x) for m in members):
            out.append((key("solution-not-of-best-member"), "%s: reported solution %r is not the solution of a member with the minimal energy %r: %r" % (
                where, rep_x, mn, [(m["e"], m["x"]) for m in members])))
        elif rep_evals is not None and not any(m["e"] == mn and same_vec(m["x"], rep_x) and m["evals"] == rep_evals for m in members):
            out.append((key("evaluations-not-of-best-member"), "%s: reported evaluations %r do not belong to the best member" % (where, rep_evals)))
        s = sum(m["evals"] for m in members)
        if total != s:
            out.append((key("total-not-sum"), "%s: total evaluations %r, sum over members %r" % (where, total, s)))
        if total != n_cost:
            out.append((key("total-not-real-calls"), "%s: total evaluations %r, the cost was really called %d times" % (where, total, n_cost)))
        if per_member is not None:
            bad = [i for i, m in enumerate(members) if m["evals"] != per_member[i]]
            if bad:
                out.append((key("member-count-not-real-calls"), "%s: member evaluations %r, real calls per member %r" % (where, [m["evals"] for m in members], per_member)))
        if len(members) != want_n:
            out.append((key("member-count"), "%s: %d members, %d requested" % (where, len(members), want_n)))
        ids = [m["id"] for m in members]
        if ids != list(range(len(members))):
            out.append((key("member-ids"), "%s: member ids %r" % (where, ids)))

    if c["api"] == "wrapper":
        r = obs["ret"]
        if "members" in obs:
            check_members(obs["members"], r["fval"], r["x"], r["fcalls"], r["all_fcalls"], obs["n_cost"],
                          per_member_counts(tape, len(obs["members"])), "return tuple")
        else:
            if r["all_fcalls"] != obs["n_cost"]:
                out.append((key("total-not-real-calls"), "return tuple: all_fcalls %r, the cost was really called %d times" % (r["all_fcalls"], obs["n_cost"])))
    else:
        if obs["npts_attr"] != want_n:
            out.append((key("member-count"), "_npts = %d, %d requested" % (obs["npts_attr"], want_n)))
        for st in obs["states"]:
            check_members(st["members"], st["e"], st["x"], st["evals"], st["total"], st["n_cost"], st["per_member_cost"], st["tag"])
            if st["all_evals"] != [m["evals"] for m in st["members"]]:
                out.append((key("all-evals"), "%s: _all_evals %r vs members %r" % (st["tag"], st["all_evals"], [m["evals"] for m in st["members"]])))
            if out:
                break
    # ---- starting points: the first point each member works on
    if tagged:
        nmem = want_n
        first_cost = {}; first_con = {}
        for m, x, _ in tape.cost:
            first_cost.setdefault(m, x)
        for m, xin, xout in tape.con:
            first_con.setdefault(m, (xin, xout))
        for i in range(nmem):
            if i not in first_cost:
                bump(hist, "ens:member-without-evaluation")
                continue
            # with constraints the first evaluated point is constraints(start): the start is the first constraints input
            x0 = first_con[i][0] if i in first_con else first_cost[i]
            ev0 = first_cost[i]
            if lo is not None:
                if any(not (a <= v <= b) for v, a, b in zip(ev0, lo, hi)):
                    out.append((key("first-evaluation-outside-ranges"), "member %d: first evaluated point %r outside [%r, %r]" % (i, ev0, lo, hi)))
                    break
                if any(not (a <= v <= b) for v, a, b in zip(x0, lo, hi)):
                    out.append((key("start-outside-ranges"), "member %d: starting point %r outside [%r, %r]" % (i, x0, lo, hi)))
                    break
            if c["kind"] == "lattice" and "nbins" in c and not c.get("dist"):
                blo, bhi = (lo, hi) if lo is not None else ([-1000.0] * c["dim"], [1000.0] * c["dim"])
                r = i; idx = [0] * c["dim"]
                for d in range(c["dim"] - 1, -1, -1):
                    idx[d] = r % c["nbins"][d]; r //= c["nbins"][d]
                okc = all(cell_centre_ok(x0[d], blo[d], bhi[d], idx[d], c["nbins"][d], False) for d in range(c["dim"]))
                if not okc:
                    out.append((key("start-not-cell-centre"), "member %d starts at %r, not the centre of its cell %r of %r in [%r, %r]" % (i, x0, idx, c["nbins"], blo, bhi)))
                    break
                bump(hist, "ens:start-is-cell-centre")
    # ---- every member carries the ensemble's configuration
    cfgs = obs.get("member_cfg")
    if cfgs:
        for i, mc in enumerate(cfgs):
            bad = []
            if mc["class"] != nested_class(c["nested"]).__name__ or mc["dim"] != c["dim"]:
                bad.append("class/dim %s/%d" % (mc["class"], mc["dim"]))
            if c.get("ranges"):
                rl, rh, tight, clip = c["ranges"]
                if not mc["useStrict"] or not same_vec(mc["min"], rl) or not same_vec(mc["max"], rh):
                    bad.append("ranges %r..%r (strict=%r)" % (mc["min"], mc["max"], mc["useStrict"]))
                if mc["tight"] != tight or mc["clip"] != clip:
                    bad.append("tight/clip %r/%r" % (mc["tight"], mc["clip"]))
            elif mc["useStrict"]:
                bad.append("strict ranges although the ensemble has none")
            mi, mf = c["limits"]
            if mi is not None and mc["maxiter"] != mi:
                bad.append("maxiter %r" % (mc["maxiter"],))
            if mf is not None and mc["maxfun"] != mf:
                bad.append("maxfun %r" % (mc["maxfun"],))
            if c["api"] == "class" and mc["term"] != obs["requested_term"]:
                bad.append("termination %r vs %r" % (mc["term"], obs["requested_term"]))
            if bad:
                out.append((key("member-config"), "member %d does not carry the ensemble's configuration (%r requested): %s" % (i, {k: c.get(k) for k in ("ranges", "limits", "termination")}, "; ".join(bad))))
                break
        if tagged:
            ncon = {}; npen = {}; ncost = {}
            for m, _, _ in tape.con:
                ncon[m] = ncon.get(m, 0) + 1
            for m, _, _ in tape.pen:
                npen[m] = npen.get(m, 0) + 1
            for m, _, _ in tape.cost:
                ncost[m] = ncost.get(m, 0) + 1
            for i in range(len(cfgs)):
                if not ncost.get(i):
                    continue
                if c.get("constraints") is not None and not ncon.get(i):
                    out.append((key("member-without-constraints"), "member %d evaluated the cost %d times and never applied the ensemble's constraints" % (i, ncost[i]))); break
                if c.get("penalty") is not None and not npen.get(i):
                    out.append((key("member-without-penalty"), "member %d evaluated the cost %d times and never applied the ensemble's penalty" % (i, ncost[i]))); break
    # every evaluation obeys the ensemble's ranges and (pure, idempotent, box-compatible) constraints
    if lo is not None:
        for m, x, _ in tape.cost:
            if any(not (a <= v <= b) for v, a, b in zip(x, lo, hi)):
                out.append((key("evaluation-outside-ranges"), "member %r evaluated the cost at %r outside [%r, %r]" % (m, x, lo, hi)))
                break
    if c.get("constraints") is not None:
        for m, x, _ in tape.cost:
            if not same_vec(dsl.con_apply(c["constraints"], x), x):
                out.append((key("evaluation-not-constrained"), "member %r evaluated the cost at %r which the ensemble's constraints move to %r" % (m, x, dsl.con_apply(c["constraints"], x))))
                break
    return out


# =================================================================== one case
def pick_stream(rng, tier):
    k = rng.random()
    if k < 0.20:
        return "grid"
    if k < 0.36:
        return "lattice"
    if k < 0.52:
        return "samples"
    if k < 0.72:
        return "rbin"
    if k < 0.97:
        return "ensemble"
    return "fill"


def run_case(seed, shard, k, tier, stream=None):
    """-> dict(stream, case, obs, lines[list of (label, line)], monitor[list of (key, what)], hist{})"""
    rng = case_rng(PID, seed, shard, k)
    st = stream or pick_stream(rng, tier)
    hist = {}
    rec = {"stream": st, "gen": {"seed": seed, "shard": shard, "k": k, "tier": tier, "stream": st}, "lines": [], "monitor": [], "hist": hist}
    if st == "grid":
        c = gen_grid(rng); obs = impl_grid(c)
        rec["lines"].append(("grid", line_grid(c)))
        rec["monitor"] = monitor_grid(c, obs)
        empt = any(len(b) == 0 for b in c["q"])
        bump(hist, "grid:%s" % ("empty-q" if not c["q"] else ("empty-bin" if empt else "bins=%d" % len(c["q"]))))
        rec["nontrivial"] = len(c["q"]) >= 2 and not empt and len(obs.get("pts", [])) >= 4
    elif st == "lattice":
        c = gen_lattice(rng); obs = impl_lattice(c, rng)
        rec["lines"].append(("lattice", line_lattice(c, obs)))
        rec["monitor"] = monitor_lattice(c, obs)
        bump(hist, "lattice:%s:%s:%s" % ("N" if "N" in c else "tuple", c["regime"], c.get("malformed") or ("strict" if c["strict"] else "default-ranges")))
        rec["nontrivial"] = len(obs.get("pts", [])) >= 2
    elif st == "samples":
        c = gen_samples(rng); obs = impl_samples(c)
        rec["lines"].append(("samples", line_samples(c, obs)))
        rec["monitor"] = monitor_samples(c, obs, hist)
        bump(hist, "samples:%s:%s:%s" % (c["via"], c["regime"], c.get("malformed") or ("real-rng" if c.get("real_rng") else "injected")))
        rec["nontrivial"] = c["npts"] >= 1 and "pts" in obs
    elif st == "rbin":
        c = gen_rbin(rng); obs = impl_rbin(c, rng)
        rec["lines"].append(("rbin", line_rbin(c, obs)))
        rec["monitor"] = monitor_rbin(c, obs)
        ties = len(obs["keys"]) != len(set(obs["keys"]))
        bump(hist, "rbin:ndim=%s:ones=%s:exact=%s%s" % ("none" if c["ndim"] is None else ("0" if c["ndim"] == 0 else "n"), c["ones"], c["exact"], ":key-ties" if ties else ""))
        if c["N"] == 0:
            bump(hist, "rbin:N=0")
        if not c["exact"] and c["N"] > 3 and is_prime(c["N"]):
            bump(hist, "rbin:inexact-prime-recursion")
        rec["nontrivial"] = len(obs["keys"]) >= 3
    elif st == "ensemble":
        c = gen_ensemble(rng, tier); obs, tape = run_ensemble(c)
        rec["monitor"] = monitor_ensemble(c, obs, tape, hist)
        if c["api"] == "wrapper":
            if obs.get("members"):
                rec["lines"].append(("best:return", line_best(obs["members"])))
        else:
            for s in obs["states"]:
                if all(m["e"] is not None for m in s["members"]):
                    rec["lines"].append(("best:" + s["tag"], line_best(s["members"])))
        bump(hist, "ens:%s:%s:%s:%s:map=%s" % (c["kind"], c["nested"], c["api"], c["mode"], c["map"]))
        for f in ("transport", "dist", "instance"):
            if c.get(f) and not (f == "instance" and c["api"] != "class"):
                bump(hist, "ens:with-" + f)
        for f in ("ranges", "constraints", "penalty"):
            if c.get(f) is not None:
                bump(hist, "ens:with-" + f)
        ms = obs["states"][-1]["members"] if obs.get("states") else obs.get("members") or []
        es = [m["e"] for m in ms]
        tie = len(es) >= 2 and es.count(min(es)) >= 2 if es and all(e is not None for e in es) else False
        if tie:
            bump(hist, "ens:energy-tie-for-best")
            xs = [tuple(m["x"]) for m in ms if m["e"] == min(es)]
            if len(set(xs)) >= 2:
                bump(hist, "ens:energy-tie-with-different-solutions")
        rec["nontrivial"] = len(ms) >= 2 and len(tape.cost) > len(ms)
        obs = {k2: v for k2, v in obs.items() if k2 not in ("tb",)} if not obs.get("err") else obs
    else:
        c = gen_fill(rng); obs = impl_fill(c)
        rec["monitor"] = monitor_fill(c, obs)
        bump(hist, "fill:%s:rtol=%r" % (c["via"], c["rtol"]))
        rec["nontrivial"] = c["npts"] >= 1
    rec["case"] = c; rec["obs"] = obs
    return rec


def compare(rec, label, line, rep):
    """model reply vs implementation observation -> list of divergence strings"""
    st = rec["stream"]; obs = rec["obs"]; c = rec["case"]
    r = parse_reply(rep)
    if r[0] == "bad-op":
        return ["driver answered bad-op"]
    if st in ("grid", "lattice", "samples"):
        if "err" in obs:
            return [] if (r[0] == "err" and r[1] == obs["err"]) else ["impl raised %s, model replied %r" % (obs["err"], rep[:80])]
        if r[0] != "ok":
            return ["impl returned %d points, model replied %r" % (len(obs["pts"]), rep)]
        mp = pts_of(r[1]["pts"])
        d = []
        if int(r[1]["n"]) != len(obs["pts"]):
            d.append("count model=%s impl=%d" % (r[1]["n"], len(obs["pts"])))
        elif not same_pts(mp, obs["pts"]):
            bad = [i for i, (a, b) in enumerate(zip(mp, obs["pts"])) if not same_vec(a, b)][:3]
            d.append("points differ at %r: model %r impl %r" % (bad, [mp[i] for i in bad], [obs["pts"][i] for i in bad]))
        if st == "lattice" and "N" in c and int(r[1]["draws"]) != len(obs["keys"]):
            d.append("sort-key draws model=%s impl=%d" % (r[1]["draws"], len(obs["keys"])))
        return d
    if st == "rbin":
        if "err" in obs:
            return [] if (r[0] == "err" and r[1] == obs["err"]) else ["impl raised %s, model replied %r" % (obs["err"], rep[:80])]
        if r[0] != "ok":
            return ["impl returned %r, model replied %r" % (obs["bins"], rep)]
        mb = [int(t) for t in r[1]["bins"]]
        d = []
        if mb != obs["bins"]:
            d.append("bins model=%r impl=%r" % (mb, obs["bins"]))
        if int(r[1]["draws"]) != len(obs["keys"]):
            d.append("draws model=%s impl=%d" % (r[1]["draws"], len(obs["keys"])))
        return d
    if st == "ensemble":
        if label == "best:return":
            ret = obs["ret"]
            rep_view = {"e": ret["fval"], "x": ret["x"], "evals": ret["fcalls"], "gens": ret["iterations"], "best_id": None,
                        "total": ret["all_fcalls"], "iters": None, "all_evals": None, "n": len(obs["members"])}
        else:
            rep_view = [s for s in obs["states"] if "best:" + s["tag"] == label][0]
        if r[0] != "ok":
            return ["model replied %r" % rep]
        kv = r[1]; d = []
        if not same_float(b2f(kv["e"]), rep_view["e"]):
            d.append("best energy model=%r impl=%r" % (b2f(kv["e"]), rep_view["e"]))
        if not same_vec(floats_of(kv["x"]), rep_view["x"]):
            d.append("best solution model=%r impl=%r" % (floats_of(kv["x"]), rep_view["x"]))
        if int(kv["evals"]) != rep_view["evals"]:
            d.append("evaluations model=%s impl=%r" % (kv["evals"], rep_view["evals"]))
        # the ensemble's `generations` is len(step monitor of the best member)-1; PowellDirectionalSolver keeps its own
        # iteration counter and defers its step record (known findings C04 F2/F2b), so the two notions only coincide
        # for the other nested solvers.  `generations` is not part of C09's statement.
        if c["nested"] != "Powell" and int(kv["gens"]) != rep_view["gens"]:
            d.append("generations model=%s impl=%r" % (kv["gens"], rep_view["gens"]))
        if rep_view["best_id"] is not None and int(kv["id"]) != rep_view["best_id"]:
            d.append("best member id model=%s impl=%r" % (kv["id"], rep_view["best_id"]))
        if int(kv["total"]) != rep_view["total"]:
            d.append("total evaluations model=%s impl=%r" % (kv["total"], rep_view["total"]))
        if rep_view["iters"] is not None and int(kv["iters"]) != rep_view["iters"]:
            d.append("total iterations model=%s impl=%r" % (kv["iters"], rep_view["iters"]))
        if rep_view["all_evals"] is not None and [int(t) for t in kv["all"]] != rep_view["all_evals"]:
            d.append("_all_evals model=%r impl=%r" % (kv["all"], rep_view["all_evals"]))
        if int(kv["n"]) != rep_view["n"]:
            d.append("member count model=%s impl=%r" % (kv["n"], rep_view["n"]))
        return d
    return []


def run_cases(specs):
    """specs: list of (seed, shard, k, tier, stream|None) -> (recs, findings, nlines)"""
    recs = [run_case(*s) for s in specs]
    lines = []; owner = []
    for i, rec in enumerate(recs):
        for label, line in rec["lines"]:
            lines.append(line); owner.append((i, label))
    replies = leandrv.run_driver(lines)
    findings = []
    for (i, label), line, rep in zip(owner, lines, replies):
        rec = recs[i]
        rec.setdefault("replies", []).append((label, rep))
        divs = compare(rec, label, line, rep)
        if divs:
            case = {"gen": rec["gen"], "case": rec["case"], "request": line[:4000], "model": rep[:4000], "impl": trim(rec["obs"])}
            findings.append(Finding("correspondence", "%s/diverges%s" % (rec["stream"], "/" + label.split(":")[0] if rec["stream"] == "ensemble" else ""),
                                    "; ".join(divs)[:1500], case))
    for rec in recs:
        for key, what in rec["monitor"]:
            case = {"gen": rec["gen"], "case": rec["case"], "impl": trim(rec["obs"])}
            findings.append(Finding("monitor", key, what[:1500], case))
    return recs, findings, len(lines)


def trim(obs):
    s = json.dumps(common.jsonable(obs))
    if len(s) < 6000:
        return obs
    return {"truncated": s[:6000]}


# =================================================================== shard / main / replay
def run_shard(pid, seed, shard, ncases, tier, extra):
    common.import_mystic()
    import warnings
    warnings.simplefilter("ignore"); np.seterr(all="ignore")
    stream = (extra or {}).get("stream")
    specs = [(seed, shard, k, tier, stream) for k in range(ncases)]
    recs, findings, nlines = run_cases(specs)
    hist = {}
    nontrivial = 0
    samples = []
    for rec in recs:
        for k, v in rec["hist"].items():
            hist[k] = hist.get(k, 0) + v
        if rec.get("nontrivial"):
            nontrivial += 1
            if len(samples) < 2 and rec["stream"] in ("lattice", "ensemble") and rec["lines"]:
                samples.append({"gen": rec["gen"], "case": rec["case"], "request": rec["lines"][0][1][:1500],
                                "model": rec.get("replies", [("", "")])[0][1][:1500], "impl": trim(rec["obs"])})
    return {"evaluations": len(recs), "nontrivial": nontrivial, "model_lines": nlines, "findings": findings,
            "samples": samples, "hist": hist}


def witnesses():
    """known-finding witness, run first: gridpts with an empty bin that is not the last one"""
    common.import_mystic()
    c = {"q": [[], [1.0, 2.0]]}
    obs = impl_grid(c)
    line = line_grid(c)
    rep = leandrv.run_driver([line])[0]
    rec = {"stream": "grid", "obs": obs, "case": c}
    out = []
    for d in compare(rec, "grid", line, rep):
        out.append(Finding("correspondence", "grid/diverges", d, {"case": c, "request": line, "model": rep, "impl": obs}))
    for key, what in monitor_grid(c, obs):
        out.append(Finding("monitor", key, what, {"case": c, "request": line, "model": rep, "impl": obs, "witness": True}))
    return out


def main(tier, seed):
    t0 = time.time()
    proof = framework.proof_stage(PID, MODULE, THEOREMS, tier)
    nshards, per = (16, 130) if tier == "quick" else (64, 900)
    run = framework.run_shards("c09", "run_shard", PID, seed, nshards, per, tier)
    run["findings"] = witnesses() + run["findings"]

    def search_more():
        r = framework.run_shards("c09", "run_shard", PID, seed + 7919, 32, 60, tier)
        return r["findings"]
    rule = ("cases: gridpts on 0-4 bins of 0-5 int/dyadic/float values (incl. empty q and empty bins); LatticeSolver._InitialPoints for "
            "tuple / integer nbins, strict / default ranges, dyadic / float / wide boxes (random.random sort keys recorded, ties injected); "
            "samplepts / BuckshotSolver._InitialPoints with the numpy.random.rand matrix injected (u in {0, 1-2^-53, ...}) or recorded; "
            "randomly_bin over N in 0..6000, ndim None/0/1..7, ones, exact; real Lattice/Buckshot/Sparsity solves (class API and "
            "lattice()/buckshot()/sparsity() wrappers) with nested NM/Powell/DE/DE2, serial/reversed/shuffled maps, Solve / Solve(step=True) / "
            "manual Step loops, ranges (tight/clip), DSL constraints, penalties, limits, terminations, plateau costs (exact energy ties); "
            "fillpts / SparsitySolver._InitialPoints (monitor only). non-trivial = grid with >= 2 non-empty bins and >= 4 points; "
            ">= 2 lattice points; >= 1 sample point; randomly_bin with >= 3 sort keys; ensemble with >= 2 members that evaluated beyond their start")
    tb = ["Lean 4.33 kernel; axioms per theorem listed under coverage.theorems",
          "hand-written model Model/Ensemble.lean tied to grid.py / samples.py / ensemble.py / abstract_ensemble_solver.py by this bit-exact differential run only",
          "the nested solvers themselves are NOT modelled here (C01-C05, C08): the members' real (bestEnergy, bestSolution, evaluations, generations) are inputs of the bookkeeping model",
          "member inheritance of bounds/constraints/penalty/limits/termination and 'total = number of real cost calls' are checked on the implementation by the monitor (copy.deepcopy and the map are runtime)",
          "fillpts is an optimisation run: only count and range membership are checked (monitor)"]
    assumptions = ["maps are in-process and order-preserving in their RESULT (any evaluation order); a pickling / process-pool map is not exercised",
                   "costs, constraints and penalties are deterministic DSL closures (deep copy keeps the same function object)",
                   "IEEE binary64 + - * / and comparisons agree between Lean Float and CPython / numpy",
                   "samples within [lb, ub]: the upper end is a field statement; in general floats an excess by rounding is counted, not reported (DESIGN 3)"]
    return framework.finish(PID, tier, seed, t0, proof, run, rule, tb, assumptions, search_more=search_more)


def replay(path):
    """re-execute one stored case (implementation, model and monitor) and reprint the verdict"""
    common.import_mystic()
    import warnings
    warnings.simplefilter("ignore"); np.seterr(all="ignore")
    leandrv.ensure_driver()
    data = json.load(open(path))
    case = data.get("case") or {}
    if data.get("kind") == "no-failing-input-found":
        cs = data.get("correspondence_not_checking") or []
        case = cs[0]["case"] if cs else {}
    if case.get("witness"):
        fs = witnesses()
    else:
        g = case.get("gen")
        if not g:
            print("replay: no generator coordinates in %s" % path); return 2
        recs, fs, _ = run_cases([(g["seed"], g["shard"], g["k"], g["tier"], g.get("stream"))])
    known = {e["class_key"] for e in framework.load_known(PID)}
    rc = 0
    for f in fs:
        if f["kind"] == "monitor" and f["class_key"] in known:
            print("KNOWN-FINDING: property=%s %s [%s]" % (PID, f["what"][:300], f["class_key"]))
        else:
            print("VIOLATION property=%s replay=%s%s  # %s: %s" % (PID, path, "" if f["kind"] == "monitor" else " no-failing-input-found", f["class_key"], f["what"][:300]))
            rc = 1
    if not fs:
        print("replay: case passes on the current tree")
    return rc


if __name__ == "__main__":
    sys.exit(main(os.environ.get("VERIF_TIER", "quick"), common.seed_env()))
